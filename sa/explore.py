"""debug helper: print guard facts / calls of a function"""
import sys, glob, os
sys.path.insert(0, os.path.dirname(os.path.dirname(os.path.abspath(__file__))))
from sa.core import *
from sa.extract import facts_path

def main():
    F = Facts.load(facts_path(os.environ.get('VERIF_REPO', '/repo'), os.environ.get('CFG', 'A')))
    pat = sys.argv[1]
    mode = sys.argv[2] if len(sys.argv) > 2 else 'guards'
    for k in F.bodies:
        if pat in k and (len(sys.argv) < 4 or sys.argv[3] in k):
            b = F.bodies[k]
            print('==', k, b.file, b.line, 'blocks', len(b.blocks))
            if mode in ('guards', 'all'):
                for bi, bl in enumerate(b.blocks):
                    if bl['cl'] or bl['t'][0] != 'switch':
                        continue
                    for tb, lab, f in cond_facts(F, b, bi):
                        txt = ' '.join(show(x) if isinstance(x, tuple) and x and isinstance(x[0], str) and x[0] in ('field','call','bin','phi','arg','const','variant','proj','un','cast','named','agg','ref','after','discr','len','callv') else str(x) for x in f[1:])
                        if 'Level::' in txt or 'max_level' in txt:
                            continue
                        print(f"  bb{bi}->bb{tb} {lab[1]!s:5} {f[0]} {txt[:260]}  @{b.block_line(bi)}")
            if mode in ('calls', 'all'):
                for bi, c, args, dest, tgt, ln in b.calls():
                    n = b.callee_name(c)
                    if n and ('log::' in n or 'fmt::' in n or 'Level' in n or 'PartialOrd' in n and 'Level' in str(args)):
                        continue
                    print(f"  bb{bi} call {n or c}  @{ln}")

if __name__ == '__main__':
    main()
