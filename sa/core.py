"""Analysis core over smolfacts JSON: bodies, CFG, normalised places, demand-driven
reaching definitions, origin trees / leaf sets / linear forms, edge-cut reachability,
condition facts for guard signatures, field-write index, call graph.

Nothing here executes smoltcp or hands a path to a solver.
"""
import json, os, pickle, sys
from collections import defaultdict, deque

sys.setrecursionlimit(20000)

CMP_OPS = {'Lt', 'Le', 'Gt', 'Ge', 'Eq', 'Ne'}
FLIP = {'Lt': 'Gt', 'Gt': 'Lt', 'Le': 'Ge', 'Ge': 'Le', 'Eq': 'Eq', 'Ne': 'Ne'}
NEG = {'Lt': 'Ge', 'Ge': 'Lt', 'Gt': 'Le', 'Le': 'Gt', 'Eq': 'Ne', 'Ne': 'Eq'}
CMP_CALLS = {
    'std::cmp::PartialOrd::lt': 'Lt', 'std::cmp::PartialOrd::le': 'Le',
    'std::cmp::PartialOrd::gt': 'Gt', 'std::cmp::PartialOrd::ge': 'Ge',
    'std::cmp::PartialEq::eq': 'Eq', 'std::cmp::PartialEq::ne': 'Ne',
}


def is_place_op(o):
    return o[0] in ('c', 'm')


class Body:
    def __init__(self, key, meta, facts, mir=None, promoted_of=None):
        self.key = key
        self.meta = meta
        self.facts = facts
        m = mir if mir is not None else meta['mir']
        self.nargs = m['nargs']
        self.locals = m['locals']
        self.blocks = m['blocks']
        self.dbg = m.get('dbg', [])
        self.file = meta.get('file')
        self.line = meta.get('line')
        self.kind = meta.get('kind')
        self.parent = meta.get('parent')
        self.promoted_of = promoted_of
        self.promoted = [Body(f"{key}::promoted[{i}]", meta, facts, mir=p, promoted_of=self)
                         for i, p in enumerate(m.get('promoted', []))]
        self._succ = None
        self._pred = None
        self._defs = None
        self._reft = None
        self._memo = {}

    # ---------- CFG ----------
    def succ_edges(self, bb):
        """list of (target, label) for non-cleanup successors. label: ('sw', value|'else') | None"""
        t = self.blocks[bb]['t']
        k = t[0]
        if k == 'goto':
            return [(t[1], None)]
        if k == 'switch':
            out = [(tb, ('sw', v)) for v, tb in t[2]]
            out.append((t[3], ('sw', 'else')))
            return out
        if k == 'call':
            return [(t[4], None)] if t[4] is not None else []
        if k == 'assert':
            return [(t[4], None)]
        if k == 'drop':
            return [(t[2], None)]
        return []

    @property
    def succ(self):
        if self._succ is None:
            self._succ = [[tb for tb, _ in self.succ_edges(i)] if not b['cl'] else []
                          for i, b in enumerate(self.blocks)]
        return self._succ

    @property
    def pred(self):
        if self._pred is None:
            p = [[] for _ in self.blocks]
            for i, ss in enumerate(self.succ):
                for s in ss:
                    p[s].append(i)
            self._pred = p
        return self._pred

    def restricted(self, cut_edges):
        """a view of this body whose CFG lacks `cut_edges` ((src,dst,label) triples or (src,dst)):
        origin / reaching-definition queries on it only see paths that avoid those edges"""
        nb = Body(self.key, self.meta, self.facts, mir=dict(nargs=self.nargs, locals=self.locals, blocks=self.blocks,
                                                             dbg=self.dbg, promoted=[]), promoted_of=self.promoted_of or self)
        cut = set(cut_edges)
        succ = []
        for i, bl in enumerate(self.blocks):
            if bl['cl']:
                succ.append([])
                continue
            ss = []
            for tb, lab in self.succ_edges(i):
                if (i, tb) in cut or (i, tb, lab) in cut:
                    continue
                ss.append(tb)
            succ.append(ss)
        # blocks no longer reachable from the entry contribute no edges (and hence no reaching definitions)
        seen = {0}
        st = [0]
        while st:
            x = st.pop()
            for y in succ[x]:
                if y not in seen:
                    seen.add(y)
                    st.append(y)
        nb._succ = [ss if i in seen else [] for i, ss in enumerate(succ)]
        return nb

    def reachable(self, cut_edges=frozenset(), cut_blocks=frozenset(), start=0, edge_ok=None):
        """blocks reachable from start; cut_edges is a set of (src,dst) pairs (all parallel edges)
        or (src,dst,label) triples; returns dict block -> predecessor (for witness paths)."""
        seen = {start: None}
        dq = deque([start])
        while dq:
            b = dq.popleft()
            if b in cut_blocks and b != start:
                continue
            for tb, lab in self.succ_edges(b):
                if self.blocks[tb]['cl']:
                    continue
                if (b, tb) in cut_edges or (b, tb, lab) in cut_edges:
                    continue
                if edge_ok is not None and not edge_ok(b, tb, lab):
                    continue
                if tb not in seen:
                    seen[tb] = b
                    dq.append(tb)
        return seen

    def path_to(self, seen, bb):
        p = []
        while bb is not None:
            p.append(bb)
            bb = seen[bb]
        return list(reversed(p))

    def return_blocks(self):
        return [i for i, b in enumerate(self.blocks) if b['t'][0] == 'ret' and not b['cl']]

    def block_line(self, bb):
        b = self.blocks[bb]
        t = b['t']
        if t[0] == 'call':
            return t[5]
        if t[0] == 'assert':
            return t[5]
        for s in b['s']:
            return s[3]
        return None

    def path_lines(self, path):
        out = []
        for bb in path:
            l = self.block_line(bb)
            if l is not None and (not out or out[-1] != l):
                out.append(l)
        return out

    # ---------- statements / calls ----------
    def calls(self):
        """yield (bb, callee_dict, args, dest_place, target, line)"""
        for i, b in enumerate(self.blocks):
            if b['cl']:
                continue
            t = b['t']
            if t[0] == 'call':
                yield i, t[1], t[2], t[3], t[4], t[5]

    def callee_name(self, c):
        """best name of a callee: resolved path if known else syntactic path"""
        if 'fn' in c:
            return c.get('res') or c['fn']
        return None

    def calls_to(self, pred):
        for i, c, args, dest, tgt, ln in self.calls():
            n = self.callee_name(c)
            if n is not None and pred(n, c):
                yield i, c, args, dest, tgt, ln

    # ---------- place normalisation ----------
    def local_ty(self, l):
        return self.locals[l]['ty']

    def is_ref_local(self, l):
        t = self.locals[l]['ty']
        return t.startswith('&') or t.startswith('*')

    def _all_defs(self):
        """index: local -> list of (bb, idx, kind, path, rv) ; idx = stmt index or 'T' for call dest"""
        if self._defs is None:
            d = defaultdict(list)
            for bi, b in enumerate(self.blocks):
                if b['cl']:
                    continue
                for si, s in enumerate(b['s']):
                    if s[0] == 'a':
                        l, pr = s[1]
                        d[l].append((bi, si, 'a', pr, s[2]))
                    elif s[0] == 'sd':
                        l, pr = s[1]
                        d[l].append((bi, si, 'sd', pr, s[2]))
                t = b['t']
                if t[0] == 'call':
                    l, pr = t[3]
                    d[l].append((bi, 'T', 'call', pr, t))
            self._defs = d
        return self._defs

    def ref_target(self, l):
        """if local l has exactly one definition and it is `&P` / `&mut P` / copy of another ref local,
        return the normalised place it points to (root, path) else None."""
        if self._reft is None:
            self._reft = {}
        if l in self._reft:
            return self._reft[l]
        self._reft[l] = None  # cycle guard
        defs = self._all_defs().get(l, [])
        res = None
        if 1 <= l <= self.nargs:
            # a (mut) parameter that is re-assigned in the body has two definitions: the caller's value and the assignment
            defs = []
        if len(defs) == 1 and defs[0][2] == 'a' and defs[0][3] == []:
            rv = defs[0][4]
            if rv[0] == 'ref' or rv[0] == 'rawptr':
                res = self.norm(rv[2] if rv[0] == 'ref' else rv[2])
            elif rv[0] == 'use' and is_place_op(rv[1]):
                pl = rv[1][1]
                if pl[1] == [] and self.is_ref_local(pl[0]):
                    inner = self.ref_target(pl[0])
                    if inner is not None:
                        res = inner
                    else:
                        res = (('d', pl[0]), ())
                elif pl[1] != [] and self.is_ref_local(l):
                    # copy of a reference stored in a field/upvar: pointee of that place
                    r0, p0 = self.norm(pl)
                    t2 = self._tuple_ref_target(r0, list(p0))
                    res = t2 if t2 is not None else (r0, tuple(p0) + (('*',),))
            elif rv[0] == 'cast' and rv[1].startswith('Coerce') and is_place_op(rv[2]):
                pl = rv[2][1]
                if pl[1] == [] and self.is_ref_local(pl[0]):
                    inner = self.ref_target(pl[0])
                    res = inner if inner is not None else (('d', pl[0]), ())
        self._reft[l] = res
        return res

    def norm(self, place):
        """normalise a MIR place to (root, path). root = ('l',n) plain local | ('d',n) pointee of
        ref-typed local n (argument or opaque ref). path = tuple of projection elems (hashable)."""
        l, projs = place
        root = ('l', l)
        path = []
        for pr in projs:
            if pr == '*':
                if not path and root[0] == 'l':
                    tgt = self.ref_target(root[1])
                    if tgt is not None:
                        root, p0 = tgt
                        path = list(p0)
                    else:
                        root = ('d', root[1])
                else:
                    tgt = self._tuple_ref_target(root, path)
                    if tgt is not None:
                        root, p0 = tgt
                        path = list(p0)
                    else:
                        path.append(('*',))
            elif pr == '?':
                path.append(('?',))
            elif pr[0] == 'f':
                path.append(('f', pr[2], pr[3], pr[4]))
            elif pr[0] == 'i':
                path.append(('i', self._const_local(pr[1])))
            elif pr[0] == 'ci':
                path.append(('ci', pr[1], pr[3]))
            elif pr[0] == 'sub':
                path.append(('sub', pr[1], pr[2], pr[3]))
            elif pr[0] == 'dc':
                path.append(('dc', pr[1]))
        return (root, tuple(path))

    def _tuple_ref_target(self, root, path):
        """`(*(t.i))` where local t is built once as a tuple whose i-th operand is a reference with a
        known target: the place it points to"""
        if root[0] != 'l' or len(path) != 1 or path[0][0] != 'f' or path[0][2] != '{tuple}':
            return None
        defs = self._all_defs().get(root[1], [])
        if len(defs) != 1 or defs[0][2] != 'a' or defs[0][3] != [] or defs[0][4][0] != 'agg' or defs[0][4][1].get('k') != 'tuple':
            return None
        try:
            i = int(path[0][1])
            op = defs[0][4][2][i]
        except Exception:
            return None
        if not is_place_op(op) or op[1][1] != []:
            return None
        return self.ref_target(op[1][0])

    def _const_local(self, l, depth=0):
        """integer value of local l if its only definition is an integer constant (index locals), a copy of
        such a local, or a call of a function that does nothing but return an integer constant"""
        defs = self._all_defs().get(l, [])
        if len(defs) != 1 or defs[0][3] != []:
            return None
        d = defs[0]
        if d[2] == 'a' and d[4][0] == 'use' and d[4][1][0] == 'k':
            v = d[4][1][2]
            if isinstance(v, dict) and 'named' in v:
                v = v['v']
            if isinstance(v, int) and not isinstance(v, bool):
                return v
        if d[2] == 'a' and d[4][0] == 'use' and d[4][1][0] in ('c', 'm') and d[4][1][1][1] == [] and depth < 3:
            return self._const_local(d[4][1][1][0], depth + 1)
        if d[2] == 'a' and d[4][0] == 'use' and d[4][1][0] in ('c', 'm') and len(d[4][1][1][1]) == 1 and depth < 3 \
                and d[4][1][1][1][0][0] == 'f' and d[4][1][1][1][0][1] == 0:
            # (_t.0) of a checked addition of two resolvable operands
            td = self._all_defs().get(d[4][1][1][0], [])
            if len(td) == 1 and td[0][2] == 'a' and td[0][3] == [] and td[0][4][0] == 'bin' and td[0][4][1] in ('AddWithOverflow', 'Add'):
                vals = []
                for op in td[0][4][2:4]:
                    if op[0] == 'k':
                        v = op[2]
                        if isinstance(v, dict) and 'named' in v:
                            v = v['v']
                        vals.append(v if isinstance(v, int) and not isinstance(v, bool) else None)
                    elif op[1][1] == []:
                        vals.append(self._const_local(op[1][0], depth + 1))
                    else:
                        vals.append(None)
                if None not in vals:
                    return vals[0] + vals[1]
        if d[2] == 'call' and depth < 3:
            nm = self.callee_name(d[4][1])
            cb = self.facts.bodies.get(nm) if nm else None
            if cb is not None:
                return cb.const_return()
        return None

    def const_return(self):
        """the integer constant this body returns if it consists of nothing but `return K`"""
        live = [b for b in self.blocks if not b['cl']]
        if len(live) != 1 or live[0]['t'][0] != 'ret':
            return None
        val = None
        for s in live[0]['s']:
            if s[0] == 'a' and s[1] == [0, []] and s[2][0] == 'use' and s[2][1][0] == 'k':
                v = s[2][1][2]
                if isinstance(v, dict) and 'named' in v:
                    v = v['v']
                if isinstance(v, int) and not isinstance(v, bool):
                    val = v
                    continue
            if s[0] == 'a':
                return None
        return val

    @staticmethod
    def field_labels(path):
        """list of 'adt.field' labels along a normalised path"""
        return [f"{e[2]}.{e[1]}" for e in path if e[0] == 'f' and e[2] not in (None, '{tuple}', '{closure}')]

    # ---------- demand-driven reaching definitions ----------
    def _writes_in_stmt(self, bi, si):
        """normalised place written by statement (bi,si) or terminator ('T'), plus kind and payload"""
        b = self.blocks[bi]
        if si == 'T':
            t = b['t']
            if t[0] == 'call':
                return self.norm(t[3]), 'call', t
            return None
        s = b['s'][si]
        if s[0] in ('a', 'sd'):
            return self.norm(s[1]), s[0], s[2]
        return None

    def _call_may_write(self, t):
        """set of normalised (root,path) regions a call may write through &mut arguments.
        path is a prefix region; () = whole root."""
        out = []
        for a in t[2]:
            if not is_place_op(a):
                continue
            pl = a[1]
            l = pl[0]
            ty = self.locals[l]['ty']
            if pl[1] == [] and ty.startswith('&mut'):
                tgt = self.ref_target(l)
                if tgt is not None:
                    out.append(tgt)
                else:
                    out.append((('d', l), ()))
            elif pl[1] == [] and ty.startswith('&') and 'Cell' in ty:
                tgt = self.ref_target(l)
                if tgt is not None:
                    out.append(tgt)
        return out

    def reaching(self, nplace, bb, si):
        """definitions of nplace=(root,path) that may reach program point just before (bb,si)
        (si = statement index, or len(stmts) for the terminator position, 'T+' for after a call
        terminator i.e. entry of successor).  Returns list of defs:
        ('a', bi, si, rv, relpath)      assignment whose lhs is a prefix of nplace; relpath = rest
        ('part', bi, si)                assignment to a sub-part of nplace (may-def)
        ('call', bi, t, relpath)        call destination is a prefix of nplace
        ('clobber', bi, t)              call that may write it through &mut
        ('sd', bi, si, variant)
        ('entry',)                      reaches function entry (argument / uninitialised)
        """
        root, path = nplace
        key = ('rd', nplace, bb, si)
        if key in self._memo:
            return self._memo[key]
        res = []
        seen = set()
        stack = [(bb, si)]
        while stack:
            b, i = stack.pop()
            blk = self.blocks[b]
            n = len(blk['s'])
            if i == 'end':
                # position after the terminator of b: check terminator then statements
                t = blk['t']
                killed = False
                if t[0] == 'call':
                    w = self.norm(t[3])
                    if w[0] == root and _is_prefix(w[1], path):
                        res.append(('call', b, t, path[len(w[1]):]))
                        killed = True
                    elif w[0] == root and _is_prefix(path, w[1]):
                        res.append(('part', b, 'T'))
                    if not killed:
                        for (r2, p2) in self._call_may_write(t):
                            if r2 == root and (_is_prefix(p2, path) or _is_prefix(path, p2)):
                                res.append(('clobber', b, t))
                                break
                if killed:
                    continue
                i = n
            # walk statements i-1 .. 0
            killed = False
            j = i - 1
            while j >= 0:
                s = blk['s'][j]
                if s[0] in ('a', 'sd'):
                    w = self.norm(s[1])
                    if w[0] == root:
                        if _is_prefix(w[1], path):
                            if s[0] == 'a':
                                res.append(('a', b, j, s[2], path[len(w[1]):]))
                            else:
                                res.append(('sd', b, j, s[2]))
                            killed = True
                            break
                        elif _is_prefix(path, w[1]):
                            res.append(('part', b, j))
                j -= 1
            if killed:
                continue
            if b == 0:
                res.append(('entry',))
            for p in self.pred[b]:
                if p not in seen:
                    seen.add(p)
                    stack.append((p, 'end'))
        # dedupe
        out = []
        sk = set()
        for d in res:
            k = (d[0], d[1] if len(d) > 1 else None, d[2] if len(d) > 2 and not isinstance(d[2], (list, dict)) else None)
            if k not in sk:
                sk.add(k)
                out.append(d)
        self._memo[key] = out
        return out


ALL_FACTS = []  # every Facts object loaded in this process (closure upvar lookups need the closure's body)
UPVARS = {}     # closure body key -> {upvar name: index in the closure aggregate}


def upvar_index(facts, key, name):
    m = UPVARS.get(key)
    if m is None:
        m = {}
        b = None
        for fx in ([facts] if facts is not None else []) + ALL_FACTS:
            b = fx.bodies.get(key)
            if b is not None:
                break
        if b is not None:
            def scan(pl):
                for pr in pl[1]:
                    if isinstance(pr, list) and pr[0] == 'f' and len(pr) > 3 and pr[3] == '{closure}':
                        m[pr[2]] = pr[1]
            for bl in b.blocks:
                for st in bl['s']:
                    for x in _places_in(st):
                        scan(x)
                for x in _places_in(bl['t']):
                    scan(x)
        UPVARS[key] = m
    return m.get(name)


def _places_in(x):
    """MIR places ([local, [projections]]) occurring anywhere in a statement / terminator"""
    out = []
    if isinstance(x, list):
        if len(x) == 2 and isinstance(x[0], int) and isinstance(x[1], list) and all(isinstance(p, (list, str)) for p in x[1]):
            out.append(x)
        for y in x:
            out += _places_in(y)
    elif isinstance(x, dict):
        for y in x.values():
            out += _places_in(y)
    return out


def _is_prefix(a, b):
    return len(a) <= len(b) and tuple(b[:len(a)]) == tuple(a)


# =====================================================================================
# Origin trees
# =====================================================================================

class Origin:
    """Demand-driven expression DAG of a value at a program point.

    Node forms (tuples):
      ('field', rootdesc, labels)   read of memory not defined in this body:
                                    rootdesc = ('arg',k) | ('local',n) ; labels = tuple of path elems
      ('arg', k)                    whole argument value
      ('const', value_json_str)
      ('variant', 'adt::V')         constant fieldless variant / aggregate of a fieldless variant
      ('call', name, (args...))     result of a call
      ('bin', op, a, b) ('un', op, a) ('cast', a) ('discr', a) ('len', a)
      ('agg', desc, (ops...))       desc = adt::variant | 'tuple' | 'array' | closure def
      ('ref', a)                    address-of (kept transparent in leaf computations)
      ('proj', a, labels)           projection out of a computed value
      ('phi', (a, b, ...))          several reaching definitions
      ('after', node, ('call', name))  value possibly modified by a call through &mut
      ('opaque', why)
    """

    def __init__(self, facts, depth_limit=40):
        self.facts = facts
        self.depth_limit = depth_limit

    def operand(self, body, op, bb, si, depth=0, seen=None):
        if op[0] == 'k':
            return self.const(body, op[2], op[1])
        return self.place(body, op[1], bb, si, depth, seen)

    def const(self, body, v, ty=None):
        if isinstance(v, dict):
            if 'named' in v:
                inner = self.const(body, v['v'], ty)
                return ('named', v['named'], inner)
            if 'adt' in v:
                if not v['fields']:
                    return ('variant', f"{v['adt']}::{v['variant']}")
                return ('agg', f"{v['adt']}::{v['variant']}", tuple(self.const(body, x) for x in v['fields']),
                        tuple(v.get('fnames', ())))
            if 'promoted' in v:
                pb = (body.promoted_of or body).promoted[v['promoted']]
                # promoted body: value of _0 at return
                rets = pb.return_blocks()
                if rets:
                    rb = rets[0]
                    return self.place(pb, [0, []], rb, len(pb.blocks[rb]['s']), 0, None)
                return ('opaque', 'promoted')
            if 'fn' in v:
                return ('fnref', v.get('res') or v['fn'])
            if 'ref' in v:
                return ('ref', self.const(body, v['ref']))
            if 'tuple' in v:
                return ('agg', 'tuple', tuple(self.const(body, x) for x in v['tuple']))
            return ('const', json.dumps(v, sort_keys=True))
        return ('const', json.dumps(v))

    def place(self, body, place, bb, si, depth=0, seen=None):
        np_ = body.norm(place)
        return self.nplace(body, np_, bb, si, depth, seen)

    def nplace(self, body, np_, bb, si, depth=0, seen=None):
        key = ('or', np_, bb, si)
        if key in body._memo:
            return body._memo[key]
        if seen is None:
            seen = frozenset()
        if depth > self.depth_limit or key in seen:
            return ('opaque', 'depth')
        seen = seen | {key}
        root, path = np_
        # memory behind an argument reference / opaque ref
        defs = body.reaching(np_, bb, si)
        outs = []
        for d in defs:
            if d[0] == 'entry':
                if root[0] == 'd' and (root[1] > body.nargs or any(d[3] == [] for d in body._all_defs().get(root[1], ()))) \
                        and not self._is_const_ref(body, root[1]):
                    # pointee of a reference held in a local (e.g. the slice returned by as_ref()):
                    # value = deref(origin of that local)
                    o = self.nplace(body, (('l', root[1]), ()), bb, si, depth + 1, seen)
                    outs.append(self._project(('deref', o), tuple(path)))
                else:
                    outs.append(self._entry_leaf(body, root, path))
            elif d[0] == 'a':
                _, b2, j, rv, rel = d
                v = self.rvalue(body, rv, b2, j, depth + 1, seen)
                outs.append(self._project(v, rel))
            elif d[0] == 'sd':
                outs.append(('variantset', d[3]))
            elif d[0] == 'call':
                _, b2, t, rel = d
                v = self.call_node(body, t, b2, depth + 1, seen)
                outs.append(self._project(v, rel))
            elif d[0] == 'clobber':
                _, b2, t = d
                name = body.callee_name(t[1]) or '?'
                outs.append(('after', self._entry_leaf(body, root, path), ('call', name)))
            elif d[0] == 'part':
                outs.append(('opaque', 'partial-def'))
        if not outs:
            res = ('opaque', 'nodef')
        elif len(outs) == 1:
            res = outs[0]
        else:
            uniq = []
            for o in outs:
                if o not in uniq:
                    uniq.append(o)
            res = uniq[0] if len(uniq) == 1 else ('phi', tuple(uniq))
        body._memo[key] = res
        return res

    def _is_const_ref(self, body, n):
        defs = body._all_defs().get(n, [])
        return (len(defs) == 1 and defs[0][2] == 'a' and defs[0][3] == [] and defs[0][4][0] == 'use'
                and defs[0][4][1][0] == 'k')

    def _entry_leaf(self, body, root, path):
        kind, n = root
        if kind == 'd':
            if n > body.nargs:
                defs = body._all_defs().get(n, [])
                if len(defs) == 1 and defs[0][2] == 'a' and defs[0][3] == [] and defs[0][4][0] == 'use' \
                        and defs[0][4][1][0] == 'k':
                    c = self.const(body, defs[0][4][1][2])
                    if c[0] == 'ref':
                        return self._project(c[1], tuple(path))
            rd = ('arg', n) if 1 <= n <= body.nargs else ('local', n)
            return ('field', rd, tuple(path))
        # plain local reaching entry: an argument (by value) or uninitialised
        if 1 <= n <= body.nargs:
            if path:
                return ('proj', ('arg', n), tuple(path))
            return ('arg', n)
        return ('opaque', 'uninit')

    def _project(self, v, rel):
        if not rel:
            return v
        rel = tuple(rel)
        # projection through an aggregate
        if v[0] == 'agg' and rel[0][0] == 'f':
            desc = v[1]
            ops = v[2]
            fname = rel[0][1]
            names = v[3] if len(v) > 3 else None
            idx = None
            if names and fname in names:
                idx = names.index(fname)
            elif fname.isdigit():
                idx = int(fname)
            if idx is not None and idx < len(ops):
                return self._project(ops[idx], rel[1:])
        if v[0] == 'ref' and rel and rel[0] == ('*',):
            return self._project(v[1], rel[1:])
        if v[0] == 'deref' and strip_once(v[1])[0] == 'ref':
            return self._project(strip_once(v[1])[1], rel)
        if v[0] == 'field':
            return ('field', v[1], tuple(v[2]) + rel)
        if v[0] == 'phi':
            return ('phi', tuple(self._project(x, rel) for x in v[1]))
        if rel and rel[0][0] == 'dc':
            # downcast of a computed value: keep
            return ('proj', v, rel)
        return ('proj', v, rel)

    def call_node(self, body, t, bb, depth, seen):
        c = t[1]
        name = body.callee_name(c)
        si = len(body.blocks[bb]['s'])
        args = tuple(self.operand(body, a, bb, si, depth, seen) for a in t[2])
        if name is None:
            if 'local' in c:
                f = self.place(body, c['local'], bb, si, depth, seen)
                return ('callv', f, args)
            name = '?'
        return ('call', name, args)

    def rvalue(self, body, rv, bb, si, depth, seen):
        k = rv[0]
        if k == 'use':
            return self.operand(body, rv[1], bb, si, depth, seen)
        if k == 'ref' or k == 'rawptr':
            pl = rv[2]
            return ('ref', self.place(body, pl, bb, si, depth, seen))
        if k == 'bin':
            a = self.operand(body, rv[2], bb, si, depth, seen)
            b = self.operand(body, rv[3], bb, si, depth, seen)
            op = rv[1]
            if op.endswith('WithOverflow'):
                return ('agg', 'tuple', (('bin', op[:-12], a, b), ('opaque', 'ovf')))
            if op.endswith('Unchecked'):
                op = op[:-9]
            return ('bin', op, a, b)
        if k == 'un':
            a = self.operand(body, rv[2], bb, si, depth, seen)
            if rv[1] == 'PtrMetadata':
                return ('len', a)
            return ('un', rv[1], a)
        if k == 'cast':
            a = self.operand(body, rv[2], bb, si, depth, seen)
            if rv[1].startswith('Coerce'):
                return a
            return ('cast', a, rv[3])
        if k == 'discr':
            return ('discr', self.place(body, rv[1], bb, si, depth, seen))
        if k == 'agg':
            kd = rv[1]
            ops = tuple(self.operand(body, o, bb, si, depth, seen) for o in rv[2])
            if kd['k'] == 'adt':
                if not ops and kd['variant'] != '-':
                    return ('variant', f"{kd['adt']}::{kd['variant']}")
                if kd.get('active') is not None:
                    return ('agg', f"{kd['adt']}::{kd['variant']}", ops, (kd['fnames'][kd['active']],))
                return ('agg', f"{kd['adt']}::{kd['variant']}", ops, tuple(kd['fnames']))
            if kd['k'] == 'closure':
                return ('agg', 'closure:' + kd['def'], ops)
            return ('agg', kd['k'], ops)
        if k == 'repeat':
            return ('agg', 'repeat', (self.operand(body, rv[1], bb, si, depth, seen),))
        return ('opaque', k)


def strip_once(node):
    return node if isinstance(node, tuple) else ('opaque', 'x')


def walk(node, fn):
    """pre-order traversal over an origin tree"""
    stack = [node]
    seen = set()
    while stack:
        n = stack.pop()
        if id(n) in seen:
            continue
        seen.add(id(n))
        if not isinstance(n, tuple):
            continue
        fn(n)
        k = n[0] if n else None
        if k in ('bin',):
            stack += [n[2], n[3]]
        elif k in ('un',):
            stack.append(n[2])
        elif k in ('cast', 'discr', 'len', 'ref', 'deref'):
            stack.append(n[1])
        elif k == 'call':
            stack += list(n[2])
        elif k == 'callv':
            stack.append(n[1]); stack += list(n[2])
        elif k == 'agg':
            stack += list(n[2])
        elif k == 'phi':
            stack += list(n[1])
        elif k == 'proj':
            stack.append(n[1])
        elif k == 'after':
            stack.append(n[1])
        elif k == 'named':
            stack.append(n[2])


def leafs(node):
    """set of leaf labels: F:<adt>.<field> for every field on a path, A:<k>, K:<const>, C:<callee>,
    V:<variant>, N:<named const>, U:<upvar name>"""
    out = set()

    def f(n):
        k = n[0]
        if k == 'field':
            rd = n[1]
            if rd[0] == 'arg':
                out.add(f"A:{rd[1]}")
            for e in n[2]:
                if e[0] == 'f':
                    if e[2] == '{closure}':
                        out.add(f"U:{e[1]}")
                    elif e[2] not in (None, '{tuple}'):
                        out.add(f"F:{e[2]}.{e[1]}")
                elif e[0] == 'dc':
                    out.add(f"D:{e[1]}")
        elif k == 'proj':
            for e in n[2]:
                if e[0] == 'f':
                    if e[2] == '{closure}':
                        out.add(f"U:{e[1]}")
                    elif e[2] not in (None, '{tuple}'):
                        out.add(f"F:{e[2]}.{e[1]}")
                elif e[0] == 'dc':
                    out.add(f"D:{e[1]}")
        elif k == 'arg':
            out.add(f"A:{n[1]}")
        elif k == 'const':
            out.add(f"K:{n[1]}")
        elif k == 'call':
            out.add(f"C:{n[1]}")
        elif k == 'variant':
            out.add(f"V:{n[1]}")
        elif k == 'named':
            out.add(f"N:{n[1]}")
        elif k == 'agg':
            out.add(f"G:{n[1]}")
        elif k == 'fnref':
            out.add(f"R:{n[1]}")
        elif k == 'after':
            out.add(f"W:{n[2][1]}")
    walk(node, f)
    return out


def has_leaf(node, *labels):
    ls = leafs(node)
    return all(l in ls for l in labels)


def show(node, depth=0, maxdepth=8):
    """compact rendering of an origin tree for reports"""
    if not isinstance(node, tuple):
        return str(node)
    if depth > maxdepth:
        return '…'
    k = node[0]
    r = lambda x: show(x, depth + 1, maxdepth)
    if k == 'field':
        rd = node[1]
        base = f"arg{rd[1]}" if rd[0] == 'arg' else f"_{rd[1]}"
        return base + ''.join('.' + e[1] if e[0] == 'f' else ('@' + e[1] if e[0] == 'dc' else '[]') for e in node[2])
    if k == 'arg':
        return f"arg{node[1]}"
    if k == 'const':
        return node[1]
    if k == 'variant':
        return node[1].split('::')[-2] + '::' + node[1].split('::')[-1]
    if k == 'named':
        return node[1].split('::')[-1]
    if k == 'call':
        return node[1].split('::')[-1] + '(' + ', '.join(r(a) for a in node[2]) + ')'
    if k == 'callv':
        return 'callv(' + ', '.join(r(a) for a in node[2]) + ')'
    if k == 'bin':
        return f"({r(node[2])} {node[1]} {r(node[3])})"
    if k == 'un':
        return f"{node[1]}({r(node[2])})"
    if k in ('cast', 'discr', 'len'):
        return f"{k}({r(node[1])})"
    if k == 'ref':
        return '&' + r(node[1])
    if k == 'deref':
        return '*' + r(node[1])
    if k == 'agg':
        return node[1].split('::')[-1] + '{' + ', '.join(r(a) for a in node[2]) + '}'
    if k == 'phi':
        return 'φ(' + ' | '.join(r(a) for a in node[1]) + ')'
    if k == 'proj':
        return r(node[1]) + ''.join('.' + e[1] if e[0] == 'f' else ('@' + e[1] if e[0] == 'dc' else '[]') for e in node[2])
    if k == 'after':
        return r(node[1]) + "'"
    return str(node)


def strip(node):
    """remove transparent wrappers: ref, cast-free copies, named consts, Deref-like calls"""
    while isinstance(node, tuple):
        if node[0] == 'ref' or node[0] == 'deref':
            node = node[1]
        elif node[0] == 'named':
            node = node[2]
        elif node[0] == 'call' and node[1] in ('std::ops::Deref::deref', 'std::convert::AsRef::as_ref',
                                                'std::borrow::Borrow::borrow', 'std::clone::Clone::clone',
                                                'std::convert::Into::into', 'std::convert::From::from') and len(node[2]) == 1:
            node = node[2][0]
        else:
            break
    return node


# =====================================================================================
# Facts container
# =====================================================================================

class Facts:
    def __init__(self, raw):
        self.raw = raw
        self.adts = raw['adts']
        self.impls = raw['impls']
        self.consts = raw['consts']
        self.fns = raw.get('fns', {})
        self.unsafe = raw['unsafe']
        self.bodies = {k: Body(k, m, self) for k, m in raw['bodies'].items()}
        self.origin = Origin(self)
        self._callers = None
        self._fw = None

    @staticmethod
    def load(path):
        with open(path) as f:
            fx = Facts(json.load(f))
        ALL_FACTS.append(fx)
        return fx

    def body(self, key):
        return self.bodies.get(key)

    def method(self, adt, name, trait=None):
        """body of the inherent (trait=None) or trait method `name` of ADT `adt`, independent of the
        module the impl block lives in and of generic parameter spelling. None if absent/ambiguous."""
        if not hasattr(self, '_midx'):
            idx = defaultdict(list)
            for k, b in self.bodies.items():
                if b.kind == 'method':
                    nm = k.rsplit('::', 1)[-1]
                    idx[(b.meta.get('impl_self'), nm, b.meta.get('impl_trait'))].append(b)
            self._midx = idx
        if trait is None:
            c = self._midx.get((adt, name, None), [])
        else:
            c = [b for (a, n, t), bs in self._midx.items() if a == adt and n == name and t and t.split('<')[0] == trait
                 for b in bs]
        return c[0] if len(c) == 1 else None

    def methods(self, adt):
        self.method(adt, '')
        return [b for (a, n, t), bs in self._midx.items() if a == adt for b in bs]

    def find(self, pat):
        return [k for k in self.bodies if pat in k]

    def const_value(self, name):
        c = self.consts.get(name)
        return None if c is None else c['v']

    # closures of a function
    def closures_of(self, key):
        return [b for k, b in self.bodies.items() if b.meta.get('root') == key and b.kind == 'closure']

    def variants(self, adt):
        a = self.adts.get(adt)
        return [v['name'] for v in a['variants']] if a else None

    def discr_map(self, adt):
        a = self.adts.get(adt)
        return {v['discr']: v['name'] for v in a['variants']} if a else None

    # ---------- call graph ----------
    def call_edges(self):
        """dict caller key -> set of callee names (resolved if possible). Closures constructed in a
        body are edges to the closure body."""
        if self._callers is not None:
            return self._callees
        callees = defaultdict(set)
        callers = defaultdict(set)
        dyn_impls = defaultdict(set)   # trait method name -> impl methods
        for imp in self.impls:
            if imp['trait']:
                for it in imp['items']:
                    short = it.rsplit('::', 1)[-1]
                    dyn_impls[(imp['trait'].split('<')[0], short)].add(it)
        for k, b in self.bodies.items():
            for bi, c, args, dest, tgt, ln in b.calls():
                n = b.callee_name(c)
                if n is None:
                    continue
                callees[k].add(n)
                if c.get('res') is None and c.get('tm'):
                    # unresolved trait method: add all local impls
                    tr = c['fn'].rsplit('::', 1)[0]
                    short = c['fn'].rsplit('::', 1)[-1]
                    for it in dyn_impls.get((tr, short), ()):
                        callees[k].add(it)
            for bl in b.blocks:
                if bl['cl']:
                    continue
                for s in bl['s']:
                    if s[0] == 'a' and s[2][0] == 'agg' and s[2][1]['k'] == 'closure':
                        callees[k].add(s[2][1]['def'])
        for k, cs in callees.items():
            for c in cs:
                callers[c].add(k)
        self._callees = callees
        self._callers = callers
        return callees

    def callers(self, name):
        self.call_edges()
        return self._callers.get(name, set())

    def reachable_from(self, roots, stop=lambda n: False):
        ce = self.call_edges()
        seen = set()
        dq = deque(roots)
        while dq:
            n = dq.popleft()
            if n in seen:
                continue
            seen.add(n)
            if stop(n):
                continue
            for c in ce.get(n, ()):
                if c not in seen:
                    dq.append(c)
        return seen

    # ---------- field write index ----------
    def field_writes(self):
        """list of dict(fn, bb, si, adt, field, variant, line, kind) for every direct store to an ADT
        field (through any base) and every `&mut` borrow of a field."""
        if self._fw is not None:
            return self._fw
        out = []
        for k, b in self.bodies.items():
            for bi, bl in enumerate(b.blocks):
                if bl['cl']:
                    continue
                for si, s in enumerate(bl['s']):
                    if s[0] == 'a':
                        projs = s[1][1]
                        fl = [p for p in projs if isinstance(p, list) and p[0] == 'f']
                        if fl:
                            # innermost field written (last field projection), and all outer ones
                            last = fl[-1]
                            out.append(dict(fn=k, bb=bi, si=si, adt=last[3], field=last[2], variant=last[4],
                                            line=s[3], kind='store', chain=[(p[3], p[2]) for p in fl]))
                        rv = s[2]
                        if rv[0] == 'ref' and rv[1] == 'mut':
                            fl = [p for p in rv[2][1] if isinstance(p, list) and p[0] == 'f']
                            if fl:
                                last = fl[-1]
                                out.append(dict(fn=k, bb=bi, si=si, adt=last[3], field=last[2], variant=last[4],
                                                line=s[3], kind='mutref', chain=[(p[3], p[2]) for p in fl]))
                    elif s[0] == 'sd':
                        projs = s[1][1]
                        fl = [p for p in projs if isinstance(p, list) and p[0] == 'f']
                        if fl:
                            last = fl[-1]
                            out.append(dict(fn=k, bb=bi, si=si, adt=last[3], field=last[2], variant=last[4],
                                            line=s[3], kind='store', chain=[(p[3], p[2]) for p in fl]))
                t = bl['t']
                if t[0] == 'call':
                    projs = t[3][1]
                    fl = [p for p in projs if isinstance(p, list) and p[0] == 'f']
                    if fl:
                        last = fl[-1]
                        out.append(dict(fn=k, bb=bi, si='T', adt=last[3], field=last[2], variant=last[4],
                                        line=t[5], kind='store', chain=[(p[3], p[2]) for p in fl]))
        self._fw = out
        return out

    def writers_of(self, adt, field, kinds=('store', 'mutref')):
        return [w for w in self.field_writes() if w['adt'] == adt and w['field'] == field and w['kind'] in kinds]


# =====================================================================================
# Condition facts: what holds on each out-edge of a switch
# =====================================================================================

def cond_facts(facts, body, bb):
    """For a block ending in `switch`, return list of (target_bb, label, fact) where fact describes
    what is known on that edge:
      ('rel', op, A, B)         A op B holds (origin trees), op in Lt/Le/Gt/Ge/Eq/Ne
      ('bool', node, truth)     bool-valued node has that truth value
      ('is', node, variant)     discriminant of node is variant name (or ('isnot', node, [variants]))
    """
    t = body.blocks[bb]['t']
    if t[0] != 'switch':
        return []
    og = facts.origin
    si = len(body.blocks[bb]['s'])
    cond = og.operand(body, t[1], bb, si)
    out = []
    dty = t[4]
    if dty == 'bool':
        listed = [x[0] for x in t[2]]
        for tb, lab in body.succ_edges(bb):
            v = lab[1]
            if v != 'else':
                truth = bool(v)
            elif listed == [0]:
                truth = True
            elif listed == [1]:
                truth = False
            else:
                continue
            c0 = strip(cond)
            if c0[0] == 'phi':
                alts = bool_dnf(c0, truth)
                out.append((tb, lab, ('dnf', tuple(tuple(a) for a in alts), c0, truth)))
            else:
                for f in bool_facts(cond, truth):
                    out.append((tb, lab, f))
                # a bool-returning helper of the crate (e.g. a condition extracted into a private fn): what its result
                # means is read off its body - the facts of its return expression hold on this edge as well
                inl = _inline_bool_helper(facts, c0)
                if inl is not None:
                    i0 = strip(inl)
                    if i0[0] == 'phi':
                        alts = bool_dnf(i0, truth)
                        out.append((tb, lab, ('dnf', tuple(tuple(a) for a in alts), i0, truth)))
                    else:
                        for f in bool_facts(inl, truth):
                            out.append((tb, lab, f))
        return out
    # discriminant switch
    c = strip(cond)
    if c[0] == 'discr':
        subj = c[1]
        adt = _adt_of_discr(facts, body, t[1])
        dm = facts.discr_map(adt) if adt else None
        if dm is None:
            dm = STD_DISCR.get(adt)
        listed = []
        for tb, lab in body.succ_edges(bb):
            v = lab[1]
            if v == 'else':
                out.append((tb, lab, ('isnot', subj, tuple(listed), adt)))
            else:
                name = dm.get(v, str(v)) if dm else str(v)
                listed.append(name)
                out.append((tb, lab, ('is', subj, name, adt)))
        return out
    # integer switch on a value
    listed = []
    for tb, lab in body.succ_edges(bb):
        v = lab[1]
        if v == 'else':
            out.append((tb, lab, ('notin', cond, tuple(listed))))
        else:
            listed.append(v)
            out.append((tb, lab, ('rel', 'Eq', cond, ('const', json.dumps(v)))))
    return out


STD_DISCR = {
    'std::option::Option': {0: 'None', 1: 'Some'},
    'std::result::Result': {0: 'Ok', 1: 'Err'},
    'std::ops::ControlFlow': {0: 'Continue', 1: 'Break'},
}


def _inline_bool_helper(facts, node, depth=0):
    """return expression of a small, read-only, bool-returning crate function with the caller's arguments substituted"""
    if node[0] != 'call' or depth > 1:
        return None
    cb = facts.bodies.get(node[1])
    if cb is None or cb.kind not in ('method', 'fn') or len(cb.blocks) > 80 or not (cb.file or '').startswith('src/'):
        return None
    if cb.locals[0]['ty'] != 'bool':
        return None
    if any(l['ty'].startswith('&mut') for l in cb.locals[1:cb.nargs + 1]):
        return None
    try:
        from .wirelib import ret_origin, subst
        r = simplify(ret_origin(facts, cb))
        argmap = {i + 1: a for i, a in enumerate(node[2])}
        return subst(r, argmap)
    except Exception:
        return None


def _adt_of_discr(facts, body, op):
    """ADT path of the place whose discriminant feeds a switch operand"""
    if not is_place_op(op):
        return None
    l = op[1][0]
    for d in body._all_defs().get(l, []):
        if d[2] == 'a' and d[4][0] == 'discr':
            if len(d[4]) > 2 and d[4][2]:
                return d[4][2]
            pl = d[4][1]
            return _place_adt(body, pl)
    return None


def _place_adt(body, pl):
    l, projs = pl
    adt = body.locals[l]['adt']
    ty = body.locals[l]['ty']
    # follow field projections: we only know field type names through adts table
    cur_adt = adt
    for pr in projs:
        if pr == '*':
            continue
        if isinstance(pr, list) and pr[0] == 'f':
            cur_adt = _field_adt(body.facts, pr, body)
        elif isinstance(pr, list) and pr[0] == 'dc':
            pass
    return cur_adt


def _field_adt(facts, pr, body):
    """ADT of the type of a field projection (best effort by name lookup in the adt table)"""
    adt, var, name = pr[3], pr[4], pr[2]
    a = facts.adts.get(adt)
    tys = None
    if a:
        for v in a['variants']:
            if var in ('-', v['name']):
                for f in v['fields']:
                    if f['name'] == name:
                        tys = f['ty']
    if adt == '{tuple}':
        return None
    if tys is None:
        if adt == 'std::option::Option':
            return None
        return None
    return ty_adt(facts, tys)


def ty_adt(facts, tys):
    t = tys.strip()
    while t.startswith('&'):
        t = t[1:].strip()
        if t.startswith("'"):
            t = t.split(' ', 1)[1] if ' ' in t else t
        if t.startswith('mut '):
            t = t[4:]
    base = t.split('<', 1)[0]
    if base in facts.adts:
        return base
    if base in ('std::option::Option', 'core::option::Option'):
        return 'std::option::Option'
    if base in ('std::result::Result', 'core::result::Result'):
        return 'std::result::Result'
    return base if '::' in base else None


def bool_facts(node, truth):
    """decompose a boolean origin node with known truth into atomic facts"""
    n = strip(node)
    k = n[0]
    if k == 'un' and n[1] == 'Not':
        return bool_facts(n[2], not truth)
    if k == 'bin' and n[1] in CMP_OPS:
        op = n[1] if truth else NEG[n[1]]
        return [('rel', op, n[2], n[3])]
    if k == 'call' and n[1] in CMP_CALLS and len(n[2]) == 2:
        op = CMP_CALLS[n[1]]
        op = op if truth else NEG[op]
        return [('rel', op, strip(n[2][0]), strip(n[2][1]))]
    if k == 'call' and n[1].startswith('<') and ' as std::cmp::Partial' in n[1]:
        meth = n[1].rsplit('::', 1)[-1]
        m = {'lt': 'Lt', 'le': 'Le', 'gt': 'Gt', 'ge': 'Ge', 'eq': 'Eq', 'ne': 'Ne'}.get(meth)
        if m and len(n[2]) == 2:
            op = m if truth else NEG[m]
            return [('rel', op, strip(n[2][0]), strip(n[2][1]))]
    if k == 'phi':
        # a bool merged from several definitions (e.g. `a && b` materialised, or matches!):
        # each alternative that is a constant contributes nothing; report the phi itself
        return [('bool', n, truth)]
    return [('bool', n, truth)]


def bool_dnf(node, truth, depth=0):
    """disjunctive form of `node == truth`: list of alternatives, each a list of atomic facts.
    A phi of several definitions is a disjunction; constant alternatives that contradict `truth`
    are dropped; a constant alternative equal to `truth` is an unconstrained alternative ([])."""
    n = strip(node)
    if n[0] == 'phi' and depth < 4:
        out = []
        for alt in n[1]:
            a = strip(alt)
            if a[0] == 'const' and a[1] in ('true', 'false'):
                if (a[1] == 'true') == truth:
                    out.append([])
                continue
            out += bool_dnf(a, truth, depth + 1)
        return out
    if n[0] == 'un' and n[1] == 'Not':
        return bool_dnf(n[2], not truth, depth)
    if n[0] == 'const' and n[1] in ('true', 'false'):
        return [[]] if (n[1] == 'true') == truth else []
    return [bool_facts(n, truth)]


def rel_matches(fact, opclass, left_leafs, right_leafs, either_order=True):
    """does ('rel', op, A, B) state `L opclass R` with L containing left_leafs and R right_leafs?
    opclass: 'lt' (Lt or Le), 'gt', 'eq', 'ne', 'any'."""
    if fact[0] != 'rel':
        return False
    _, op, a, b = fact
    la, lb = leafs(a), leafs(b)

    def cls(o):
        return {'Lt': 'lt', 'Le': 'lt', 'Gt': 'gt', 'Ge': 'gt', 'Eq': 'eq', 'Ne': 'ne'}[o]
    fwd = set(left_leafs) <= la and set(right_leafs) <= lb
    rev = set(left_leafs) <= lb and set(right_leafs) <= la
    if fwd and rev and opclass not in ('any', 'eq', 'ne'):
        # both operands contain both leaf sets: the orientation is ambiguous, no claim
        return False
    if fwd:
        if opclass == 'any' or cls(op) == opclass:
            return True
    if either_order and rev:
        if opclass == 'any' or cls(FLIP[op]) == opclass:
            return True
    return False


# =====================================================================================
# Linear forms
# =====================================================================================

ADD_CALLS = ('std::ops::Add', 'std::ops::AddAssign')
SUB_CALLS = ('std::ops::Sub', 'std::ops::SubAssign')


def lin(node):
    """linear form: (dict atom->coef, const). Atoms are origin subtrees (hashable)."""
    n = strip(node)
    if n[0] == 'const':
        try:
            v = json.loads(n[1])
            if isinstance(v, bool):
                v = int(v)
            if isinstance(v, int):
                return ({}, v)
        except Exception:
            pass
        return ({n: 1}, 0)
    if n[0] == 'cast':
        return lin(n[1])
    if n[0] == 'bin' and n[1] in ('Add', 'Sub'):
        a, ca = lin(n[2])
        b, cb = lin(n[3])
        s = 1 if n[1] == 'Add' else -1
        out = dict(a)
        for k, v in b.items():
            out[k] = out.get(k, 0) + s * v
            if out[k] == 0:
                del out[k]
        return (out, ca + s * cb)
    if n[0] == 'call' and len(n[2]) == 2:
        nm = n[1]
        s = None
        if ' as std::ops::Add<' in nm and nm.endswith('::add'):
            s = 1
        elif ' as std::ops::Sub<' in nm and nm.endswith('::sub') or (' as std::ops::Sub>' in nm and nm.endswith('::sub')):
            s = -1
        elif nm in ('core::num::<impl usize>::wrapping_add',):
            s = 1
        if s is not None:
            a, ca = lin(n[2][0])
            b, cb = lin(n[2][1])
            out = dict(a)
            for k, v in b.items():
                out[k] = out.get(k, 0) + s * v
                if out[k] == 0:
                    del out[k]
            return (out, ca + s * cb)
    if n[0] == 'proj' and n[1][0] == 'agg' and n[1][1] == 'tuple':
        pass
    return ({n: 1}, 0)


def lin_eq(a, b):
    la, ca = lin(a)
    lb, cb = lin(b)
    return ca == cb and la == lb


# =====================================================================================
# generic helpers for rules
# =====================================================================================

def sites_calling(body, name_pred):
    """blocks whose terminator calls a function whose (resolved or syntactic) name satisfies pred"""
    return [(bi, c, args, dest, tgt, ln) for bi, c, args, dest, tgt, ln in body.calls()
            if (body.callee_name(c) is not None and name_pred(body.callee_name(c)))]


_MIRROR = {'Lt': 'Gt', 'Gt': 'Lt', 'Le': 'Ge', 'Ge': 'Le', 'Eq': 'Eq', 'Ne': 'Ne'}


def _both_orientations(pred):
    """`a < b` and `b > a` are the same fact: a guard predicate is tried on a relation as written and mirrored, so that
    a rule never depends on which operand the source happens to put first"""
    def p2(f):
        try:
            if pred(f):
                return True
        except Exception:
            pass
        if isinstance(f, tuple) and f and f[0] == 'rel' and len(f) >= 4 and f[1] in _MIRROR:
            try:
                return bool(pred(('rel', _MIRROR[f[1]], f[3], f[2]) + tuple(f[4:])))
            except Exception:
                return False
        return False
    return p2


def guard_edges(facts, body, pred):
    """all (src, dst, label) CFG edges out of switch blocks whose edge fact satisfies pred(fact)"""
    pred = _both_orientations(pred)
    out = []
    for bi, bl in enumerate(body.blocks):
        if bl['cl'] or bl['t'][0] != 'switch':
            continue
        for tb, lab, fact in cond_facts(facts, body, bi):
            try:
                if fact[0] == 'dnf':
                    # a bool merged from several definitions: the guard must follow from every
                    # possible definition (alternatives contradicting the edge were dropped);
                    # lib.derived_guard_edges refines this with reachability of each definition
                    ok = bool(fact[1]) and all(any(pred(f) for f in alt) for alt in fact[1])
                    if not ok:
                        ok = pred(('bool', fact[2], fact[3]))
                else:
                    ok = pred(fact)
                    if not ok and fact[0] == 'bool':
                        ok = _holds_via_helper(facts, fact, pred)
                    if not ok and fact[0] == 'bool' and _HELPER_DEPTH[0] == 0:
                        # a condition bound to a local closure (`let ok = || a || b; .. if ok() ..`)
                        inner = _closure_call(facts, fact[1])
                        if inner is not None:
                            ok = _returns_only_via(facts, inner[0], inner[1], fact[2], pred)
                    if not ok and fact[0] in ('is', 'bool'):
                        ok = _holds_via_closure(facts, fact, pred)
            except Exception:
                ok = False
            if ok:
                out.append((bi, tb, lab))
    return out


_HELPER_DEPTH = [0]


def _holds_via_helper(facts, fact, pred):
    """fact = ('bool', call H(args), truth) with H a small read-only bool-returning function of the crate (typically a
    condition that was extracted into a private helper): the guard `pred` holds on this edge when, inside H, every path
    that returns `truth` passes an edge on which pred holds (H's facts are read with the caller's arguments substituted)."""
    n = strip(fact[1])
    if n[0] != 'call' or _HELPER_DEPTH[0] > 0:
        return False
    cb = facts.bodies.get(n[1])
    if cb is None or cb.kind not in ('method', 'fn') or len(cb.blocks) > 80 or not (cb.file or '').startswith('src/'):
        return False
    if cb.locals[0]['ty'] != 'bool' or any(l['ty'].startswith('&mut') for l in cb.locals[1:cb.nargs + 1]):
        return False
    argmap = {i + 1: a for i, a in enumerate(n[2])}
    return _returns_only_via(facts, cb, argmap, fact[2], pred)


def _holds_via_closure(facts, fact, pred):
    """fact = `iter.find(|x| c(x))` / `.position(..)` is Some, or `iter.any(|x| c(x))` is true: the element that was found made
    the closure answer true, so the guard holds when, inside the closure, every path answering true passes an edge on which
    pred holds (a loop `for x in it { if c(x) { .. } }` rewritten with an iterator adaptor keeps its guard)"""
    if _HELPER_DEPTH[0] > 0:
        return False
    if not ((fact[0] == 'is' and fact[2] == 'Some') or (fact[0] == 'bool' and fact[2] is True)):
        return False
    n = strip(fact[1])
    for _ in range(4):
        if n[0] in ('ref', 'deref', 'after', 'proj', 'field') and len(n) >= 2:
            n = strip(n[1])
    if fact[0] == 'is' and n[0] == 'call' and n[1].rsplit('::', 1)[-1] == 'next' and len(n[2]) == 1:
        # `for x in it.filter(|x| c(x))`: an item that comes out of the adaptor made the closure answer true
        stack, flt = [n[2][0]], None
        for _ in range(40):
            if not stack:
                break
            y = strip(stack.pop())
            if y[0] == 'call' and y[1].rsplit('::', 1)[-1] == 'filter' and 'Iterator' in y[1] and len(y[2]) == 2:
                flt = y
                break
            if y[0] == 'phi':
                stack.extend(y[1])
            elif y[0] in ('ref', 'deref', 'after', 'proj', 'field') and len(y) >= 2 and isinstance(y[1], tuple):
                stack.append(y[1])
            elif y[0] == 'call' and y[2] and y[1].rsplit('::', 1)[-1] in ('into_iter', 'by_ref', 'iter', 'iter_mut'):
                stack.append(y[2][0])
        if flt is not None:
            clo = strip(flt[2][1])
            if clo[0] == 'agg' and str(clo[1]).startswith('closure:'):
                cb = facts.bodies.get(clo[1][len('closure:'):])
                if cb is not None and len(cb.blocks) <= 80 and cb.locals[0]['ty'] == 'bool':
                    return _returns_only_via(facts, cb, {1: clo}, True, pred)
        return False
    if n[0] != 'call' or len(n[2]) != 2 or n[1].rsplit('::', 1)[-1] not in (('find', 'position', 'rposition', 'find_map', 'filter') if fact[0] == 'is' else ('any',)):
        return False
    if n[1].rsplit('::', 1)[-1] == 'filter' and 'Option' not in n[1]:
        return False            # Option::filter(pred) is Some => pred held; an iterator's filter() says nothing yet
    clo = strip(n[2][1])
    if clo[0] != 'agg' or not str(clo[1]).startswith('closure:'):
        return False
    cb = facts.bodies.get(clo[1][len('closure:'):])
    if cb is None or len(cb.blocks) > 80 or cb.locals[0]['ty'] != 'bool':
        return False
    return _returns_only_via(facts, cb, {1: clo}, True, pred)


def _closure_call(facts, node):
    """node = Fn::call / FnMut::call_mut / FnOnce::call_once applied to a closure value that is visible as an aggregate
    (a named closure `let ok = |x| ..;` used inside another closure's predicate): (closure body, argmap) or None"""
    n = strip(node)
    if n[0] == 'call' and len(n[2]) == 2 and '{closure' in n[1].rsplit('::', 1)[-1] and n[1] in facts.bodies:
        # the call was resolved to the closure body by the compiler: (env, (args,))
        cb = facts.bodies[n[1]]
        args = strip(n[2][1])
        if len(cb.blocks) > 80 or cb.locals[0]['ty'] != 'bool' or args[0] != 'agg' or args[1] != 'tuple':
            return None
        argmap = {1: n[2][0]}
        for i, a in enumerate(args[2]):
            argmap[i + 2] = a
        return cb, argmap
    if n[0] != 'call' or n[1].rsplit('::', 1)[-1] not in ('call', 'call_mut', 'call_once') or len(n[2]) != 2:
        return None
    c = strip(n[2][0])
    for _ in range(4):
        if c[0] in ('ref', 'deref') and len(c) >= 2:
            c = strip(c[1])
    if c[0] != 'agg' or not str(c[1]).startswith('closure:'):
        return None
    cb = facts.bodies.get(c[1][len('closure:'):])
    if cb is None or len(cb.blocks) > 80 or cb.locals[0]['ty'] != 'bool':
        return None
    args = strip(n[2][1])
    if args[0] != 'agg' or args[1] != 'tuple':
        return None
    argmap = {1: c}
    for i, a in enumerate(args[2]):
        argmap[i + 2] = a
    return cb, argmap


_NEST = [0]


def _returns_only_via(facts, cb, argmap, want, pred):
    from .wirelib import subst
    # blocks in which the return place receives a value that can equal `want`
    sites = []
    discharged = []
    for bi, bl in enumerate(cb.blocks):
        if bl['cl']:
            continue
        for si_, s in enumerate(bl['s']):
            if s[0] == 'a' and s[1] == [0, []]:
                rv = s[2]
                if rv[0] == 'use' and rv[1][0] == 'k' and isinstance(rv[1][2], bool):
                    if rv[1][2] == want:
                        sites.append(bi)
                elif rv[0] == 'un' and rv[1] == 'Not':
                    # `a && !g(x)`: the negated last conjunct is returned directly
                    try:
                        nd = facts.origin.operand(cb, rv[2], bi, si_)
                    except Exception:
                        nd = None
                    if nd is not None and pred(('bool', subst(nd, argmap), not want)):
                        discharged.append(bi)
                        continue
                    sites.append(bi)
                else:
                    sites.append(bi)
        if bl['t'][0] == 'call' and bl['t'][3] == [0, []]:
            # `a && g(x)`: the last conjunct is returned directly; on the path to it all earlier conjuncts held, and
            # its own value equals the result
            sites.append(('callret', bi))
    if not sites:
        return bool(discharged)

    def sub_fact(f):
        if f[0] == 'rel':
            return ('rel', f[1], subst(f[2], argmap), subst(f[3], argmap)) + tuple(f[4:])
        if f[0] == 'bool':
            return ('bool', subst(f[1], argmap), f[2])
        if f[0] in ('is', 'isnot'):
            return (f[0], subst(f[1], argmap)) + tuple(f[2:])
        return f

    def p2(f):
        return pred(sub_fact(f))
    _HELPER_DEPTH[0] += 1
    try:
        ge = guard_edges(facts, cb, p2)
    finally:
        _HELPER_DEPTH[0] -= 1
    cut = set(ge)
    seen = cb.reachable(cut_edges=cut)
    for st in sites:
        if isinstance(st, tuple):
            bi = st[1]
            if bi not in seen:
                continue
            # the directly returned call: does pred hold for `call == want` itself?
            t = cb.blocks[bi]['t']
            node = facts.origin.call_node(cb, t, bi, 0, None) if hasattr(facts.origin, 'call_node') else None
            if node is not None and pred(('bool', subst(node, argmap), want)):
                continue
            inner = _closure_call(facts, subst(node, argmap)) if node is not None and _NEST[0] < 2 else None
            if inner is not None:
                _NEST[0] += 1
                try:
                    okn = _returns_only_via(facts, inner[0], inner[1], want, pred)
                finally:
                    _NEST[0] -= 1
                if okn:
                    continue
            return False
        if st in seen:
            return False
    return True


def must_pass(body, sites, edges, start=0):
    """is every site block unreachable once `edges` are removed? returns list of (site, witness path)"""
    seen = body.reachable(cut_edges=set(edges), start=start)
    bad = []
    for s in sites:
        if s in seen:
            bad.append((s, body.path_to(seen, s)))
    return bad


def simplify(node, _memo=None):
    """drop 'after' (possibly-modified-by-call) markers and collapse phis whose alternatives become
    identical; transparent wrappers (ref/deref/named) are removed.  Used by value-shape rules, which
    compare *which expression* is stored, not whether a callee may have changed a field in between."""
    if _memo is None:
        _memo = {}
    if not isinstance(node, tuple) or not node:
        return node
    k = id(node)
    if k in _memo:
        return _memo[k]
    t = node[0]
    if t in ('after',):
        r = simplify(node[1], _memo)
    elif t in ('ref', 'deref'):
        r = simplify(node[1], _memo)
    elif t == 'named':
        r = simplify(node[2], _memo)
    elif t == 'phi':
        al = []
        for a in node[1]:
            s = simplify(a, _memo)
            if s[0] == 'phi':
                for x in s[1]:
                    if x not in al:
                        al.append(x)
            elif s not in al:
                al.append(s)
        r = al[0] if len(al) == 1 else ('phi', tuple(al))
    elif t == 'bin':
        r = ('bin', node[1], simplify(node[2], _memo), simplify(node[3], _memo))
    elif t == 'un':
        r = ('un', node[1], simplify(node[2], _memo))
    elif t == 'cast':
        r = ('cast', simplify(node[1], _memo), node[2])
    elif t in ('discr', 'len'):
        r = (t, simplify(node[1], _memo))
    elif t == 'call':
        r = ('call', node[1], tuple(simplify(a, _memo) for a in node[2]))
    elif t == 'callv':
        r = ('callv', simplify(node[1], _memo), tuple(simplify(a, _memo) for a in node[2]))
    elif t == 'agg':
        r = (node[0], node[1], tuple(simplify(a, _memo) for a in node[2])) + tuple(node[3:])
    elif t == 'proj':
        inner = simplify(node[1], _memo)
        if inner[0] == 'field':
            r = ('field', inner[1], tuple(inner[2]) + tuple(node[2]))
        elif inner[0] == 'phi':
            r = simplify(('phi', tuple(('proj', x, node[2]) for x in inner[1])), _memo)
        else:
            r = ('proj', inner, node[2])
    else:
        r = node
    _memo[k] = r
    return r
