"""Facts extraction: run the smolfacts driver over the *current working tree* of the repository
(cargo +nightly check with RUSTC_WORKSPACE_WRAPPER) and cache the result keyed by a hash of every
input file and of the driver binary."""
import fcntl, glob, hashlib, json, os, shutil, subprocess, sys, time

VERIF = os.path.dirname(os.path.dirname(os.path.abspath(__file__)))
CACHE = os.environ.get('VERIF_CACHE', os.path.join(VERIF, '.cache'))
DRIVER = os.path.join(VERIF, 'smolfacts', 'target', 'release', 'smolfacts')

CFGS = {
    # analysis configuration A: the default feature set plus both congestion controllers
    'A': dict(args=['--features', 'socket-tcp-reno,socket-tcp-cubic']),
    # B: everything CI enables incl. RPL / hop-by-hop / routing headers / ipv6 fragmentation-less
    'B': dict(args=['--features', 'socket-tcp-reno,socket-tcp-cubic,proto-rpl,proto-ipv6-hbh,proto-ipv6-routing,proto-ipsec']),
    # C: a small IPv4-only ethernet build
    'C': dict(args=['--no-default-features', '--features',
                    'std,log,medium-ethernet,proto-ipv4,socket-udp,socket-tcp,socket-dns,socket-icmp,socket-raw']),
}


def sha_file(p, h):
    with open(p, 'rb') as f:
        while True:
            b = f.read(1 << 20)
            if not b:
                break
            h.update(b)


def tree_key(repo, cfg):
    h = hashlib.sha256()
    files = []
    for root, dirs, fs in os.walk(os.path.join(repo, 'src')):
        dirs.sort()
        for f in sorted(fs):
            files.append(os.path.join(root, f))
    for f in ('build.rs', 'Cargo.toml', 'Cargo.lock', 'gen_config.py'):
        p = os.path.join(repo, f)
        if os.path.exists(p):
            files.append(p)
    for p in files:
        h.update(os.path.relpath(p, repo).encode())
        h.update(b'\0')
        sha_file(p, h)
        h.update(b'\0')
    h.update(cfg.encode())
    h.update(json.dumps(CFGS[cfg], sort_keys=True).encode())
    sha_file(DRIVER, h)
    return h.hexdigest()[:20]


def sysroot_lib():
    out = subprocess.run(['rustc', '+nightly', '--print', 'sysroot'], capture_output=True, text=True, check=True)
    return os.path.join(out.stdout.strip(), 'lib')


def facts_path(repo='/repo', cfg='A', quiet=False):
    """return path of facts JSON for the current tree, extracting if needed"""
    if not os.path.exists(DRIVER):
        raise SystemExit(f"smolfacts driver not built ({DRIVER}); run MANIFEST setup_cmd")
    os.makedirs(CACHE, exist_ok=True)
    key = tree_key(repo, cfg)
    out = os.path.join(CACHE, f'facts-{cfg}-{key}.json')
    if os.path.exists(out) and os.path.getsize(out) > 1000:
        return out
    lock = open(os.path.join(CACHE, f'lock-{cfg}'), 'w')
    fcntl.flock(lock, fcntl.LOCK_EX)
    try:
        if os.path.exists(out) and os.path.getsize(out) > 1000:
            return out
        target = os.path.join(CACHE, f'target-{cfg}')
        # make sure cargo really re-runs the wrapper on the workspace member
        for d in glob.glob(os.path.join(target, 'debug', '.fingerprint', 'smoltcp-*')):
            shutil.rmtree(d, ignore_errors=True)
        tmp = out + f'.tmp{os.getpid()}'
        env = dict(os.environ)
        env.update({
            'LD_LIBRARY_PATH': sysroot_lib() + ':' + env.get('LD_LIBRARY_PATH', ''),
            'RUSTFLAGS': '-Zmir-opt-level=0 -Awarnings',
            'RUSTC_WORKSPACE_WRAPPER': DRIVER,
            'CARGO_TARGET_DIR': target,
            'CARGO_NET_OFFLINE': 'true',
            'SMOLFACTS_OUT': tmp,
            'SMOLFACTS_CRATE': 'smoltcp',
            'CARGO_INCREMENTAL': '0',
        })
        env.pop('RUSTC_WRAPPER', None)
        t0 = time.time()
        cmd = ['cargo', '+nightly', 'check', '--offline', '--lib', '-j', '16'] + CFGS[cfg]['args']
        r = subprocess.run(cmd, cwd=repo, env=env, capture_output=True, text=True)
        if r.returncode != 0 or not os.path.exists(tmp):
            sys.stderr.write(r.stderr[-6000:])
            raise SystemExit(f"facts extraction failed for cfg {cfg} (exit {r.returncode}); the tree does not build")
        os.replace(tmp, out)
        if not quiet:
            sys.stderr.write(f"[extract] cfg {cfg} key {key} {time.time()-t0:.1f}s -> {out}\n")
        # prune old facts of the same cfg (keep 6 newest)
        olds = sorted(glob.glob(os.path.join(CACHE, f'facts-{cfg}-*.json')), key=os.path.getmtime)
        for p in olds[:-6]:
            try:
                os.remove(p)
            except OSError:
                pass
        return out
    finally:
        fcntl.flock(lock, fcntl.LOCK_UN)
        lock.close()


if __name__ == '__main__':
    repo = sys.argv[1] if len(sys.argv) > 1 else '/repo'
    cfg = sys.argv[2] if len(sys.argv) > 2 else 'A'
    print(facts_path(repo, cfg))
