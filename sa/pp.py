"""Pretty-printer for smolfacts MIR JSON (debugging / reports)."""
import json, sys

def pplace(b, p):
    l, projs = p
    nm = b['locals'][l]['name']
    s = f"_{l}" + (f"«{nm}»" if nm else "")
    for pr in projs:
        if pr == '*': s = f"(*{s})"
        elif pr == '?': s += ".?"
        elif pr[0] == 'f': s += f".{pr[2]}"
        elif pr[0] == 'i': s += f"[_{pr[1]}]"
        elif pr[0] == 'ci': s += f"[{'-' if pr[3] else ''}{pr[1]}]"
        elif pr[0] == 'sub': s += f"[{pr[1]}..{'-' if pr[3] else ''}{pr[2]}]"
        elif pr[0] == 'dc': s = f"({s} as {pr[1]})"
    return s

def pconst(v):
    if isinstance(v, dict):
        if 'fn' in v:
            r = v.get('res')
            return f"fn {v['fn']}" + (f" => {r}" if r and r != v['fn'] else "")
        if 'named' in v: return f"{v['named']}={pconst(v['v'])}"
        if 'adt' in v:
            return f"{v['adt']}::{v['variant']}(" + ",".join(pconst(x) for x in v['fields']) + ")"
        if 'promoted' in v: return f"promoted[{v['promoted']}]"
        return json.dumps(v)
    return json.dumps(v)

def pop(b, o):
    if o[0] in ('c', 'm'):
        return ("move " if o[0] == 'm' else "") + pplace(b, o[1])
    return f"const {pconst(o[2])}"

def prv(b, rv):
    k = rv[0]
    if k == 'use': return pop(b, rv[1])
    if k == 'ref': return ("&mut " if rv[1] == 'mut' else "&") + pplace(b, rv[2])
    if k == 'rawptr': return "&raw " + pplace(b, rv[2])
    if k == 'bin': return f"{rv[1]}({pop(b, rv[2])}, {pop(b, rv[3])})"
    if k == 'un': return f"{rv[1]}({pop(b, rv[2])})"
    if k == 'cast': return f"{pop(b, rv[2])} as {rv[3]} ({rv[1]})"
    if k == 'discr': return f"discriminant({pplace(b, rv[1])})"
    if k == 'agg':
        kd = rv[1]
        ops = [pop(b, o) for o in rv[2]]
        if kd['k'] == 'adt':
            return f"{kd['adt']}::{kd['variant']} {{" + ", ".join(f"{n}: {o}" for n, o in zip(kd['fnames'], ops)) + "}"
        if kd['k'] == 'closure': return f"closure {kd['def']} [" + ", ".join(ops) + "]"
        return kd['k'] + "(" + ", ".join(ops) + ")"
    if k == 'repeat': return f"[{pop(b, rv[1])}; {rv[2]}]"
    return json.dumps(rv)

def pbody(key, body, out=sys.stdout, cleanup=False):
    b = body['mir'] if 'mir' in body else body
    print(f"fn {key}  [{body.get('file')}:{body.get('line')}] nargs={b['nargs']}", file=out)
    for i, l in enumerate(b['locals']):
        print(f"  let _{i}: {l['ty']}" + (f"  // {l['name']}" if l['name'] else ""), file=out)
    for i, bl in enumerate(b['blocks']):
        if bl['cl'] and not cleanup: continue
        print(f" bb{i}:", file=out)
        for s in bl['s']:
            if s[0] == 'a': print(f"    {pplace(b, s[1])} = {prv(b, s[2])}   @{s[3]}", file=out)
            elif s[0] == 'sd': print(f"    discriminant({pplace(b, s[1])}) = {s[2]}  @{s[3]}", file=out)
            else: print(f"    {s}", file=out)
        t = bl['t']
        if t[0] == 'call':
            c = t[1]
            cs = pconst(c) if 'local' not in c else "(" + pplace(b, c['local']) + ")"
            print(f"    {pplace(b, t[3])} = {cs}(" + ", ".join(pop(b, o) for o in t[2]) + f") -> bb{t[4]}  @{t[5]}", file=out)
        elif t[0] == 'switch':
            print(f"    switch {pop(b, t[1])}: " + ", ".join(f"{v}->bb{x}" for v, x in t[2]) + f", else->bb{t[3]}", file=out)
        elif t[0] == 'assert':
            print(f"    assert({pop(b, t[1])} == {t[2]}) {t[3]['k']} -> bb{t[4]}  @{t[5]}", file=out)
        elif t[0] == 'drop': print(f"    drop({pplace(b, t[1])}) -> bb{t[2]}", file=out)
        elif t[0] == 'goto': print(f"    goto bb{t[1]}", file=out)
        else: print(f"    {t[0]}", file=out)
    for k, p in enumerate(b.get('promoted', [])):
        pbody(f"{key}::promoted[{k}]", {'mir': p}, out)

if __name__ == '__main__':
    F = json.load(open(sys.argv[1]))
    pat = sys.argv[2]
    for k, body in F['bodies'].items():
        if pat in k:
            pbody(k, body)
