"""Rule registry, findings, evidence writer, known-findings handling, entry point."""
import hashlib, json, os, sys, time, traceback

VERIF = os.path.dirname(os.path.dirname(os.path.abspath(__file__)))
EVID = os.environ.get('VERIF_EVIDENCE_DIR') or os.path.join(VERIF, 'evidence')
KNOWN = os.path.join(VERIF, 'known_findings.json')

RULES = []   # list of dict(id, props, fn, doc, floor, cfgs, tier)


def rule(rid, props, floor=1, cfgs=('A',), tier='quick', clause=''):
    def deco(fn):
        RULES.append(dict(id=rid, props=list(props), fn=fn, doc=(fn.__doc__ or '').strip(), floor=floor,
                          cfgs=cfgs, tier=tier, clause=clause))
        return fn
    return deco


class AnchorMissing(Exception):
    pass


class RuleCtx:
    """per rule-run context handed to the rule function"""

    def __init__(self, run, rule, facts, cfg):
        self.run = run
        self.rule = rule
        self.F = facts
        self.cfg = cfg
        self.obligations = 0
        self.discharged = 0
        self.sites = set()
        self.samples = []
        self.findings = []
        self.notes = []

    # anchors -----------------------------------------------------------
    def body(self, key):
        b = self.F.body(key)
        if b is None:
            raise AnchorMissing(f"function `{key}` not found in cfg {self.cfg}")
        return b

    def method(self, adt, name, trait=None):
        b = self.F.method(adt, name, trait)
        if b is None:
            raise AnchorMissing(f"method `{name}` of `{adt}` not found (or ambiguous) in cfg {self.cfg}")
        return b

    def need(self, cond, what):
        if not cond:
            raise AnchorMissing(what)

    # obligations -------------------------------------------------------
    def ok(self, site, sample=None):
        """an obligation examined and discharged. site: hashable stable description"""
        self.obligations += 1
        self.discharged += 1
        self.sites.add(site)
        if sample is not None and len(self.samples) < 4:
            self.samples.append(sample)

    def bad(self, key, msg, body=None, bb=None, line=None, path=None, extra=None):
        """a violated obligation. key must be stable (no line numbers)."""
        self.obligations += 1
        self.sites.add(('bad', key))
        file = body.file if body is not None else None
        if line is None and body is not None and bb is not None:
            line = body.block_line(bb)
        f = dict(rule=self.rule['id'], key=f"{self.rule['id']}|{key}", msg=msg, file=file, line=line,
                 fn=(body.key if body is not None else None), cfg=self.cfg)
        if path is not None and body is not None:
            f['witness_lines'] = body.path_lines(path)[-25:]
            f['witness_blocks'] = path[-40:]
        if extra:
            f['extra'] = extra
        self.findings.append(f)

    def note(self, s):
        self.notes.append(s)


class Run:
    def __init__(self, prop, tier, facts_by_cfg, seed=0):
        self.prop = prop
        self.tier = tier
        self.facts_by_cfg = facts_by_cfg
        self.seed = seed
        self.results = []
        self.t0 = time.time()

    def execute(self):
        for r in RULES:
            if self.prop not in r['props']:
                continue
            if r['tier'] == 'thorough' and self.tier != 'thorough':
                continue
            cfgs = list(r['cfgs'])
            if self.tier == 'thorough':
                cfgs += [c for c in sorted(self.facts_by_cfg) if c not in cfgs]
            for cfg in cfgs:
                if cfg not in self.facts_by_cfg:
                    continue
                # the floors and anchors were confirmed on the rule's own configurations; other feature
                # configurations (thorough tier) may legitimately lack an anchor (feature compiled out): there
                # the rule reports what it can decide and records, instead of failing closed, what it cannot
                secondary = cfg not in r['cfgs']
                F = self.facts_by_cfg[cfg]
                ctx = RuleCtx(self, r, F, cfg)
                t = time.time()
                try:
                    r['fn'](ctx)
                    if ctx.obligations < r['floor'] and not ctx.findings:
                        if secondary:
                            ctx.note(f"cfg {cfg}: {ctx.obligations} obligations (< floor {r['floor']} confirmed on cfg {r['cfgs'][0]})")
                        else:
                            ctx.bad(f"FLOOR", f"rule matched {ctx.obligations} obligations, below the confirmed floor "
                                    f"{r['floor']} (anchors moved or rule went vacuous) - cannot decide, failing closed")
                except AnchorMissing as e:
                    if secondary:
                        ctx.findings = [f for f in ctx.findings]
                        ctx.note(f"cfg {cfg}: not decided here - {e}")
                    else:
                        ctx.bad("ANCHOR-MISSING", f"ANCHOR-MISSING: {e} - cannot decide, failing closed")
                except Exception as e:
                    tb = traceback.format_exc()
                    if secondary:
                        ctx.note(f"cfg {cfg}: rule not applicable to this configuration's code shape ({e!r})")
                    else:
                        ctx.bad("INTERNAL", f"internal error in rule: {e!r}\n{tb[-1500:]}")
                ctx.wall = time.time() - t
                self.results.append(ctx)


def load_known():
    if not os.path.exists(KNOWN):
        return dict(known=[], fixed=[])
    with open(KNOWN) as f:
        return json.load(f)


def finish(run, extra_cov=None, explanation='', assumptions=None, not_decided=None):
    """print verdict lines, write evidence + replay files, return exit code"""
    prop = run.prop
    known = load_known()
    # a finding is identified by its exact key (rule | function | site signature); rules shared between
    # properties report the same key under each of them
    known_keys = {k['key']: k for k in known.get('known', [])}
    os.makedirs(os.path.join(EVID, 'replay'), exist_ok=True)
    import glob
    for old_rp in glob.glob(os.path.join(EVID, 'replay', f"{prop}-*.json")):
        try:
            os.remove(old_rp)
        except OSError:
            pass
    viol = []
    kf = []
    for ctx in run.results:
        for f in ctx.findings:
            if f['key'] in known_keys:
                kf.append((f, known_keys[f['key']]))
            else:
                viol.append(f)
    lines = []
    seen_k = set()
    for f, k in kf:
        if k['key'] in seen_k:
            continue
        seen_k.add(k['key'])
        lines.append(f"KNOWN-FINDING: property={prop} {k['what']} [{k['key']}]")
    for f in viol:
        h = hashlib.sha256(f['key'].encode()).hexdigest()[:10]
        rp = os.path.join(EVID, 'replay', f"{prop}-{h}.json")
        with open(rp, 'w') as fh:
            json.dump(dict(property=prop, finding=f, tier=run.tier), fh, indent=1, sort_keys=True)
        where = f"{f.get('file')}:{f.get('line')}" if f.get('file') else ''
        lines.append(f"FINDING rule={f['rule']} at {where} fn={f.get('fn')} :: {f['msg']}")
        if f.get('witness_lines'):
            lines.append(f"   witness path (source lines): {f['witness_lines']}")
        lines.append(f"VIOLATION property={prop} replay={rp}")
    obligations = sum(c.obligations for c in run.results)
    discharged = sum(c.discharged for c in run.results)
    sites = set()
    for c in run.results:
        for s in c.sites:
            sites.add((c.rule['id'], s))
    samples = []
    for c in run.results:
        for s in c.samples[:2]:
            samples.append(dict(rule=c.rule['id'], obligation=s))
    F = run.facts_by_cfg.get('A') or next(iter(run.facts_by_cfg.values()))
    ncalls = sum(1 for b in F.bodies.values() for _ in b.calls())
    cov = dict(
        explanation=explanation,
        obligations=obligations,
        discharged=discharged,
        evaluations=max(obligations, 1),
        distinct_nontrivial=len(sites),
        rule="an obligation is one (rule instance, program site) pair decided on the MIR of the current tree; "
             "distinct_nontrivial counts distinct (rule, site-signature) pairs at which the rule had something to "
             "prove (sites are keyed by function path + construct, never by line)",
        samples=samples[:24] or [dict(note='no obligations')],
        checker_cmd=f"./check {prop} --tier {run.tier}",
        trusted_base=["rustc nightly MIR construction, type checking and Instance resolution",
                      "smolfacts driver serialisation", "sa/ Python analysis core"],
        rules=[dict(id=c.rule['id'], cfg=c.cfg, clause=c.rule['clause'] or c.rule['doc'].split('\n')[0],
                    obligations=c.obligations, discharged=c.discharged, floor=c.rule['floor'],
                    findings=len(c.findings), wall_s=round(getattr(c, 'wall', 0), 3), notes=c.notes[:12])
               for c in run.results],
        analysed=dict(cfgs=sorted(run.facts_by_cfg), bodies=len(F.bodies), call_sites=ncalls,
                      adts=len(F.adts), impls=len(F.impls)),
        known_findings=[k['key'] for _, k in kf],
        not_decided=not_decided or [],
        exhaustive=False,
    )
    if extra_cov:
        cov.update(extra_cov)
    ev = dict(property_id=prop, tier=run.tier, seed=run.seed, level='other', coverage=cov,
              assumptions=assumptions or [], wall_s=round(time.time() - run.t0, 3), violations=len(viol))
    os.makedirs(EVID, exist_ok=True)
    with open(os.path.join(EVID, f"{prop}.json"), 'w') as fh:
        json.dump(ev, fh, indent=1, sort_keys=True, default=str)
    for l in lines:
        print(l)
    print(f"[{prop}] tier={run.tier} rules={len(run.results)} obligations={obligations} discharged={discharged} "
          f"violations={len(viol)} known={len(seen_k)} wall={time.time()-run.t0:.1f}s")
    return 1 if viol else 0
