"""Natural loops and structural progress witnesses (termination clauses of C07/C19/C03)."""
from .core import *
from .lib import *
from .wirelib import *

STD_ITER_TYPES = ('std::slice::Iter<', 'std::slice::IterMut<', 'std::ops::Range<', 'std::array::IntoIter<',
                  'std::iter::Enumerate<', 'std::iter::Zip<', 'std::iter::Take<', 'std::iter::Rev<',
                  'std::slice::Chunks<', 'std::slice::ChunksExact<', 'std::iter::Map<', 'std::iter::Filter<',
                  'std::iter::Skip<', 'std::iter::Cloned<', 'std::iter::Copied<', 'std::ops::RangeInclusive<',
                  'std::iter::StepBy<', 'std::slice::ChunksMut<', 'std::iter::FilterMap<', 'std::iter::Peekable<',
                  'std::str::', 'std::iter::FlatMap<', 'std::iter::Chain<', 'heapless::', 'std::collections::',
                  'managed::', 'std::option::', 'std::slice::Windows<', 'std::slice::RChunks', 'std::iter::Flatten<', 'std::slice::Split<',
                  'std::slice::SplitN<', 'std::str::Split<')


def back_edges(b):
    color = {}
    out = []
    stack = [(0, iter(b.succ[0]))]
    color[0] = 1
    while stack:
        n, it = stack[-1]
        try:
            m = next(it)
            if b.blocks[m]['cl']:
                continue
            c = color.get(m, 0)
            if c == 0:
                color[m] = 1
                stack.append((m, iter(b.succ[m])))
            elif c == 1:
                out.append((n, m))
        except StopIteration:
            color[n] = 2
            stack.pop()
    return out


def loop_nodes(b, u, h):
    """natural loop of back edge u->h: h plus all nodes that reach u without passing h"""
    nodes = {h, u}
    st = [u]
    while st:
        n = st.pop()
        if n == h:
            continue
        for p in b.pred[n]:
            if p not in nodes and not b.blocks[p]['cl']:
                nodes.add(p)
                st.append(p)
    return nodes


def loops(b):
    """list of (header, set(nodes), [back edge sources]) merged per header"""
    by = {}
    for (u, h) in back_edges(b):
        ns = loop_nodes(b, u, h)
        if h in by:
            by[h][0].update(ns)
            by[h][1].append(u)
        else:
            by[h] = [set(ns), [u]]
    return [(h, v[0], v[1]) for h, v in sorted(by.items())]


def iterator_driven(F, b, h, nodes):
    """is the loop driven by Iterator::next() of a std iterator (header or its immediate successor
    calls next and the loop exits on None)? returns (bool, iterator type string)"""
    for x in sorted(nodes):
        t = b.blocks[x]['t']
        if t[0] != 'call':
            continue
        c = t[1]
        syn = c.get('fn') if isinstance(c, dict) else None
        if syn is None:
            continue
        if syn.endswith('Iterator::next') or (b.callee_name(c) or '').endswith('::next'):
            # receiver type
            a0 = t[2][0] if t[2] else None
            ty = ''
            if a0 is not None and is_place_op(a0):
                ty = b.locals[a0[1][0]]['ty']
                tgt = b.ref_target(a0[1][0])
                if tgt is not None and tgt[0][0] == 'l' and not tgt[1]:
                    ty = b.locals[tgt[0][1]]['ty']
            ga0 = (c.get('ga') or [''])[0]
            tys = ga0 or ty
            tys2 = tys.replace('&mut ', '').replace('&', '')
            return True, tys2
    return False, ''


def _same_place_value(F, b, node, np_):
    """does origin node denote (a reborrow of) the current value of place np_ ?"""
    n = strip(node)
    root, path = np_
    if root[0] == 'l':
        # a local: its value origin would have been resolved; compare with entry leaf forms
        return False
    if n[0] == 'field' and n[1] == (('arg', root[1]) if root[0] == 'd' else None):
        return tuple(n[2]) == tuple(path)
    return False


def _pointee_of(lhs):
    """normalised place denoting the slice the cursor place `lhs` points to"""
    root, path = lhs
    if root[0] == 'l' and not path:
        return (('d', root[1]), ())
    return (root, tuple(path) + (('*',),))


def _src_local(rv):
    """local X if rv is `&(*X)` / `&mut (*X)` / copy X / move X"""
    if rv[0] == 'ref' and rv[2][1] == ['*']:
        return rv[2][0]
    if rv[0] == 'use' and is_place_op(rv[1]) and rv[1][1][1] == []:
        return rv[1][1][0]
    return None


def _single_def(b, l):
    defs = b._all_defs().get(l, [])
    return defs[0] if len(defs) == 1 and defs[0][3] == [] else None


def _chase(b, l, depth=0):
    """follow copies/reborrows of single-def temporaries to the defining call / binary op"""
    d = _single_def(b, l)
    if d is None or depth > 6:
        return None
    if d[2] == 'a':
        x = _src_local(d[4])
        if x is not None:
            return _chase(b, x, depth + 1)
    return d


def progress_blocks(F, b, h, nodes, strict_fns=(), adt=None):
    """blocks of the loop that contain a structural progress step; returns (set(blocks), descriptions)"""
    og = F.origin
    out = set()
    desc = []
    for x in sorted(nodes):
        bl = b.blocks[x]
        for si, s in enumerate(bl['s']):
            if s[0] != 'a':
                continue
            lhs = b.norm(s[1])
            rv = s[2]
            # --- cursor slice forms -------------------------------------------------------
            X = _src_local(rv)
            d = _chase(b, X) if X is not None else None
            if d is not None and d[2] == 'call':
                t = d[4]
                c = t[1]
                syn = c.get('fn') if isinstance(c, dict) else None
                res = b.callee_name(c) if isinstance(c, dict) and 'fn' in c else None
                if syn in INDEX_CALLS and len(t[2]) == 2 and is_place_op(t[2][0]):
                    base = t[2][0][1]
                    tgt = b.ref_target(base[0]) if base[1] == [] else b.norm(base)
                    rng = og.operand(b, t[2][1], d[0], len(b.blocks[d[0]]['s']))
                    rb = range_bounds(F, rng)
                    if tgt == _pointee_of(lhs) and rb and rb[0] == 'RangeFrom':
                        lo, hi = interval(expand(F, rb[1], adt or ''), adt)
                        if lo >= 1:
                            out.add(x)
                            desc.append(f"L{bl['s'][si][3]}: cursor = &cursor[{show(rb[1])[:40]}..]  (advance >= {lo})")
                            continue
                    if rb and rb[0] == 'RangeTo' and tgt == _pointee_of(lhs):
                        # shrinking prefix `p = &p[..n]` : progress iff guarded by len(p) > n
                        if _prefix_guarded(F, b, x, tgt, rb[2]):
                            out.add(x)
                            desc.append(f"L{bl['s'][si][3]}: window = &window[..{show(rb[2])[:30]}]  (behind len(window) > n)")
                            continue
            # rest component of a strictly consuming parser (possibly through `?`): progress only when it is stored into the
            # variable the parser is fed from (`let (next, x) = parse(cur)?` alone does not advance `cur`)
            if X is not None or rv[0] == 'use':
                o = og.rvalue(b, rv, x, si, 0, None)
                hit = [l[2:] for l in leafs(o) if l.startswith('C:') and l[2:] in strict_fns]
                if hit and _is_slice_ty(b, s[1]) and (s[1][1] or s[1][0] in _cursor_locals(b, nodes, strict_fns)):
                    out.add(x)
                    desc.append(f"L{bl['s'][si][3]}: cursor = rest returned by {hit[0].split('::')[-2]}::{hit[0].split('::')[-1]}")
                    continue
            # --- integer counter forms ----------------------------------------------------
            add = None
            if rv[0] == 'bin' and rv[1] in ('Add', 'AddUnchecked'):
                add = (rv[2], rv[3])
            elif rv[0] == 'use' and is_place_op(rv[1]) and rv[1][1][1] and rv[1][1][1][0][0] == 'f' and rv[1][1][1][0][2] == '0':
                dd = _single_def(b, rv[1][1][0])
                if dd is not None and dd[2] == 'a' and dd[4][0] == 'bin' and dd[4][1] == 'AddWithOverflow':
                    add = (dd[4][2], dd[4][3])
            if add is not None:
                for a_, b_ in (add, add[::-1]):
                    if is_place_op(a_) and b.norm(a_[1]) == lhs:
                        o2 = og.operand(b, b_, x, si)
                        lo, hi = interval(expand(F, o2, adt or ''), adt)
                        if lo >= 1:
                            out.add(x)
                            desc.append(f"L{bl['s'][si][3]}: counter += {show(o2)[:40]}  (>= {lo})")
                        elif _nonzero_guarded(F, b, x, o2):
                            out.add(x)
                            desc.append(f"L{bl['s'][si][3]}: counter += {show(o2)[:40]}  (behind a != 0 guard)")
                        break
    return out, desc


def _is_slice_ty(b, place):
    ty = b.locals[place[0]]['ty']
    return '[u8]' in ty or 'closure' in ty


def _prefix_guarded(F, b, site, tgt, n_node):
    """site only reachable via an edge on which len(window) > n holds"""
    ns = strip(n_node)

    def pred(f):
        if f[0] != 'rel':
            return False
        _, op, a, c = f
        for p, q, o in ((a, c, op), (c, a, FLIP[op])):
            ps = strip(p)
            if (ps[0] == 'len' or (ps[0] == 'call' and ps[1].endswith('<impl [T]>::len'))) and strip(q) == ns and o == 'Gt':
                return True
        return False
    g = guard_edges(F, b, pred)
    return bool(g) and not cut_sites(b, [site], g)


def _placeish(n):
    n = strip(n)
    if n[0] == 'field':
        return (n[1], tuple(e for e in n[2] if e[0] == 'f'))
    return n


def _nonzero_guarded(F, b, site, x):
    """site is only reachable through an edge on which x != 0 / x > 0 holds"""
    xs = strip(x)

    def pred(f):
        if f[0] != 'rel':
            return False
        _, op, a, c = f
        for p, q, o in ((a, c, op), (c, a, FLIP[op])):
            if strip(p) == xs and const_of(q) == 0 and o in ('Ne', 'Gt'):
                return True
            if strip(p) == xs and const_of(q) is not None and const_of(q) >= 1 and o in ('Ge', 'Gt', 'Eq'):
                return True
        return False
    g = guard_edges(F, b, pred)
    return bool(g) and not cut_sites(b, [site], g)


def cycle_without(b, h, nodes, srcs, removed):
    """is there a cycle through header h inside `nodes` that avoids all `removed` blocks? returns a
    witness path (list of blocks) or None"""
    if h in removed:
        return None
    seen = {h: None}
    st = [h]
    while st:
        n = st.pop()
        for m in b.succ[n]:
            if m not in nodes or m in removed or b.blocks[m]['cl']:
                continue
            if m == h:
                p = [n]
                while seen[p[-1]] is not None:
                    p.append(seen[p[-1]])
                return list(reversed(p)) + [h]
            if m not in seen:
                seen[m] = n
                st.append(m)
    return None


def _ok_tuple_rest(F, b):
    """for a function returning Result<(&[u8], X)>: list of (ok block, origin of the rest component)"""
    out = []
    og = F.origin
    for bi, bl in enumerate(b.blocks):
        if bl['cl']:
            continue
        for si, s in enumerate(bl['s']):
            if s[0] == 'a' and s[1] == [0, []] and s[2][0] == 'agg' and s[2][1]['k'] == 'adt' \
                    and s[2][1]['adt'] == 'std::result::Result' and s[2][1]['variant'] == 'Ok':
                o = og.operand(b, s[2][2][0], bi, si)
                n = strip(o)
                if n[0] == 'agg' and n[1] == 'tuple' and n[2]:
                    out.append((bi, si, n[2][0]))
    return out


def strict_parsers(F, prefix='src/wire/'):
    """functions returning Result<(&[u8], _)> whose returned rest slice is `&input[n..]` with n >= 1 on
    every Ok path (n constant >= 1, or n equal to the end of a `input.get(a..n)?` / `input.get(..n)?`
    range with the value proven non-empty by a preceding consumption of >= 1 byte).  name -> witness"""
    res = {}
    for k, b in F.bodies.items():
        if not (b.file or '').startswith(prefix) or b.kind not in ('fn', 'method'):
            continue
        ty = b.locals[0]['ty']
        if not (ty.startswith('std::result::Result<(&') and '[u8]' in ty.split(',')[0]):
            continue
        rests = _ok_tuple_rest(F, b)
        if not rests:
            continue
        ok = True
        wit = []
        for bi, si, rest in rests:
            w = _rest_strict(F, b, bi, si, rest)
            if w is None:
                ok = False
                break
            wit.append(w)
        if ok:
            res[k] = wit
    return res


def _rest_strict(F, b, bi, si, rest, depth=0):
    n = strip(rest)
    if n[0] == 'phi':
        ws = [_rest_strict(F, b, bi, si, x, depth + 1) for x in n[1]]
        return None if any(w is None for w in ws) else ' | '.join(ws)
    if n[0] == 'call' and 'Index<I> for [T]>::index' in n[1] and len(n[2]) == 2:
        rb = range_bounds(F, n[2][1])
        if rb is None or rb[0] != 'RangeFrom':
            return None
        base = strip(n[2][0])
        start = rb[1]
        # nested: &(&input[1..])[len..]  - any strictly advancing inner step suffices
        inner = _rest_strict(F, b, bi, si, base, depth + 1) if base[0] in ('call', 'phi') else None
        if inner is not None:
            return f"{inner} then [{show(start)[:20]}..]"
        alts = strip(start)
        alts = list(alts[1]) if alts[0] == 'phi' else [alts]
        ws = []
        for a in alts:
            lo, hi = interval(expand(F, a, ''), None)
            if lo >= 1:
                ws.append(f"[{lo}..]")
                continue
            g = _get_guard_for(F, b, a)
            if g is None:
                return None
            ws.append(g)
        return ' | '.join(ws)
    return None


def _get_guard_for(F, b, x):
    """x is the end of a `slice.get(a..x)` call with constant a >= 1 whose None outcome returns Err (`?`),
    and with that call's Some edge removed x is no longer a possible value of the rest start at the Ok
    return"""
    og = F.origin
    xs = strip(x)
    for bi, c, args, dest, tgt, ln in b.calls():
        nm = b.callee_name(c) or ''
        if not nm.endswith('<impl [T]>::get') or len(args) != 2:
            continue
        rng = og.operand(b, args[1], bi, len(b.blocks[bi]['s']))
        rb = range_bounds(F, rng)
        if rb is None or rb[0] != 'Range':
            continue
        a = const_of(rb[1])
        if a is None or a < 1 or strip(rb[2]) != xs:
            continue
        # edges on which this get() is Some / Continue
        cut = set()
        for bj, bl in enumerate(b.blocks):
            if bl['cl'] or bl['t'][0] != 'switch':
                continue
            for tb, lab, f in cond_facts(F, b, bj):
                if f[0] == 'is' and f[2] in ('Some', 'Continue', 'Ok'):
                    ls = leafs(f[1])
                    if f"C:{nm}" in ls and leafs(rng) <= ls | {'K:2', 'K:1'}:
                        cut.add((bj, tb, lab))
        if not cut:
            continue
        rb2 = b.restricted(cut)
        still = False
        for (oi, osi, rest) in _ok_tuple_rest(F, rb2):
            n = strip(rest)
            if n[0] == 'call' and len(n[2]) == 2:
                r3 = range_bounds(F, n[2][1])
                if r3 and r3[1] is not None:
                    st = strip(r3[1])
                    alts = list(st[1]) if st[0] == 'phi' else [st]
                    if any(strip(al) == xs for al in alts):
                        still = True
        if not still:
            return f"[n..] with n = end of get({a}..n)? (n >= {a})"
    return None


def _cursor_locals(b, nodes, strict_fns):
    """user locals whose value is handed (as first argument, possibly through reborrows / copies) to a strictly consuming
    parser inside the loop"""
    key = ('_cursor_locals', id(b), tuple(sorted(nodes)))
    cache = b.__dict__.setdefault('_cl_cache', {})
    if key in cache:
        return cache[key]
    out = set()

    def root(l, depth=0):
        if depth > 6:
            return
        if b.locals[l].get('name'):
            out.add(l)
            return
        ds = [d for d in b._all_defs().get(l, []) if d[3] == []]
        for d in ds:
            if d[2] != 'a':
                continue
            rv = d[4]
            if rv[0] == 'ref':
                root(rv[2][0], depth + 1)
            elif rv[0] == 'use' and is_place_op(rv[1]):
                root(rv[1][1][0], depth + 1)
            elif rv[0] == 'cast' and is_place_op(rv[2]):
                root(rv[2][1][0], depth + 1)
    for x in nodes:
        t = b.blocks[x]['t']
        if t[0] == 'call' and t[2] and (b.callee_name(t[1]) or '') in strict_fns and is_place_op(t[2][0]):
            root(t[2][0][1][0])
    cache[key] = out
    return out
