"""Helpers for the wire-format rules: packet view types, buffer accesses of accessors (constant and
symbolic ranges), what `check_len` guarantees on its Ok return."""
import json
from .core import *
from .lib import *

INDEX_CALLS = ('std::ops::Index::index', 'std::ops::IndexMut::index_mut')


def wire_views(F):
    """ADT path -> check_len body, for every type with an inherent `check_len`"""
    out = {}
    for k, b in F.bodies.items():
        if k.endswith('::check_len') and b.kind == 'method' and b.meta.get('impl_trait') is None:
            adt = b.meta.get('impl_self')
            if adt and adt.startswith('wire::'):
                out[adt] = b
    return out


_FACTS = [None]


def subst(node, argmap):
    """substitute ('arg',k) / fields of arg k in an origin tree by the caller's nodes"""
    if not isinstance(node, tuple) or not node:
        return node
    k = node[0]
    if k == 'arg':
        return argmap.get(node[1], node)
    if k == 'field':
        rd = node[1]
        if rd[0] == 'arg' and rd[1] in argmap:
            base = strip(argmap[rd[1]])
            if base[0] == 'field':
                return ('field', base[1], tuple(base[2]) + tuple(node[2]))
            if node[2] and base[0] == 'agg' and str(base[1]).startswith('closure:'):
                # an upvar of a closure whose environment is known: resolve it through the proj branch below
                return subst(('proj', ('__done__', base), tuple(node[2])), argmap)
            return ('proj', base, tuple(node[2])) if node[2] else base
        return node
    if k == '__done__':
        return node[1]
    if k == 'proj':
        inner = subst(node[1], argmap)
        if inner[0] == 'agg' and node[2] and node[2][0][0] == 'f':
            names = inner[3] if len(inner) > 3 else None
            fn = node[2][0][1]
            idx = names.index(fn) if names and fn in names else (int(fn) if fn.isdigit() else None)
            if idx is None and str(inner[1]).startswith('closure:'):
                # an upvar read inside a closure body, projected out of the closure value built by the parent
                idx = upvar_index(None, inner[1][len('closure:'):], fn)
                if idx is None and len(inner[2]) == 1:
                    idx = 0
            if idx is not None and idx < len(inner[2]):
                r = inner[2][idx]
                rest = node[2][1:]
                rr = strip(r)
                if rest and str(inner[1]).startswith('closure:') and rr[0] == 'field':
                    # a captured reference: memory behind it is addressed like the parent's own place
                    return ('field', rr[1], tuple(rr[2]) + tuple(p_ for p_ in rest if p_ != ('*',)))
                return ('proj', r, rest) if rest else r
        return ('proj', inner, node[2])
    if k in ('bin',):
        return ('bin', node[1], subst(node[2], argmap), subst(node[3], argmap))
    if k == 'un':
        return ('un', node[1], subst(node[2], argmap))
    if k in ('cast',):
        return ('cast', subst(node[1], argmap), node[2])
    if k in ('discr', 'len', 'ref', 'deref'):
        return (k, subst(node[1], argmap))
    if k == 'call':
        return ('call', node[1], tuple(subst(a, argmap) for a in node[2]))
    if k == 'agg':
        return (node[0], node[1], tuple(subst(a, argmap) for a in node[2])) + tuple(node[3:])
    if k == 'phi':
        return ('phi', tuple(subst(a, argmap) for a in node[1]))
    if k == 'named':
        return node
    if k == 'after':
        return ('after', subst(node[1], argmap), node[2])
    return node


def ret_origin(F, body):
    """origin of the return value (phi over return blocks)"""
    outs = []
    for rb in body.return_blocks():
        outs.append(F.origin.place(body, [0, []], rb, len(body.blocks[rb]['s'])))
    if not outs:
        return ('opaque', 'noreturn')
    return outs[0] if len(outs) == 1 else ('phi', tuple(outs))


def inline_call(F, node, depth=0):
    """if node is a call of a small local function, return the callee's return origin with the
    arguments substituted (else None)"""
    if node[0] != 'call' or depth > 3:
        return None
    cb = F.bodies.get(node[1])
    if cb is None or len(cb.blocks) > 40:
        return None
    r = ret_origin(F, cb)
    argmap = {i + 1: a for i, a in enumerate(node[2])}
    return subst(r, argmap)


def inline_closures(F, node, depth=0):
    """replace calls of small local closures (`let f = |x| ..; f(a)`, resolved by the compiler to the closure body) by the
    closure's return origin with the arguments substituted; everything else is left as it is"""
    if not isinstance(node, tuple) or not node or depth > 3:
        return node
    k = node[0]
    if k == 'call':
        args = tuple(inline_closures(F, a, depth) for a in node[2])
        cb = F.bodies.get(node[1])
        if cb is not None and '{closure' in node[1].rsplit('::', 1)[-1] and len(args) == 2 and len(cb.blocks) <= 12:
            tup = strip(args[1])
            if tup[0] == 'agg' and tup[1] == 'tuple':
                argmap = {1: args[0]}
                for i, a in enumerate(tup[2]):
                    argmap[i + 2] = a
                return inline_closures(F, subst(ret_origin(F, cb), argmap), depth + 1)
        return ('call', node[1], args)
    if k == 'bin':
        return ('bin', node[1], inline_closures(F, node[2], depth), inline_closures(F, node[3], depth))
    if k == 'un':
        return ('un', node[1], inline_closures(F, node[2], depth))
    if k == 'cast':
        return ('cast', inline_closures(F, node[1], depth), node[2])
    if k == 'phi':
        return ('phi', tuple(inline_closures(F, a, depth) for a in node[1]))
    return node


def range_bounds(F, node, depth=0):
    """(kind, start, end) of a range-valued origin node; kind in Range/RangeFrom/RangeTo/RangeFull/
    RangeInclusive/RangeToInclusive; start/end are origin nodes or None"""
    n = strip(node)
    if n[0] == 'agg' and n[1].startswith('std::ops::Range'):
        kind = n[1].split('::')[2]
        ops = n[2]
        if kind == 'Range':
            return ('Range', ops[0], ops[1])
        if kind == 'RangeFrom':
            return ('RangeFrom', ops[0], None)
        if kind == 'RangeTo':
            return ('RangeTo', None, ops[0])
        if kind == 'RangeFull':
            return ('RangeFull', None, None)
        if kind == 'RangeToInclusive':
            return ('RangeToInclusive', None, ops[0])
        if kind == 'RangeInclusive':
            return ('RangeInclusive', ops[0], ops[1])
    if n[0] == 'variant' and n[1].startswith('std::ops::RangeFull'):
        return ('RangeFull', None, None)
    if n[0] == 'call':
        if n[1].endswith('RangeInclusive::<Idx>::new') and len(n[2]) == 2:
            return ('RangeInclusive', n[2][0], n[2][1])
        inl = inline_call(F, n, depth)
        if inl is not None and depth < 3:
            return range_bounds(F, inl, depth + 1)
    if n[0] == 'phi':
        rs = [range_bounds(F, x, depth + 1) for x in n[1]]
        if all(r is not None for r in rs) and len({r[0] for r in rs}) == 1:
            kind = rs[0][0]
            s = tuple(r[1] for r in rs)
            e = tuple(r[2] for r in rs)
            return (kind, ('phi', s) if s[0] is not None else None, ('phi', e) if e[0] is not None else None)
    return None


def const_of(node):
    """integer value of an origin node if it is a compile-time constant expression"""
    n = strip(node)
    if n[0] == 'cast':
        return const_of(n[1])
    if n[0] == 'const':
        try:
            v = json.loads(n[1])
            if isinstance(v, bool):
                return int(v)
            if isinstance(v, int):
                return v
        except Exception:
            return None
        return None
    if n[0] == 'bin' and n[1] in ('Add', 'Sub', 'Mul', 'Shl', 'Shr', 'Div', 'Rem', 'BitAnd', 'BitOr'):
        a, b = const_of(n[2]), const_of(n[3])
        if a is None or b is None:
            return None
        try:
            return {'Add': a + b, 'Sub': a - b, 'Mul': a * b, 'Shl': a << b, 'Shr': a >> b,
                    'Div': a // b if b else None, 'Rem': a % b if b else None, 'BitAnd': a & b, 'BitOr': a | b}[n[1]]
        except Exception:
            return None
    if n[0] == 'phi' and n[1]:
        vals = {const_of(a) for a in n[1]}
        if len(vals) == 1 and None not in vals:
            return vals.pop()
        return None
    if n[0] == 'proj' and strip(n[1])[0] == 'agg' and n[2] and n[2][0][0] == 'f':
        inner = strip(n[1])
        names = inner[3] if len(inner) > 3 else None
        fn = n[2][0][1]
        idx = names.index(fn) if names and fn in names else (int(fn) if fn.isdigit() else None)
        if idx is not None and idx < len(inner[2]) and len(n[2]) == 1:
            return const_of(inner[2][idx])
    return None


def is_buffer_root(node, view_adt):
    """is node the view's own byte buffer (self.buffer.as_ref() / as_mut() / deref)?"""
    n = node
    for _ in range(8):
        n = strip(n)
        if n[0] == 'call' and len(n[2]) >= 1 and (n[1].endswith('::as_ref') or n[1].endswith('::as_mut')
                                                  or n[1].endswith('::deref') or n[1].endswith('::deref_mut')
                                                  or n[1].endswith('::borrow') or n[1].endswith('::borrow_mut')):
            n = n[2][0]
            continue
        if n[0] == 'field':
            return any(e[0] == 'f' and e[1] == 'buffer' and e[2] == view_adt for e in n[2])
        if n[0] == 'phi':
            return all(is_buffer_root(x, view_adt) for x in n[1])
        if n[0] == 'after':
            n = n[1]
            continue
        return False
    return False


def slice_base(F, node, view_adt, depth=0):
    """resolve a slice-valued node to (is_view_buffer, offset_node_list) following sub-slicing"""
    n = strip(node)
    if depth > 6:
        return (False, [])
    if n[0] == 'call' and n[1].split('=>')[0].strip() in () :
        pass
    if n[0] == 'call' and ('Index<I> for [T]>::index' in n[1] or 'IndexMut<I> for [T]>::index_mut' in n[1]) and len(n[2]) == 2:
        ok, offs = slice_base(F, n[2][0], view_adt, depth + 1)
        rb = range_bounds(F, n[2][1])
        if rb is None:
            return (ok, offs + [('opaque', 'range')])
        if rb[1] is not None:
            return (ok, offs + [rb[1]])
        return (ok, offs)
    if n[0] == 'phi':
        rs = [slice_base(F, x, view_adt, depth + 1) for x in n[1]]
        if all(r[0] for r in rs):
            return (True, [('phi', tuple(('agg', 'sum', tuple(r[1])) for r in rs))] if any(r[1] for r in rs) else [])
        return (False, [])
    return (is_buffer_root(n, view_adt), [])


def _drop_partial_defs(n):
    """a store through an index (`data[i] = x`) is a partial definition of the slice place; it cannot
    change the slice's length, so for the bounds-check's `len` operand those alternatives are dropped"""
    if n[0] == 'phi':
        alts_ = tuple(_drop_partial_defs(a) for a in n[1] if a != ('opaque', 'partial-def'))
        if len(alts_) == 1:
            return alts_[0]
        return ('phi', alts_) if alts_ else n
    if n[0] in ('ref', 'deref') and len(n) == 2:
        return (n[0], _drop_partial_defs(n[1]))
    return n


def buffer_accesses(F, body, view_adt):
    """accesses to the view's byte buffer in body: list of dict(kind, need (origin node of the minimal
    buffer length required), const (int or None), bb, line, what)"""
    out = []
    og = F.origin
    for bi, c, args, dest, tgt, ln in body.calls():
        syn = c.get('fn') if isinstance(c, dict) else None
        if syn not in INDEX_CALLS or len(args) != 2:
            continue
        si = len(body.blocks[bi]['s'])
        base = _drop_partial_defs(og.operand(body, args[0], bi, si))
        isbuf, offs = slice_base(F, base, view_adt)
        if not isbuf:
            continue
        rng = og.operand(body, args[1], bi, si)
        rb = range_bounds(F, rng)
        if rb is None:
            ity = (c.get('ga') or ['', ''])[1]
            if ity == 'usize':
                need = ('bin', 'Add', rng, ('const', '1'))
                rb = ('Index', rng, need)
            else:
                out.append(dict(kind='opaque', need=None, const=None, bb=bi, line=ln, what=show(rng)))
                continue
        kind, s, e = rb
        if kind in ('Range', 'RangeTo'):
            need = e
        elif kind in ('RangeInclusive', 'RangeToInclusive'):
            need = ('bin', 'Add', e, ('const', '1'))
        elif kind == 'RangeFrom':
            need = s
        elif kind == 'RangeFull':
            need = ('const', '0')
        else:
            need = e
        for o in offs:
            need = ('bin', 'Add', o, need)
        out.append(dict(kind=kind, need=need, const=const_of(need), bb=bi, line=ln, what=show(need),
                        start=s, end=e))
    # direct indexing: bounds-check asserts
    for bi, bl in enumerate(body.blocks):
        if bl['cl']:
            continue
        t = bl['t']
        if t[0] == 'assert' and t[3].get('k') == 'bounds':
            si = len(bl['s'])
            lenop = og.operand(body, t[3]['len'], bi, si)
            ln_ = strip(lenop)
            base = ln_[1] if ln_[0] == 'len' else None
            if base is not None:
                base = _drop_partial_defs(base)
            if base is None:
                continue
            isbuf, offs = slice_base(F, base, view_adt)
            if not isbuf:
                continue
            idx = og.operand(body, t[3]['index'], bi, si)
            need = ('bin', 'Add', idx, ('const', '1'))
            for o in offs:
                need = ('bin', 'Add', o, need)
            out.append(dict(kind='Index', need=need, const=const_of(need), bb=bi, line=t[5], what=show(need)))
    return out


def is_len_of_buffer(node, view_adt):
    n = strip(node)
    if n[0] == 'len':
        return is_buffer_root(n[1], view_adt)
    if n[0] == 'call' and n[1].endswith('<impl [T]>::len') and len(n[2]) == 1:
        return is_buffer_root(n[2][0], view_adt)
    if n[0] == 'cast':
        return is_len_of_buffer(n[1], view_adt)
    return False


def ok_sites(body):
    """blocks that assign Result::Ok to the return place"""
    out = []
    for bi, bl in enumerate(body.blocks):
        if bl['cl']:
            continue
        for s in bl['s']:
            if s[0] == 'a' and s[1] == [0, []] and s[2][0] == 'agg' and s[2][1]['k'] == 'adt' \
                    and s[2][1]['adt'] == 'std::result::Result' and s[2][1]['variant'] == 'Ok':
                out.append(bi)
    return out


def ok_facts(F, body, restrict_edges=frozenset()):
    """edge facts that hold on every path to an Ok return of body (each fact's edge alone cuts all Ok
    sites).  restrict_edges: edges removed beforehand (variant partition)."""
    sites = ok_sites(body)
    out = []
    if not sites:
        return out
    # under a partition the compared expressions are evaluated on the restricted CFG: a length chosen by a match arm and
    # compared once after the join (`let need = match kind {..}; if len < need`) is then the chosen arm's value
    qb = body.restricted(restrict_edges) if restrict_edges else body
    for bi, bl in enumerate(body.blocks):
        if bl['cl'] or bl['t'][0] != 'switch':
            continue
        for tb, lab, f in cond_facts(F, qb, bi):
            e = (bi, tb, lab)
            if e in restrict_edges:
                continue
            # the fact holds at Ok iff Ok is unreachable once all *other* out-edges of this switch that
            # contradict it are the only way... equivalently: every path to Ok uses edge e
            seen = body.reachable(cut_edges=set(restrict_edges) | {e})
            if all(s not in seen for s in sites):
                out.append(f)
    return out


def len_lower_bounds(F, body, view_adt, facts):
    """from facts at Ok: constant lower bound K on buffer length, and the list of symbolic bounds
    (origin nodes X with len >= X)"""
    K = 0
    sym = []
    for f in facts:
        if f[0] == 'bool' and f[2] is False:
            n = strip(f[1])
            if n[0] == 'call' and n[1].endswith('is_empty') and is_buffer_root(n[2][0], view_adt):
                K = max(K, 1)
            continue
        if f[0] != 'rel':
            continue
        _, op, a, b = f
        if is_len_of_buffer(a, view_adt):
            x = b
        elif is_len_of_buffer(b, view_adt):
            x = a
            op = FLIP[op]
        else:
            continue
        # now: len op x
        c = const_of(x)
        if op in ('Ge', 'Gt', 'Eq'):
            if c is not None:
                K = max(K, c + (1 if op == 'Gt' else 0))
            else:
                sym.append((op, x))
    return K, sym


def view_getters(F, node, view_adt):
    """methods of the view type called (on self) inside an origin tree"""
    out = set()
    for l in leafs(node):
        if l.startswith('C:'):
            b = F.bodies.get(l[2:])
            if b is not None and b.meta.get('impl_self') == view_adt:
                out.add(l[2:])
    return out


# ---------------------------------------------------------------------------------------------
# expression expansion (getter inlining), intervals, buffer byte sources
# ---------------------------------------------------------------------------------------------

TRANSPARENT_CALLS = ('::from', '::into', '::try_from', '::clone')


def expand(F, node, adt, depth=0):
    """inline calls of methods of the view type `adt` and of small wire::* helper functions"""
    if not isinstance(node, tuple) or not node or depth > 5:
        return node
    k = node[0]
    if k == 'call':
        args = tuple(expand(F, a, adt, depth) for a in node[2])
        n2 = ('call', node[1], args)
        cb = F.bodies.get(node[1])
        if cb is not None and len(cb.blocks) <= 60 and (cb.meta.get('impl_self') == adt or (cb.file or '').startswith('src/wire/')) \
                and cb.kind in ('method', 'fn'):
            inl = inline_call(F, n2)
            if inl is not None:
                return expand(F, inl, adt, depth + 1)
        return n2
    if k == 'bin':
        return ('bin', node[1], expand(F, node[2], adt, depth), expand(F, node[3], adt, depth))
    if k == 'un':
        return ('un', node[1], expand(F, node[2], adt, depth))
    if k == 'cast':
        return ('cast', expand(F, node[1], adt, depth), node[2])
    if k in ('ref', 'deref', 'len', 'discr'):
        return (k, expand(F, node[1], adt, depth))
    if k == 'phi':
        return ('phi', tuple(expand(F, a, adt, depth) for a in node[1]))
    if k == 'proj':
        inner = expand(F, node[1], adt, depth)
        return subst(('proj', inner, node[2]), {})
    if k == 'agg':
        return (node[0], node[1], tuple(expand(F, a, adt, depth) for a in node[2])) + tuple(node[3:])
    if k == 'named':
        return node
    if k == 'after':
        return expand(F, node[1], adt, depth)
    return node


def _ty_max(ty):
    return {'u8': 255, 'u16': 65535, 'u32': (1 << 32) - 1, 'u64': (1 << 64) - 1, 'usize': (1 << 64) - 1}.get(ty)


def interval(node, adt=None, depth=0):
    """(lo, hi) of a non-negative integer expression; hi None = unbounded/unknown"""
    n = strip(node)
    if depth > 40:
        return (0, None)
    k = n[0]
    c = const_of(n)
    if c is not None:
        return (c, c)
    if k == 'cast':
        lo, hi = interval(n[1], adt, depth + 1)
        m = _ty_max(n[2])
        if m is not None and (hi is None or hi > m):
            return (0 if (hi is None or hi > m) else lo, m)
        return (lo, hi)
    if k == 'phi':
        ivs = [interval(x, adt, depth + 1) for x in n[1]]
        lo = min(i[0] for i in ivs)
        hi = None if any(i[1] is None for i in ivs) else max(i[1] for i in ivs)
        return (lo, hi)
    if k == 'bin':
        op = n[1]
        a = interval(n[2], adt, depth + 1)
        b = interval(n[3], adt, depth + 1)
        if op == 'Add':
            return (a[0] + b[0], None if a[1] is None or b[1] is None else a[1] + b[1])
        if op == 'Sub':
            lo = 0 if b[1] is None else max(0, a[0] - b[1])
            return (lo, None if a[1] is None else max(0, a[1] - b[0]))
        if op == 'Mul':
            return (a[0] * b[0], None if a[1] is None or b[1] is None else a[1] * b[1])
        if op == 'Shl' and b[0] == b[1] and b[1] is not None:
            return (a[0] << b[0], None if a[1] is None else a[1] << b[0])
        if op == 'Shr' and b[1] is not None:
            return (a[0] >> b[1], None if a[1] is None else a[1] >> b[0])
        if op == 'BitAnd':
            his = [x for x in (a[1], b[1]) if x is not None]
            return (0, min(his) if his else None)
        if op == 'BitOr' or op == 'BitXor':
            if a[1] is None or b[1] is None:
                return (0, None)
            m = max(a[1], b[1])
            return (0, (1 << m.bit_length()) - 1)
        if op == 'Div' and b[0] == b[1] and b[0]:
            return (a[0] // b[0], None if a[1] is None else a[1] // b[0])
        if op == 'Rem' and b[1]:
            return (0, b[1] - 1)
        return (0, None)
    if k == 'proj':
        # a byte of a slice / element
        if n[2] and n[2][-1][0] in ('i', 'ci'):
            return (0, 255)
        if n[2] and n[2][-1][0] == 'f' and n[2][-1][1] == '0' and strip(n[1])[0] == 'agg' and strip(n[1])[1] == 'tuple':
            return interval(strip(n[1])[2][0], adt, depth + 1)
        return (0, None)
    if k == 'call':
        nm = n[1]
        if nm.endswith('read_u16'):
            return (0, 65535)
        if nm.endswith('read_u32'):
            return (0, (1 << 32) - 1)
        if any(nm.endswith(t) for t in TRANSPARENT_CALLS) and len(n[2]) == 1:
            return interval(n[2][0], adt, depth + 1)
        if nm.endswith('::min') and len(n[2]) == 2:
            a, b = interval(n[2][0], adt, depth + 1), interval(n[2][1], adt, depth + 1)
            his = [x for x in (a[1], b[1]) if x is not None]
            return (min(a[0], b[0]), min(his) if his else None)
        if nm.endswith('::max') and len(n[2]) == 2:
            a, b = interval(n[2][0], adt, depth + 1), interval(n[2][1], adt, depth + 1)
            return (max(a[0], b[0]), None if a[1] is None or b[1] is None else max(a[1], b[1]))
        if nm.endswith('saturating_sub') and len(n[2]) == 2:
            a = interval(n[2][0], adt, depth + 1)
            return (0, a[1])
        if nm.endswith('unwrap_or') and len(n[2]) == 2:
            b = interval(n[2][1], adt, depth + 1)
            return (0, None)
        return (0, None)
    if k == 'field' and n[2] and n[2][-1][0] in ('i', 'ci'):
        return (0, 255)
    return (0, None)


def byte_sources(F, node, adt):
    """set of buffer offsets (ints) whose content influences node; 'var' for a non-constant offset"""
    out = set()

    def rec(n, depth=0):
        n0 = n
        if not isinstance(n, tuple) or not n or depth > 60:
            return
        k = n[0]
        if k == 'proj' or k == 'field':
            base = n[1] if k == 'proj' else None
            path = n[2]
            if k == 'proj' and any(e[0] == 'i' for e in path):
                isbuf, offs = slice_base(F, base, adt)
                if isbuf:
                    idx = [e for e in path if e[0] == 'i'][0][1]
                    off = 0
                    okc = idx is not None
                    for o in offs:
                        c = const_of(o)
                        if c is None:
                            okc = False
                            rec(o, depth + 1)
                        else:
                            off += c
                    out.add(off + idx if okc else 'var')
                    return
            if k == 'proj':
                rec(base, depth + 1)
            return
        if k == 'call':
            if ('Index<I> for [T]>::index' in n[1] or 'IndexMut<I> for [T]>::index_mut' in n[1]) and len(n[2]) == 2:
                isbuf, offs = slice_base(F, n[2][0], adt)
                rb = range_bounds(F, n[2][1])
                if isbuf and rb is not None and rb[0] == 'Range':
                    s, e = const_of(rb[1]), const_of(rb[2])
                    off = 0
                    okc = s is not None and e is not None
                    for o in offs:
                        c = const_of(o)
                        if c is None:
                            okc = False
                            rec(o, depth + 1)
                        else:
                            off += c
                    if okc and e - s <= 64:
                        for i in range(s, e):
                            out.add(off + i)
                    else:
                        out.add('var')
                        rec(rb[1], depth + 1)
                        rec(rb[2], depth + 1)
                    return
            for a in n[2]:
                rec(a, depth + 1)
            return
        if k == 'bin':
            rec(n[2], depth + 1)
            rec(n[3], depth + 1)
        elif k in ('un',):
            rec(n[2], depth + 1)
        elif k in ('cast', 'ref', 'deref', 'len', 'discr', 'after'):
            rec(n[1], depth + 1)
        elif k == 'phi':
            for a in n[1]:
                rec(a, depth + 1)
        elif k == 'agg':
            for a in n[2]:
                rec(a, depth + 1)
        elif k == 'named':
            rec(n[2], depth + 1)
    rec(node)
    return out
