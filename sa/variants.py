"""Seeded source variants of /repo (scratch copies) used to test the checker both ways.

A variant = (id, property, file, find, replace, expect) : `find` must occur exactly once in `file`;
it is replaced in a scratch copy of the repository (never in /repo), the copy must still build
(facts extraction = cargo check), and `./check <property>` on the copy must report a finding of
rule `expect`.  `silent` variants are behaviour-preserving edits: no rule of any listed property may
fire.
"""
import json, os, shutil, subprocess, sys, tempfile, time
from concurrent.futures import ThreadPoolExecutor

VERIF = os.path.dirname(os.path.dirname(os.path.abspath(__file__)))
SCRATCH_ROOT = os.path.join('/var/tmp/smolverif', str(os.getpid()))

VARIANTS = []


def V(vid, prop, file, find, replace, expect, note=''):
    VARIANTS.append(dict(id=vid, prop=prop, file=file, find=find, replace=replace, expect=expect, note=note))


def S(vid, props, file, find, replace, note='', all=False):
    VARIANTS.append(dict(id=vid, prop=props[0], props=props, file=file, find=find, replace=replace, expect=None,
                         silent=True, note=note, all=all))


# --------------------------------------------------------------------------------------------
# catalogue (grown with the rules; see DESIGN.md appendix A)
# --------------------------------------------------------------------------------------------
T = 'src/socket/tcp.rs'

V('c17-finwait2-fin-closed', 'C17', T,
  """                self.rx_fin_received = true;
                self.set_state(State::TimeWait);
                self.timer.set_for_close(cx.now());
            }

            // ACK packets in CLOSING state change it to TIME-WAIT.""",
  """                self.rx_fin_received = true;
                self.set_state(State::Closed);
                self.timer.set_for_close(cx.now());
            }

            // ACK packets in CLOSING state change it to TIME-WAIT.""", 'R17.1')
V('c17-close-timewait', 'C17', T,
  """            State::Listen => self.set_state(State::Closed),""",
  """            State::Listen | State::TimeWait => self.set_state(State::Closed),""", 'R17.1')
V('c17-established-none-closewait', 'C17', T,
  """            (State::Established, TcpControl::None) => {}""",
  """            (State::Established, TcpControl::None) => {
                if repr.payload.is_empty() && ack_all {
                    self.set_state(State::CloseWait);
                }
            }""", 'R17.1')
V('c17-direct-state-write', 'C17', T,
  """            (State::SynReceived, TcpControl::None) => {
                self.set_state(State::Established);""",
  """            (State::SynReceived, TcpControl::None) => {
                self.state = State::Established;""", 'R17.2')
V('c17-synrecv-any-ack', 'C17', T,
  """            (State::SynReceived, _, Some(ack_number)) => {
                if ack_number != self.local_seq_no + 1 {""",
  """            (State::SynReceived, _, Some(ack_number)) => {
                if ack_number != self.local_seq_no + 1 && repr.control == TcpControl::Rst {""", 'R17.3')
V('c17-oow-rst-resets', 'C17', T,
  """                    (true, false) => {
                        if window_start <= segment_start && segment_start < window_end {""",
  """                    (true, false) => {
                        if (window_start <= segment_start && segment_start < window_end)
                            || repr.control == TcpControl::Rst
                        {""", 'R17.4b')
V('c17-close-delay', 'C17', T,
  """const CLOSE_DELAY: Duration = Duration::from_millis(10_000);""",
  """const CLOSE_DELAY: Duration = Duration::from_millis(1_000);""", 'R17.5')
V('c17-ackfin-any', 'C17', T,
  """                if sent_fin && self.tx_buffer.len() + 1 == ack_len {""",
  """                if sent_fin && self.tx_buffer.len() < ack_len {""", 'R17.3')

E = 'src/iface/interface/ethernet.rs'
I4 = 'src/iface/interface/ipv4.rs'
I6 = 'src/iface/interface/ipv6.rs'
IT = 'src/iface/interface/tcp.rs'
IU = 'src/iface/interface/udp.rs'
V('c11-eth-filter-wrong-field', 'C11', E,
  """HardwareAddress::Ethernet(eth_frame.dst_addr()) != self.hardware_addr""",
  """HardwareAddress::Ethernet(eth_frame.src_addr()) != self.hardware_addr""", 'R11.1')
V('c11-ipv6-filter-wrong-field', 'C11', I6,
  """        if !self.has_ip_addr(ipv6_repr.dst_addr)
            && !self.has_multicast_group(ipv6_repr.dst_addr)""",
  """        if !self.has_ip_addr(ipv6_repr.src_addr)
            && !self.has_multicast_group(ipv6_repr.dst_addr)""", 'R11.2')
V('c11-icmpv4-reply-nonunicast-src', 'C11', I4,
  """        if !self.is_unicast_v4(ipv4_repr.src_addr) {
            // Do not send ICMP replies to non-unicast sources
            None
        } else if self.is_unicast_v4(ipv4_repr.dst_addr) {""",
  """        if self.is_unicast_v4(ipv4_repr.dst_addr) {""", 'R11.4')
V('c11-rst-to-rst', 'C11', IT,
  """        if tcp_repr.control == TcpControl::Rst
            || ip_repr.dst_addr().is_unspecified()""",
  """        if ip_repr.dst_addr().is_unspecified()""", 'R11.5')
V('c11-tcp-subnet-broadcast', 'C11', IT,
  """IpAddress::Ipv4(addr) => addr.x_is_unicast() && !self.is_broadcast_v4(addr),""",
  """IpAddress::Ipv4(addr) => addr.x_is_unicast(),""", 'R11.4')
V('c11-icmp-socket-no-accepts', 'C11', I4,
  """            if icmp_socket.accepts_v4(self, &ip_repr, &icmp_repr) {""",
  """            if handled_by_icmp_socket || icmp_socket.accepts_v4(self, &ip_repr, &icmp_repr) {""", 'R11.3')
V('c11-udp6-multicast-error', 'C11', IU,
  """            IpRepr::Ipv6(ipv6_repr) if ipv6_repr.dst_addr.is_multicast() => None,""",
  """            IpRepr::Ipv6(ipv6_repr) if ipv6_repr.src_addr.is_multicast() => None,""", 'R11.4')
S('silent-ipv4-filter-helper', ['C11'], I4,
  """        if !self.has_ip_addr(ipv4_repr.dst_addr)
            && !self.has_multicast_group(ipv4_repr.dst_addr)
            && !self.is_broadcast_v4(ipv4_repr.dst_addr)
        {""",
  """        let dst = ipv4_repr.dst_addr;
        let for_us = self.has_ip_addr(dst) || self.has_multicast_group(dst) || self.is_broadcast_v4(dst);
        if !for_us {""", 'destination filter computed into a local bool first')

W = 'src/wire/'
V('c07-ipv4-checklen-total-len', 'C07', W + 'ipv4.rs',
  """        } else if len < self.total_len() as usize {
            Err(Error)
        } else if self.header_len() < MINIMUM_IHL_BYTES {""",
  """        } else if self.header_len() < MINIMUM_IHL_BYTES {""", 'R07.1')
V('c07-udp-field-beyond-header', 'C07', W + 'udp.rs',
  """    pub fn checksum(&self) -> u16 {
        let data = self.buffer.as_ref();
        NetworkEndian::read_u16(&data[field::CHECKSUM])""",
  """    pub fn checksum(&self) -> u16 {
        let data = self.buffer.as_ref();
        NetworkEndian::read_u16(&data[field::CHECKSUM.start + 2..field::CHECKSUM.end + 2])""", 'R07.1')
V('c07-nhc-exthdr-length-unchecked', 'C07', W + 'sixlowpan/nhc.rs',
  """        // The length field is now readable; the payload it announces must be present too.
        len += self.length() as usize;
""",
  """""", 'R07.1')
V('c07-dns-pointer-no-shrink', 'C07', W + 'dns.rs',
  """                        bytes = &packet[ptr..];
                        packet = &packet[..ptr];""",
  """                        bytes = &packet[ptr..];""", 'R07.5')
V('c07-dhcp-options-pad-no-advance', 'C07', W + 'dhcpv4.rs',
  """                    Some(field::OPT_PAD) => buf = &buf[1..],""",
  """                    Some(field::OPT_PAD) => buf = &buf[0..],""", 'R07.5')
V('c07-sack-modulus', 'C07', W + 'tcp.rs',
  """                        if n < 10 || (n - 2) % 8 != 0 {""",
  """                        if n < 10 || (n - 2) % 4 != 0 {""", 'R07.7')
V('c07-ndisc-zero-len-option', 'C07', W + 'ndisc.rs',
  """            if len == 0 {
                return Err(Error);
            }
            offset += len;""",
  """            offset += len;""", 'R07.5')
S('silent-udp-checklen-reorder', ['C07'], W + 'udp.rs',
  """            if buffer_len < field_len || field_len < HEADER_LEN {""",
  """            if field_len < HEADER_LEN || buffer_len < field_len {""", 'reordered disjuncts')

V('c08-tcp-urgent-after-fill', 'C08', W + 'tcp.rs',
  """        packet.set_urgent_at(0);
        packet.payload_mut()[..self.payload.len()].copy_from_slice(self.payload);

        if checksum_caps.tcp.tx() {
            packet.fill_checksum(src_addr, dst_addr)
        } else {""",
  """        packet.payload_mut()[..self.payload.len()].copy_from_slice(self.payload);

        if checksum_caps.tcp.tx() {
            packet.fill_checksum(src_addr, dst_addr);
            packet.set_urgent_at(0);
        } else {
            packet.set_urgent_at(0);""", 'R08.1')
V('c08-udp-no-zero-when-offloaded', 'C08', W + 'udp.rs',
  """            packet.fill_checksum(src_addr, dst_addr)
        } else {
            // make sure we get a consistently zeroed checksum,
            // since implementations might rely on it
            packet.set_checksum(0);
        }
    }
}""",
  """            packet.fill_checksum(src_addr, dst_addr)
        }
    }
}""", 'R08.1')
V('c08-icmpv6-no-pseudo-header', 'C08', W + 'icmpv6.rs',
  """            !checksum::combine(&[
                checksum::pseudo_header_v6(
                    src_addr,
                    dst_addr,
                    IpProtocol::Icmpv6,
                    data.len() as u32,
                ),
                checksum::data(data),
            ])
        };
        self.set_checksum(checksum)""",
  """            let _ = (src_addr, dst_addr);
            !checksum::combine(&[checksum::data(data)])
        };
        self.set_checksum(checksum)""", 'R08.1c')
V('c08-tcp-parse-inverted', 'C08', W + 'tcp.rs',
  """        if checksum_caps.tcp.rx() && !packet.verify_checksum(src_addr, dst_addr) {""",
  """        if !checksum_caps.tcp.rx() && !packet.verify_checksum(src_addr, dst_addr) {""", 'R08.2')
V('c08-ipv4-parse-no-check', 'C08', W + 'ipv4.rs',
  """        if checksum_caps.ipv4.rx() && !packet.verify_checksum() {
            return Err(Error);
        }
""",
  """        let _ = checksum_caps;
""", 'R08.2')
V('c08-frag-no-refill', 'C08', 'src/iface/interface/ipv4.rs',
  """            if caps.checksum.ipv4.tx() {
                packet.fill_checksum();
            }""",
  """""", 'R08.1')
V('c08-process-tcp-ignored-caps', 'C08', IT,
  """            &dst_addr,
            &self.caps.checksum
        ));""",
  """            &dst_addr,
            &ChecksumCapabilities::ignored()
        ));""", 'R08.3')

V('c01-fin-behind-hole', 'C01', T,
  """        if control == TcpControl::Fin && (window_start < segment_start || window_end < segment_end)
        {""",
  """        if control == TcpControl::Fin && window_end < segment_end {""", 'R01.1')
V('c01-fin-right-edge', 'C01', T,
  """        if control == TcpControl::Fin && (window_start < segment_start || window_end < segment_end)
        {""",
  """        if control == TcpControl::Fin && window_start < segment_start {""", 'R01.1')
V('c01-write-offset-plus-one', 'C01', T,
  """        let len_written = self.rx_buffer.write_unallocated(payload_offset, payload);""",
  """        let len_written = self.rx_buffer.write_unallocated(payload_offset + 1, payload);""", 'R04.2')
V('c01-fast-retransmit-seq', 'C01', T,
  """                        .min(self.remote_win_len);
                    repr.seq_number = self.local_seq_no;""",
  """                        .min(self.remote_win_len);""", 'R01.3')
V('c01-derive-partialord', 'C01', 'src/wire/tcp.rs',
  """impl cmp::PartialOrd for SeqNumber {
    fn partial_cmp(&self, other: &SeqNumber) -> Option<cmp::Ordering> {
        self.0.wrapping_sub(other.0).partial_cmp(&0)
    }
}""",
  """impl cmp::PartialOrd for SeqNumber {
    fn partial_cmp(&self, other: &SeqNumber) -> Option<cmp::Ordering> {
        self.0.partial_cmp(&other.0)
    }
}""", 'R01.4')
V('c04-ack-without-buffered', 'C04', T,
  """            ack_number: Some(self.remote_seq_no + self.rx_buffer.len()),
            window_len: self.scaled_window(),
            window_scale: None,
            max_seg_size: None,
            sack_permitted: false,
            sack_ranges: [None, None, None],
            timestamp: TcpTimestampRepr::generate_reply_with_tsval(
                self.tsval_generator,
                self.last_remote_tsval,
            ),
            payload: &[],
        };

        let mut is_zero_window_probe = false;""",
  """            ack_number: Some(self.remote_seq_no + self.rx_buffer.len() + self.rx_fin_received as usize),
            window_len: self.scaled_window(),
            window_scale: None,
            max_seg_size: None,
            sack_permitted: false,
            sack_ranges: [None, None, None],
            timestamp: TcpTimestampRepr::generate_reply_with_tsval(
                self.tsval_generator,
                self.last_remote_tsval,
            ),
            payload: &[],
        };

        let mut is_zero_window_probe = false;""", 'R04.1')
V('c04-overlap-end-no-window', 'C04', T,
  """                    let overlap_end = window_end.min(segment_end);""",
  """                    let overlap_end = segment_end;""", 'R04.2')
V('c05-fast-retransmit-no-window', 'C05', T,
  """                        .min(self.tx_buffer.len())
                        .min(self.remote_win_len);""",
  """                        .min(self.tx_buffer.len());""", 'R05.1')
V('c05-mss-unclamped', 'C05', T,
  """            (State::Listen, TcpControl::Syn) => {
                tcp_trace!("received SYN");
                if let Some(max_seg_size) = repr.max_seg_size {
                    // Treat a zero MSS as if the option were absent, like Linux does.
                    if max_seg_size != 0 {
                        self.remote_mss = (max_seg_size as usize).max(MIN_REMOTE_MSS);""",
  """            (State::Listen, TcpControl::Syn) => {
                tcp_trace!("received SYN");
                if let Some(max_seg_size) = repr.max_seg_size {
                    // Treat a zero MSS as if the option were absent, like Linux does.
                    if max_seg_size != 0 {
                        self.remote_mss = max_seg_size as usize;""", 'R05.2')
V('c05-syn-window-scaled', 'C05', T,
  """                repr.window_len = u16::try_from(self.rx_buffer.window()).unwrap_or(u16::MAX);""",
  """                repr.window_len = self.scaled_window();""", 'R05.3')
V('c05-fin-when-payload-empty', 'C05', T,
  """                if offset + repr.payload.len() == self.tx_buffer.len() {
                    match self.state {""",
  """                if repr.payload.is_empty() || offset + repr.payload.len() == self.tx_buffer.len() {
                    match self.state {""", 'R05.4')

V('c02-no-rearm-after-emit', 'C02', T,
  """        if repr.segment_len() > 0 && !self.timer.is_retransmit() {""",
  """        if repr.segment_len() > 0 && !self.timer.is_retransmit() && !repr.payload.is_empty() {""", 'R02.1')
V('c02-timer-retransmit-ingress', 'C02', T,
  """            Timer::Retransmit { expires_at, .. } => PollAt::Time(expires_at),""",
  """            Timer::Retransmit { .. } => PollAt::Ingress,""", 'R02.2')
V('c02-pollat-no-window-update', 'C02', T,
  """        } else if self.window_to_update() {
            // The receive window has been raised significantly.
            PollAt::Now
        } else {""",
  """        } else {""", 'R02.3')
V('c02-reno-no-floor', 'C02', 'src/socket/tcp/congestion/reno.rs',
  """        self.cwnd = self.cwnd.saturating_add(inc).min(self.rwnd).max(self.mss);""",
  """        self.cwnd = self.cwnd.saturating_add(inc).min(self.rwnd);""", 'R02.4')
V('c02-cubic-rto-zero', 'C02', 'src/socket/tcp/congestion/cubic.rs',
  """        self.cwnd = self.mss;
        self.cwnd_prior = in_flight;""",
  """        self.cwnd = 0;
        self.cwnd_prior = in_flight;""", 'R02.4')
V('c13-slaac-option-min', 'C13', 'src/iface/interface/mod.rs',
  """            res = match (res, self.inner.slaac.poll_at(timestamp)) {
                (Some(a), Some(b)) => Some(a.min(b)),
                (a, b) => a.or(b),
            };""",
  """            res = res.min(self.inner.slaac.poll_at(timestamp));""", 'R02.5')
V('c13-dns-ignore-timeout', 'C13', 'src/socket/dns.rs',
  """                State::Pending(pq) => Some(PollAt::Time(match pq.timeout_at {
                    Some(timeout_at) => pq.retransmit_at.min(timeout_at),
                    None => pq.retransmit_at,
                })),""",
  """                State::Pending(pq) => Some(PollAt::Time(pq.retransmit_at)),""", 'R13.1')
V('c13-meta-ignore-neighbor', 'C13', 'src/iface/socket_meta.rs',
  """            NeighborState::Waiting { neighbor, .. } if has_neighbor(neighbor) => socket_poll_at,
""",
  """""", 'R13.2')
V('c13-no-fragmenter-test', 'C13', 'src/iface/interface/mod.rs',
  """        #[cfg(feature = "_proto-fragmentation")]
        if !self.fragmenter.is_empty() {
            return Some(Instant::from_millis(0));
        }

        #[allow(unused_mut)]""",
  """        #[allow(unused_mut)]""", 'R13.3')
V('c13-slaac-stale', 'C13', 'src/iface/slaac.rs',
  """            Phase::Discovering | Phase::Start if self.num_solicitations > 0 => {
                Some(self.retry_rs_at)
            }""",
  """            Phase::Discovering | Phase::Start => Some(self.retry_rs_at),""", 'R13.4')

ST = 'src/storage/'
V('c14-enqueue-many-no-assert', 'C14', ST + 'ring_buffer.rs',
  """        let (size, result) = f(&mut self.storage[write_at..write_at + max_size]);
        assert!(size <= max_size);
        self.length += size;""",
  """        let (size, result) = f(&mut self.storage[write_at..write_at + max_size]);
        self.length += size;""", 'R14.1')
V('c14-get-allocated-no-until-end', 'C14', ST + 'ring_buffer.rs',
  """        // We can't contiguously dequeue past the end of the storage.
        let until_end = self.capacity() - start_at;
        if size > until_end {
            size = until_end
        }

        &self.storage[start_at..start_at + size]""",
  """        &self.storage[start_at..start_at + size]""", 'R14.2')
V('c14-dequeue-rebase', 'C14', ST + 'ring_buffer.rs',
  """        self.length -= size;
        (size, result)
    }""",
  """        self.length -= size;
        if self.length == 0 {
            self.read_at = 0;
        }
        (size, result)
    }""", 'R14.1b')
V('c14-infallible-no-rewind', 'C14', ST + 'packet_buffer.rs',
  """        if self.payload_ring.capacity() < max_size || self.metadata_ring.is_full() {
            return Err(Full);
        }

        // Ring is currently empty.  Clear it (resetting `read_at`) to maximize
        // for contiguous space.
        if self.payload_ring.is_empty() {
            self.payload_ring.clear();
        }
""",
  """        if self.payload_ring.capacity() < max_size || self.metadata_ring.is_full() {
            return Err(Full);
        }
""", 'R14.4')
V('c14-dequeue-with-consumes-on-err', 'C14', ST + 'packet_buffer.rs',
  """                        Err(err) => (0, Err(err)),""",
  """                        Err(err) => (metadata.size, Err(err)),""", 'R14.4')
V('c15-write-before-refusal', 'C15', ST + 'assembler.rs',
  """            if offset + size < contig.hole_size {
                // Range also ends within the hole.
                let new_contig = self.add_contig_at(i)?;""",
  """            if offset + size < contig.hole_size {
                // Range also ends within the hole.
                contig.shrink_hole_by(0);
                let new_contig = self.add_contig_at(i)?;""", 'R15.1')
V('c15-add-contig-shift-first', 'C15', ST + 'assembler.rs',
  """        if self.back().has_data() {
            return Err(TooManyHolesError);
        }

        for i in (at + 1..self.contigs.len()).rev() {
            self.contigs[i] = self.contigs[i - 1];
        }
""",
  """        for i in (at + 1..self.contigs.len()).rev() {
            self.contigs[i] = self.contigs[i - 1];
        }
        if self.contigs[at + 1].has_data() && at + 2 == self.contigs.len() {
            return Err(TooManyHolesError);
        }
""", 'R15.1')

IM = 'src/iface/interface/mod.rs'
V('c12-start-while-busy', 'C12', IM,
  """                        if !frag.is_empty() && !frag.finished() {
                            // Never overwrite the fragments of a packet that is still being sent.
                            net_debug!("Fragmentation buffer is in use. Dropping");
                            return Ok(());
                        }
""",
  """""", 'R12.1')
V('c12-egress-while-busy', 'C12', IM,
  """            #[cfg(feature = "_proto-fragmentation")]
            if !self.fragmenter.is_empty() && !self.fragmenter.finished() {
                break;
            }

            if !item""",
  """            if !item""", 'R12.1')
V('c12-frag-size-unaligned', 'C12', 'src/phy/mod.rs',
  """        payload_mtu - (payload_mtu % IPV4_FRAGMENT_PAYLOAD_ALIGNMENT)""",
  """        payload_mtu""", 'R12.2')
V('c12-key-no-protocol', 'C12', 'src/wire/ipv4.rs',
  """            protocol: self.next_header(),
        }
    }""",
  """            protocol: Protocol::Unknown(0),
        }
    }""", 'R12.3')
V('c12-complete-without-total', 'C12', 'src/iface/fragmentation.rs',
  """        self.total_size == Some(self.assembler.peek_front())""",
  """        self.total_size.is_some() && self.assembler.peek_front() > 0""", 'R12.4')


# ---- C09 / C10 / C03 / C06 / C20 (added with the rules of those properties) --------------------------
UDPS = 'src/socket/udp.rs'
V('c09-udp-emit-result-dropped', 'C09', UDPS,
  """            emit(cx, packet_meta.meta, (ip_repr, repr, payload_buf))
        });""",
  """            let _ = emit(cx, packet_meta.meta, (ip_repr, repr, payload_buf));
            Ok(())
        });""", 'R09.1', 'a failed emit loses the datagram')
V('c09-udp-second-socket', 'C09', 'src/iface/interface/udp.rs',
  """                udp_socket.process(self, meta, &ip_repr, &udp_repr, udp_packet.payload());
                return None;""",
  """                udp_socket.process(self, meta, &ip_repr, &udp_repr, udp_packet.payload());""", 'R09.4')
V('c09-udp-recv-slice-truncates', 'C09', UDPS,
  """        let (buffer, endpoint) = self.recv().map_err(|_| RecvError::Exhausted)?;

        if data.len() < buffer.len() {
            return Err(RecvError::Truncated);
        }
""",
  """        let (buffer, endpoint) = self.recv().map_err(|_| RecvError::Exhausted)?;
""", 'R09.5')
V('c09-udp-meta-local-address', 'C09', UDPS,
  """            local_address: Some(ip_repr.dst_addr()),
            meta,""",
  """            local_address: Some(ip_repr.src_addr()),
            meta,""", 'R09.6')
V('c09-of-packet-index', 'C09', 'src/wire/ip.rs',
  """        let Some(&first) = data.first() else {
            return Err(Error);
        };""",
  """        let first = data[0];""", 'R09.7', 'reverts fix F15')
V('c10-icmpv4-reply-any-dst', 'C10', 'src/iface/interface/ipv4.rs',
  """        } else if self.is_unicast_v4(ipv4_repr.dst_addr) {
            // Reply as normal when src_addr and dst_addr are both unicast""",
  """        } else if !ipv4_repr.dst_addr.is_broadcast() {
            // Reply as normal when src_addr and dst_addr are both unicast""", 'R10.3')
V('c10-frag-buffer-le', 'C10', 'src/iface/interface/mod.rs',
  """                        if frag.buffer.len() < total_ip_len {""",
  """                        if frag.buffer.len() <= total_ip_len {""", 'R10.1')
V('c06-tcp-eol-single', 'C06', 'src/wire/tcp.rs',
  """                for p in buffer.iter_mut() {
                    *p = field::OPT_END;
                }""",
  """                buffer[0] = field::OPT_END;""", 'R10.4')
V('c03-frag1-no-lower-bound', 'C03', 'src/iface/interface/sixlowpan.rs',
  """        if frag.datagram_size() < 40 {
            net_debug!("6LoWPAN: fragment size too small");
            return None;
        }
""",
  """""", 'R03.4')
V('c03-udp-len-underflow', 'C03', 'src/iface/interface/sixlowpan.rs',
  """        total_len.checked_sub(*payload_len + 8).ok_or(Error)?""",
  """        total_len - *payload_len - 8""", 'R03.4', 'reverts fix F3')
V('c03-ingress-unwrap', 'C03', 'src/iface/interface/ethernet.rs',
  """        let eth_frame = check!(EthernetFrame::new_checked(frame));""",
  """        let eth_frame = EthernetFrame::new_checked(frame).unwrap();""", 'R03.2')
V('c06-ipv4-ident-getter-field', 'C06', 'src/wire/ipv4.rs',
  """    pub fn ident(&self) -> u16 {
        let data = self.buffer.as_ref();
        NetworkEndian::read_u16(&data[field::IDENT])""",
  """    pub fn ident(&self) -> u16 {
        let data = self.buffer.as_ref();
        NetworkEndian::read_u16(&data[field::LENGTH])""", 'R06.2')
V('c06-ipv4-dscp-shift', 'C06', 'src/wire/ipv4.rs',
  """        data[field::DSCP_ECN] = (data[field::DSCP_ECN] & !0xfc) | (value << 2)""",
  """        data[field::DSCP_ECN] = (data[field::DSCP_ECN] & !0xfc) | (value << 3)""", 'R06.3')
V('c06-nhc-ports-and', 'C06', 'src/wire/sixlowpan/nhc.rs',
  """data[idx] = (((src_port - 0xf0b0) as u8) << 4) | ((dst_port - 0xf0b0) as u8);""",
  """data[idx] = (((src_port - 0xf0b0) as u8) << 4) & ((dst_port - 0xf0b0) as u8);""", 'R06.4', 'reverts fix F1')
V('c06-nhc-dst-mask', 'C06', 'src/wire/sixlowpan/nhc.rs',
  """                0xf0b0 + (data[start] & 0x0f) as u16""",
  """                0xf0b0 + (data[start] & 0xff) as u16""", 'R06.4', 'reverts fix F1b')
V('c06-tcp-repr-swapped-ports', 'C06', 'src/wire/tcp.rs',
  """        packet.set_src_port(self.src_port);
        packet.set_dst_port(self.dst_port);""",
  """        packet.set_src_port(self.dst_port);
        packet.set_dst_port(self.src_port);""", 'R06.5')
V('c06-ndisc-offset-reset', 'C06', 'src/wire/ndisc.rs',
  """                    NdiscOptionRepr::Mtu(mtu).emit(&mut opt_pkt);
                    offset += NdiscOptionRepr::Mtu(mtu).buffer_len();""",
  """                    NdiscOptionRepr::Mtu(mtu).emit(&mut opt_pkt);
                    offset = NdiscOptionRepr::Mtu(mtu).buffer_len();""", 'R06.6')
V('c20-iphc-hop-limit-offset', 'C20', 'src/wire/sixlowpan/iphc.rs',
  """                let start = (self.ip_fields_start()
                    + self.traffic_class_size()
                    + self.next_header_size()) as usize;

                let data = self.buffer.as_ref();
                data[start..start + 1][0]""",
  """                let start = (self.ip_fields_start() + self.traffic_class_size()) as usize;

                let data = self.buffer.as_ref();
                data[start..start + 1][0]""", 'R06.1')
V('c20-iphc-hlim-table', 'C20', 'src/wire/sixlowpan/iphc.rs',
  """            64 => self.set_hlim_field(0b10),
            1 => self.set_hlim_field(0b01),""",
  """            64 => self.set_hlim_field(0b01),
            1 => self.set_hlim_field(0b10),""", 'R06.1b')
V('c20-fragn-offset-not-advanced', 'C20', 'src/iface/interface/sixlowpan.rs',
  """                frag.sent_bytes += frag_size;
                frag.sixlowpan.datagram_offset += frag_size;""",
  """                frag.sent_bytes += frag_size;""", 'R20.1')
V('c20-fragn-size-unaligned', 'C20', 'src/iface/interface/sixlowpan.rs',
  """                pkt.sixlowpan.fragn_size = (125 - ieee_len - fragn.buffer_len()) / 8 * 8;""",
  """                pkt.sixlowpan.fragn_size = 125 - ieee_len - fragn.buffer_len();""", 'R20.2')
V('c20-rx-offset-units', 'C20', 'src/iface/interface/sixlowpan.rs',
  """        let offset = frag.datagram_offset() as usize * 8;""",
  """        let offset = frag.datagram_offset() as usize;""", 'R20.2')
S('silent-frag-buffer-flipped-compare', ['C10', 'C09', 'C03', 'C12'], 'src/iface/interface/mod.rs',
  """                        if frag.buffer.len() < total_ip_len {""",
  """                        if total_ip_len > frag.buffer.len() {""", 'same comparison, operands flipped')
S('silent-udp-recv-slice-ge', ['C09'], UDPS,
  """        let (buffer, endpoint) = self.recv().map_err(|_| RecvError::Exhausted)?;

        if data.len() < buffer.len() {
            return Err(RecvError::Truncated);
        }

        let length = min(data.len(), buffer.len());
        data[..length].copy_from_slice(&buffer[..length]);
        Ok((length, endpoint))""",
  """        let (buffer, endpoint) = self.recv().map_err(|_| RecvError::Exhausted)?;

        if !(data.len() >= buffer.len()) {
            return Err(RecvError::Truncated);
        }

        let length = buffer.len();
        data[..length].copy_from_slice(buffer);
        Ok((length, endpoint))""", 'equivalent formulation of the truncation guard')
S('silent-ipv4-dscp-setter-rewrite', ['C06'], 'src/wire/ipv4.rs',
  """        data[field::DSCP_ECN] = (data[field::DSCP_ECN] & !0xfc) | (value << 2)""",
  """        let old = data[field::DSCP_ECN] & 0x03;
        data[field::DSCP_ECN] = old | (value << 2)""", 'same bits, different spelling')
S('silent-iphc-hop-limit-sum-order', ['C06', 'C20'], 'src/wire/sixlowpan/iphc.rs',
  """                let start = (self.ip_fields_start()
                    + self.traffic_class_size()
                    + self.next_header_size()) as usize;

                let data = self.buffer.as_ref();
                data[start..start + 1][0]""",
  """                let start = (self.next_header_size()
                    + self.ip_fields_start()
                    + self.traffic_class_size()) as usize;

                let data = self.buffer.as_ref();
                data[start..start + 1][0]""", 'sum reordered')
S('silent-fragn-advance-order', ['C20'], 'src/iface/interface/sixlowpan.rs',
  """                frag.sent_bytes += frag_size;
                frag.sixlowpan.datagram_offset += frag_size;""",
  """                frag.sixlowpan.datagram_offset += frag_size;
                frag.sent_bytes += frag_size;""", 'two independent updates swapped')


# ---- C16 / C18 / C19 ------------------------------------------------------------------------------
V('c16-ratelimited-sends', 'C16', 'src/iface/interface/mod.rs',
  """            NeighborAnswer::RateLimited => return Err(DispatchError::NeighborPending),
            _ => (), // XXX""",
  """            _ => (), // XXX""", 'R16.2', 'discovery storm: a request for every queued packet')
V('c16-no-limit-rate', 'C16', 'src/iface/interface/mod.rs',
  """        // The request got dispatched, limit the rate on the cache.
        self.neighbor_cache.limit_rate(self.now);
        Err(DispatchError::NeighborPending)""",
  """        Err(DispatchError::NeighborPending)""", 'R16.2')
V('c16-expired-entry-used', 'C16', 'src/iface/neighbor.rs',
  """        }) = self.storage.get(protocol_addr)
            && timestamp < expires_at
        {""",
  """        }) = self.storage.get(protocol_addr)
            && (timestamp < expires_at || timestamp < self.silent_until)
        {""", 'R16.4')
V('c16-entry-lifetime', 'C16', 'src/iface/neighbor.rs',
  """    pub(crate) const ENTRY_LIFETIME: Duration = Duration::from_millis(60_000);""",
  """    pub(crate) const ENTRY_LIFETIME: Duration = Duration::from_millis(600_000);""", 'R16.4')
V('c16-route-min-prefix', 'C16', 'src/iface/route.rs',
  """            .max_by_key(|route| route.cidr.prefix_len())""",
  """            .min_by_key(|route| route.cidr.prefix_len())""", 'R16.5')
V('c16-route-expiry-ignored', 'C16', 'src/iface/route.rs',
  """                if let Some(expires_at) = route.expires_at
                    && timestamp > expires_at
                {
                    return false;
                }
                route.cidr.contains_addr(addr)""",
  """                route.cidr.contains_addr(addr)""", 'R16.5')
V('c18-ack-any-xid', 'C18', 'src/socket/dhcpv4.rs',
  """        if dhcp_repr.transaction_id != self.transaction_id {
            return;
        }
""",
  """""", 'R18.1')
V('c18-ack-any-hwaddr', 'C18', 'src/socket/dhcpv4.rs',
  """        if dhcp_repr.client_hardware_address != ethernet_addr {
            return;
        }
""",
  """""", 'R18.1')
V('c18-your-ip-not-unicast', 'C18', 'src/socket/dhcpv4.rs',
  """        if !dhcp_repr.your_ip.x_is_unicast() {
            net_debug!("DHCP ignoring ACK because your_ip is not unicast");
            return None;
        }
""",
  """""", 'R18.1')
V('c18-max-lease-ignored', 'C18', 'src/socket/dhcpv4.rs',
  """            lease_duration = lease_duration.min(max_lease_duration);""",
  """            lease_duration = lease_duration.max(max_lease_duration);""", 'R18.3')
V('c18-expired-keeps-renewing', 'C18', 'src/socket/dhcpv4.rs',
  """                if state.expires_at <= now {
                    net_debug!("DHCP lease expired");
                    self.reset();
                    // return Ok so we get polled again
                    return Ok(());
                }
""",
  """""", 'R18.4')
V('c19-no-txid-check', 'C19', 'src/socket/dns.rs',
  """                if udp_repr.dst_port != pq.port || p.transaction_id() != pq.txid {""",
  """                if udp_repr.dst_port != pq.port {""", 'R19.1')
V('c19-no-type-check', 'C19', 'src/socket/dns.rs',
  """                if question.type_ != pq.type_ {""",
  """                if false && question.type_ != pq.type_ {""", 'R19.1')
V('c19-eq-names-prefix', 'C19', 'src/socket/dns.rs',
  """            (None, _) => return Ok(false),
            (_, None) => return Ok(false),""",
  """            (None, _) => return Ok(true),
            (_, None) => return Ok(false),""", 'R19.1b')
V('c19-no-backoff', 'C19', 'src/socket/dns.rs',
  """                pq.delay = MAX_RETRANSMIT_DELAY.min(pq.delay * 2);""",
  """                pq.delay = MAX_RETRANSMIT_DELAY.min(pq.delay);""", 'R19.4')
S('silent-neighbor-lookup-order', ['C16'], 'src/iface/neighbor.rs',
  """        if timestamp < self.silent_until {
            Answer::RateLimited
        } else {
            Answer::NotFound
        }""",
  """        if self.silent_until > timestamp {
            Answer::RateLimited
        } else {
            Answer::NotFound
        }""", 'comparison flipped')
S('silent-dhcp-guard-order', ['C18'], 'src/socket/dhcpv4.rs',
  """        if dhcp_repr.client_hardware_address != ethernet_addr {
            return;
        }
        if dhcp_repr.transaction_id != self.transaction_id {
            return;
        }""",
  """        if dhcp_repr.transaction_id != self.transaction_id {
            return;
        }
        if dhcp_repr.client_hardware_address != ethernet_addr {
            return;
        }""", 'two independent guards swapped')
S('silent-dns-guard-split', ['C19'], 'src/socket/dns.rs',
  """                if udp_repr.dst_port != pq.port || p.transaction_id() != pq.txid {""",
  """                if p.transaction_id() != pq.txid || udp_repr.dst_port != pq.port {""", 'disjunction reordered')


# ---- behaviour-preserving edits aimed at the rules added in rounds 2 and 3 ------------------------------
S('silent-tcp-rename-acceptability-flag', ['C17', 'C04'], T, 'segment_in_window', 'seg_acceptable', 'local renamed', all=True)
S('silent-timer-flipped-compare', ['C13', 'C02', 'C17'], T,
  """            Timer::Close { expires_at } if timestamp >= expires_at => true,""",
  """            Timer::Close { expires_at } if expires_at <= timestamp => true,""", 'comparison flipped')
S('silent-fast-retransmit-guard-order', ['C02'], T,
  """                    if self.local_rx_dup_acks == 3 && !self.tx_buffer.is_empty() {""",
  """                    if !self.tx_buffer.is_empty() && self.local_rx_dup_acks == 3 {""", 'conjuncts swapped')
S('silent-propagate-carries-reordered', ['C08'], 'src/wire/ip.rs',
  """        let sum = (word >> 16) + (word & 0xffff);
        ((sum >> 16) as u16) + (sum as u16)""",
  """        let sum = (word & 0xffff) + (word >> 16);
        (sum as u16) + ((sum >> 16) as u16)""", 'operands of the folds swapped')
S('silent-remove-contig-last-local', ['C15'], 'src/storage/assembler.rs',
  """        for i in at..self.contigs.len() - 1 {
            if !self.contigs[i].has_data() {
                return;
            }
            self.contigs[i] = self.contigs[i + 1];
        }

        // Removing the last one.
        self.contigs[self.contigs.len() - 1] = Contig::empty();""",
  """        let last = self.contigs.len() - 1;
        for i in at..last {
            if !self.contigs[i].has_data() {
                return;
            }
            self.contigs[i] = self.contigs[i + 1];
        }

        // Removing the last one.
        self.contigs[last] = Contig::empty();""", 'bound hoisted into a local')
S('silent-dns-emit-order', ['C06'], 'src/wire/dns.rs',
  """        packet.set_question_count(1);
        packet.set_answer_record_count(0);""",
  """        packet.set_answer_record_count(0);
        packet.set_question_count(1);""", 'independent setters swapped')
S('silent-icmpv4-zero-first', ['C06', 'C10'], 'src/wire/icmpv4.rs',
  """                packet.set_msg_type(Message::TimeExceeded);
                packet.set_msg_code(reason.into());
                // The second header word is unused in this message and must be zero.
                NetworkEndian::write_u32(&mut packet.buffer.as_mut()[field::UNUSED], 0);
""",
  """                NetworkEndian::write_u32(&mut packet.buffer.as_mut()[field::UNUSED], 0);
                packet.set_msg_type(Message::TimeExceeded);
                packet.set_msg_code(reason.into());
""", 'zeroing moved in front')
S('silent-udp-close-order', ['C09'], 'src/socket/udp.rs',
  """        self.tx_buffer.reset();
        self.rx_buffer.reset();""",
  """        self.rx_buffer.reset();
        self.tx_buffer.reset();""", 'two resets swapped')
S('silent-egress-permitted-flipped', ['C13', 'C16'], 'src/iface/socket_meta.rs',
  """                } else if timestamp >= silent_until {""",
  """                } else if silent_until <= timestamp {""", 'comparison flipped')
S('silent-slaac-validity-order', ['C03'], 'src/wire/ndiscoption.rs',
  """        self.flags.contains(PrefixInfoFlags::ADDRCONF)
            && self.prefix_len <= 128""",
  """        self.prefix_len <= 128
            && self.flags.contains(PrefixInfoFlags::ADDRCONF)""", 'conjuncts swapped')
S('silent-frag-slice-via-local', ['C08', 'C10', 'C12'], 'src/iface/interface/mod.rs',
  """                        emit_ip(&ip_repr, &mut frag.buffer[..total_ip_len]);""",
  """                        let datagram = &mut frag.buffer[..total_ip_len];
                        emit_ip(&ip_repr, datagram);""", 'slice bound to a local first')


# ---- harder behaviour-preserving refactorings ---------------------------------------------------------
S('silent-process-udp-continue', ['C09', 'C11', 'C03'], 'src/iface/interface/udp.rs',
  """            if udp_socket.accepts(self, &ip_repr, &udp_repr) {
                udp_socket.process(self, meta, &ip_repr, &udp_repr, udp_packet.payload());
                return None;
            }
        }
""",
  """            if !udp_socket.accepts(self, &ip_repr, &udp_repr) {
                continue;
            }
            udp_socket.process(self, meta, &ip_repr, &udp_repr, udp_packet.payload());
            return None;
        }
""", 'guard inverted with continue')
S('silent-tcp-dispatch-now-local', ['C02', 'C13', 'C17'], T,
  """        } else if self.timer.should_retransmit(cx.now()) {""",
  """        } else if { let now = cx.now(); self.timer.should_retransmit(now) } {""", 'argument bound to a local')
S('silent-ring-enqueue-assert-order', ['C14', 'C01'], 'src/storage/ring_buffer.rs',
  """        let (size, result) = f(&mut self.storage[write_at..write_at + max_size]);
        assert!(size <= max_size);
        self.length += size;
        (size, result)""",
  """        let end = write_at + max_size;
        let (size, result) = f(&mut self.storage[write_at..end]);
        assert!(max_size >= size);
        self.length = self.length + size;
        (size, result)""", 'assert flipped, compound assignment expanded')
S('silent-udp-recv-slice-early-len', ['C09'], UDPS,
  """        let (buffer, endpoint) = self.recv().map_err(|_| RecvError::Exhausted)?;

        if data.len() < buffer.len() {
            return Err(RecvError::Truncated);
        }

        let length = min(data.len(), buffer.len());
        data[..length].copy_from_slice(&buffer[..length]);
        Ok((length, endpoint))""",
  """        let (buffer, endpoint) = self.recv().map_err(|_| RecvError::Exhausted)?;
        let length = buffer.len();
        if length > data.len() {
            return Err(RecvError::Truncated);
        }
        data[..length].copy_from_slice(buffer);
        Ok((length, endpoint))""", 'guard restated on a local')
V('c03-154-accept-unknown-version', 'C03', 'src/wire/ieee802154.rs',
  """        if matches!(packet.frame_version(), FrameVersion::Unknown(_)) {
            return Err(Error);
        }
""",
  """""", 'R03.9')
V('c03-154-accept-unknown-src-mode', 'C03', 'src/wire/ieee802154.rs',
  """        if matches!(packet.dst_addressing_mode(), AddressingMode::Unknown(_))
            || matches!(packet.src_addressing_mode(), AddressingMode::Unknown(_))
        {""",
  """        if matches!(packet.dst_addressing_mode(), AddressingMode::Unknown(_)) {""", 'R03.9')
V('c03-slaac-multicast-prefix', 'C03', 'src/wire/ndiscoption.rs',
  """            && !self.prefix.is_multicast()
""",
  """""", 'R03.6')
S('silent-154-new-checked-match', ['C03', 'C07'], 'src/wire/ieee802154.rs',
  """        if matches!(packet.frame_version(), FrameVersion::Unknown(_)) {
            return Err(Error);
        }
""",
  """        match packet.frame_version() {
            FrameVersion::Unknown(_) => return Err(Error),
            _ => (),
        }
""", 'matches! rewritten as match')
V('c06-154-emit-keeps-reserved-bits', 'C06', 'src/wire/ieee802154.rs',
  """        frame.buffer.as_mut()[field::FRAMECONTROL].fill(0);
""",
  """""", 'R06.3b')
S('silent-154-fc-or-after-clear', ['C06', 'C10'], 'src/wire/ieee802154.rs',
  """            raw = (raw & !(1 << $bit)) | ((val as u16) << $bit);
""",
  """            raw |= ((val as u16) << $bit);
""", 'OR-only flag setters are harmless in emit once the frame control word is zeroed first')
V('c04-syn-window-bookkeeping-branches-swapped', 'C04', T,
  """        self.remote_last_win = if repr.control == TcpControl::Syn {
            repr.window_len >> self.remote_win_shift
        } else {
            repr.window_len
        };""",
  """        self.remote_last_win = if repr.control != TcpControl::Syn {
            repr.window_len >> self.remote_win_shift
        } else {
            repr.window_len
        };""", 'R04.8')
V('c04-syn-window-recorded-unscaled', 'C04', T,
  """        self.remote_last_win = if repr.control == TcpControl::Syn {
            repr.window_len >> self.remote_win_shift
        } else {
            repr.window_len
        };""",
  """        self.remote_last_win = repr.window_len;""", 'R04.8')
S('silent-tcp-ack-check-swapped-tests', ['C05', 'C01', 'C04'], T,
  """                if ack_number < ack_min {
                    net_debug!(
                        "duplicate ACK ({} not in {}...{})",
                        ack_number,
                        ack_min,
                        ack_max
                    );
                    return None;
                }

                if ack_number > ack_max {
                    net_debug!(
                        "unacceptable ACK ({} not in {}...{})",
                        ack_number,
                        ack_min,
                        ack_max
                    );
                    return self.challenge_ack_reply(cx, ip_repr, repr);
                }""",
  """                if ack_max < ack_number {
                    net_debug!(
                        "unacceptable ACK ({} not in {}...{})",
                        ack_number,
                        ack_min,
                        ack_max
                    );
                    return self.challenge_ack_reply(cx, ip_repr, repr);
                }

                if ack_min > ack_number {
                    net_debug!(
                        "duplicate ACK ({} not in {}...{})",
                        ack_number,
                        ack_min,
                        ack_max
                    );
                    return None;
                }""", 'the two acceptability tests swapped and flipped')
S('silent-neighbor-lookup-match', ['C16'], 'src/iface/neighbor.rs',
  """        if timestamp < self.silent_until {
            Answer::RateLimited
        } else {
            Answer::NotFound
        }""",
  """        match timestamp < self.silent_until {
            true => Answer::RateLimited,
            false => Answer::NotFound,
        }""", 'if rewritten as match on bool')

S('silent-tcp-rename-local', ['C17'], T,
  """        let mut ack_of_fin = false;""",
  """        let mut ack_of_fin = false; let _unused_marker = 0u8;""", 'adds an unused local')


# --------------------------------------------------------------------------------------------

def make_scratch(name, repo='/repo'):
    d = os.path.join(SCRATCH_ROOT, name)
    if os.path.exists(d):
        shutil.rmtree(d)
    os.makedirs(d)
    for f in ('src', 'build.rs', 'Cargo.toml', 'Cargo.lock', 'gen_config.py', 'benches', 'examples', 'tests', 'fuzz'):
        p = os.path.join(repo, f)
        if os.path.isdir(p):
            shutil.copytree(p, os.path.join(d, f), symlinks=True)
        elif os.path.exists(p):
            shutil.copy2(p, os.path.join(d, f))
    return d


def run_variant(v, worker, repo='/repo'):
    t0 = time.time()
    d = make_scratch(f"w{worker}", repo)
    try:
        p = os.path.join(d, v['file'])
        src = open(p).read()
        n = src.count(v['find'])
        if (n != 1 and not v.get('all')) or n == 0:
            return dict(id=v['id'], ok=False, why=f"anchor text occurs {n} times in {v['file']} (catalogue stale)")
        open(p, 'w').write(src.replace(v['find'], v['replace']))
        env = dict(os.environ)
        env['VERIF_TIER'] = 'quick'
        env['VERIF_CACHE'] = os.path.join(SCRATCH_ROOT, f"cache-w{worker}")
        props = v.get('props', [v['prop']])
        fired = []
        out_all = ''
        for prop in props:
            # write evidence of the variant run elsewhere: evidence dir is per check process -> use env
            env['VERIF_EVIDENCE_DIR'] = os.path.join(SCRATCH_ROOT, f"evidence-w{worker}")
            r = subprocess.run([os.path.join(VERIF, 'check'), prop, '--repo', d], capture_output=True, text=True, env=env)
            out_all += r.stdout + r.stderr[-2000:]
            for line in r.stdout.splitlines():
                if line.startswith('FINDING rule='):
                    fired.append(line.split()[1].split('=')[1])
            if 'facts extraction failed' in r.stderr:
                return dict(id=v['id'], ok=False, why='variant does not compile', out=r.stderr[-1500:])
        if v.get('silent'):
            ok = not fired
            why = 'silent' if ok else f"behaviour-preserving edit fired {fired}"
        else:
            ok = v['expect'] in fired
            why = f"fired {sorted(set(fired))}" if ok else f"expected {v['expect']} but fired {sorted(set(fired))}"
        return dict(id=v['id'], ok=ok, why=why, fired=sorted(set(fired)), wall=round(time.time() - t0, 1),
                    out=out_all[-1500:] if not ok else '')
    finally:
        shutil.rmtree(d, ignore_errors=True)


def run_many(vs, workers=8, repo='/repo'):
    os.makedirs(SCRATCH_ROOT, exist_ok=True)
    res = []
    import queue
    q = queue.Queue()
    for i in range(workers):
        q.put(i)

    def job(v):
        w = q.get()
        try:
            return run_variant(v, w, repo)
        finally:
            q.put(w)
    with ThreadPoolExecutor(max_workers=workers) as ex:
        for r in ex.map(job, vs):
            res.append(r)
    return res


def cleanup():
    shutil.rmtree(SCRATCH_ROOT, ignore_errors=True)


def run_patch(patch, props, worker=0, repo='/repo'):
    """apply a unified diff to a scratch copy and run the checks of the given properties"""
    os.makedirs(SCRATCH_ROOT, exist_ok=True)
    d = make_scratch(f"p{worker}", repo)
    try:
        r = subprocess.run(['patch', '-p1', '-s', '-i', os.path.abspath(patch)], cwd=d, capture_output=True, text=True)
        if r.returncode != 0:
            return dict(ok=False, why='patch does not apply: ' + r.stdout[-300:] + r.stderr[-300:])
        env = dict(os.environ)
        env['VERIF_TIER'] = 'quick'
        env['VERIF_CACHE'] = os.path.join(SCRATCH_ROOT, f"cache-w{worker}")
        env['VERIF_EVIDENCE_DIR'] = os.path.join(SCRATCH_ROOT, f"evidence-w{worker}")
        out = {}
        for prop in props:
            r = subprocess.run([os.path.join(VERIF, 'check'), prop, '--repo', d], capture_output=True, text=True, env=env)
            fl = [l for l in r.stdout.splitlines() if l.startswith('FINDING')]
            out[prop] = dict(rc=r.returncode, findings=fl, err=r.stderr[-800:] if r.returncode not in (0, 1) else '')
        return out
    finally:
        shutil.rmtree(d, ignore_errors=True)


if __name__ == '__main__':
    if len(sys.argv) > 2 and sys.argv[1] == '--patch':
        res = run_patch(sys.argv[2], sys.argv[3:])
        for p, r in res.items() if isinstance(res, dict) and 'ok' not in res else [('-', res)]:
            print(p, json.dumps(r, indent=1)[:3000])
        sys.exit(0)
    sel = sys.argv[1:]
    vs = [v for v in VARIANTS if not sel or v['id'] in sel or v['prop'] in sel or any(s in v['id'] for s in sel)]
    t0 = time.time()
    res = run_many(vs)
    bad = 0
    for r in res:
        print(('PASS ' if r['ok'] else 'FAIL ') + r['id'] + ' :: ' + r['why'] + (f" ({r.get('wall')}s)" if r.get('wall') else ''))
        if not r['ok']:
            bad += 1
            if r.get('out'):
                print('    ' + r['out'].replace('\n', '\n    ')[-1200:])
    print(f"{len(res) - bad}/{len(res)} variants behaved as expected in {time.time()-t0:.0f}s")
    if os.environ.get('KEEP_SCRATCH') != '1':
        cleanup()
    sys.exit(1 if bad else 0)
