"""Thorough-tier extras (seeded variants, compile-fail witnesses). Filled in per property."""


def extras(prop, run, repo):
    return {}
