"""Thorough-tier extras.

1. The rules of the property are also run on the secondary feature configurations B and C (framework.Run).
2. Checker self-test ("test the checker both ways"): every catalogue variant of this property (sa/variants.py) and
   every independently seeded change kept under seeded/ for it is applied to a scratch copy of the CURRENT working
   tree (never to the repository itself); the variant must still compile and the named rule must fire; the
   behaviour-preserving ("silent") variants must not fire anything.

The self-test examines the checker, not the repository: its outcome is recorded in the evidence file and on
stdout (SELFTEST lines) and never turns into a VIOLATION.  A variant whose anchor text no longer exists in the
working tree (because the tree was edited) is reported as `stale` and skipped.
"""
import json, os, queue, sys, time
from concurrent.futures import ThreadPoolExecutor

VERIF = os.path.dirname(os.path.dirname(os.path.abspath(__file__)))


def extras(prop, run, repo):
    if os.environ.get('VERIF_NO_SELFTEST') == '1' or os.path.abspath(repo).startswith('/var/tmp/smolverif'):
        return {}
    from . import variants
    t0 = time.time()
    vs = [v for v in variants.VARIANTS if v['prop'] == prop or prop in v.get('props', [])]
    res = variants.run_many(vs, workers=8, repo=repo) if vs else []
    out = []
    for r in res:
        st = 'stale' if (not r['ok'] and 'catalogue stale' in r.get('why', '')) else ('ok' if r['ok'] else 'MISS')
        out.append(dict(id=r['id'], status=st, detail=r['why']))
    # independently seeded changes
    sd = os.path.join(VERIF, 'seeded')
    seeds = sorted(d for d in os.listdir(sd) if d.startswith(prop + '-') and os.path.exists(os.path.join(sd, d, 'patch.diff')))
    q = queue.Queue()
    for i in range(8):
        q.put(i)

    def job(s):
        w = q.get()
        try:
            p = os.path.join(sd, s, 'patch.rebased.diff')
            if not os.path.exists(p):
                p = os.path.join(sd, s, 'patch.diff')
            r = variants.run_patch(p, [prop], worker=w, repo=repo)
            if isinstance(r, dict) and r.get('ok') is False:
                return dict(id=s, status='stale', detail=r.get('why', '')[:120])
            rr = r[prop]
            rules = sorted({l.split()[1].split('=')[1] for l in rr['findings']})
            return dict(id=s, status='ok' if rules else 'MISS', detail='fired ' + ','.join(rules) if rules else 'no rule fired')
        finally:
            q.put(w)
    if seeds:
        with ThreadPoolExecutor(max_workers=8) as ex:
            out += list(ex.map(job, seeds))
    variants.cleanup()
    for o in out:
        print(f"SELFTEST {prop} {o['id']}: {o['status']} ({o['detail'][:100]})")
    return dict(selftest=dict(variants=len(vs), seeded=len(seeds), ok=sum(1 for o in out if o['status'] == 'ok'),
                              missed=[o['id'] for o in out if o['status'] == 'MISS'],
                              stale=[o['id'] for o in out if o['status'] == 'stale'],
                              results=out, wall_s=round(time.time() - t0, 1),
                              note="self-test of the checker on scratch copies of the current tree; does not affect the verdict"))
