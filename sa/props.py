"""Per-property metadata for evidence files: what is decided and what is not."""

COMMON_ASSUMPTIONS = [
    "rustc's MIR (after drop elaboration, mir-opt-level=0) is a faithful control-flow/data-flow rendering of the source",
    "the analysed feature configuration (cfg A = default + socket-tcp-reno + socket-tcp-cubic) contains every anchor; thorough adds cfgs B and C",
    "guard-dominance is structural: passing a guard edge earlier on the path is taken to establish the guard at the site (values are not re-proved after intervening writes)",
    "the check decides the named structural clauses, which are necessary conditions of the property; it does not decide the behaviour itself",
]

PROPS = {}


def P(pid, explanation, not_decided):
    PROPS[pid] = dict(explanation=explanation, not_decided=not_decided)


for i in range(1, 21):
    P(f"C{i:02d}", "structural clauses decided by static analysis of MIR facts (see rules list)", [])
