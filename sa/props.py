"""Per-property metadata for evidence files: what is decided and what is not."""

COMMON_ASSUMPTIONS = [
    "rustc's MIR (after drop elaboration, mir-opt-level=0) is a faithful control-flow/data-flow rendering of the source",
    "the analysed feature configuration (cfg A = default + socket-tcp-reno + socket-tcp-cubic) contains every anchor; thorough adds cfgs B and C",
    "guard-dominance is structural: passing a guard edge earlier on the path is taken to establish the guard at the site (values are not re-proved after intervening writes)",
    "the check decides the named structural clauses, which are necessary conditions of the property; it does not decide the behaviour itself",
]

PROPS = {}


def P(pid, explanation, not_decided):
    PROPS[pid] = dict(explanation=explanation, not_decided=not_decided)



P('C01', "TCP byte-stream integrity, structural clauses: FIN consumed only behind the no-hole and not-truncated guards (value-split abstract interpretation); one placement of received payload in assembler and rx ring; tx offset = SEG.SEQ - SND.UNA; SND.UNA only moves within [SND.UNA, SND.NXT]; sequence numbers compared modularly; ring buffer read position never rewound while data is parked; reset() re-initialises every connection-scoped field.",
  ["stream equality under arbitrary loss/duplication/reordering schedules (a behavioural property over histories)", "correctness of the Assembler's range arithmetic beyond R15.x"])
P('C02', "TCP liveness, structural clauses: every armed timer variant maps to a finite deadline; poll_at mirrors every predicate that makes dispatch transmit; after a successful emit of a sequence-occupying segment the retransmission timer is armed; a pending fast retransmit survives a failed emit; fast retransmit only with data to resend; RTO into a closed window keeps a probe timer; FIN not gated by the peer window; cwnd >= 1 MSS; deadlines never combined with Option's derived ordering or Option::and.",
  ["eventual delivery (a liveness property over infinite executions)", "numeric adequacy of RTO/back-off values"])
P('C03', "Ingress robustness, structural contributors: empty-frame guard; no unwrap of a parse result in any iface body reachable from socket_ingress; unchecked views on the ingress path are write-only or read through a parser that calls check_len first; every checked-view accessor stays inside what check_len guarantees (interval comparison, per message type); parser loops have progress witnesses; self-length slice cuts are guarded; 6LoWPAN frame-derived subtractions are guarded and the announced datagram size is lower-bounded; fragmentation-buffer admission counts the header.",
  ["absence of every index/arithmetic panic on the whole ingress path (needs a relational numeric analysis of all slice operations: 171 local slice cuts, 17 decided by the simple guard matcher)", "termination of Interface::poll as a whole", "the ieee802154::Frame and rpl::options::Packet views (value-dependent layouts) except R07.9"])
P('C04', "TCP receive window, structural clauses: emitted ACK = RCV.NXT; payload trimmed to the max/min window shape and placed once; RCV.NXT only advanced by dequeued data / accepted FIN / SYN; recorded advertised edge equals what was sent; acceptability strict at the right edge; window-scale option clamped and the local shift dropped when the peer offers none.",
  ["that no byte outside the advertised window is ever accepted, for all numeric values (relies on the shape clauses plus modular comparison)"])
P('C05', "TCP sender limits, structural clauses: every segment size is clamped by peer window, effective MSS and (outside probes/fast retransmit) cwnd; remote_mss lower clamp; SYN carries the unscaled window; FIN only at the end of queued data; payload is a view of the tx ring; SND.UNA store guarded by both ACK acceptability tests.",
  ["numeric window arithmetic under wrap-around for all values"])
P('C06', "Wire writer/reader agreement: byte cover of 156 getter/setter pairs; bit provenance of 115 pairs; whole-emit bit provenance (no stale or undefined header bits); parse/emit field pairing for 27 Repr types; emit cursors accumulate and no position is written twice; IPHC field order and hop-limit tables; NHC UDP port forms; TCP end-of-list fill.",
  ["round-trip equality for every Repr value: option lists built through iterator adaptors (seed C06-s3 is not caught), DNS names, DHCP options, IPHC address-mode tables", "emit never panics on a buffer of the declared length (needs buffer_len/emit extent relation)"])
P('C07', "Checked views: every accessor of 22 view types reads within what check_len guarantees on its Ok paths, per message type where the layout is type-dependent; option/record iterators make progress; SACK validator and reader use the same stride; length-prefixed slice cuts are behind a comparison with the slice length; the ieee802154 validator reads the security control byte only after checking it exists.",
  ["ieee802154::Frame and (cfg B) rpl::options::Packet accessors in general (value-dependent layout beyond the partition engine)", "the pretty-printer", "Repr::parse bodies beyond the accessors they call"])
P('C08', "Checksums: fill_checksum is the last header write on every emit path (and after every later header change); every parse accepts only via !rx() or verify_checksum; the 32->16 bit fold keeps the value congruent mod 0xffff and within 16 bits (abstract evaluation); IPv4 header checksum covers header_len() octets; device checksum capabilities reach every ingress parser.",
  ["the arithmetic of checksum::data / combine over all inputs", "two recorded findings: UDP zero checksum accepted for IPv6, NHC UDP parse ignores caps"])
P('C09', "Datagram sockets: dequeue only through dequeue_with and the closure returns emit's result; process only behind accepts; first matching UDP socket only; Truncated guard dominates the copy; metadata is exactly the packet's own addresses; PacketBuffer reset/declined-callback/sibling rules; fragmenter never overwritten while busy, re-checked for every socket of an egress pass; of_packet total.",
  ["exactly-once FIFO delivery over all operation sequences"])
P('C10', "Egress frames: frame length = buffer_len of the emitted reprs; unfragmented transmit only behind total <= ip_mtu (IPv4, IPv6) / <= 125 (6LoWPAN); fragment sizes multiples of 8; fragmentation-buffer admission strict and header-inclusive; reply source = received destination only behind unicast guards; TCP option area filled; no stale header bits; checksums last.",
  ["field-level well-formedness of every frame in every scenario"])
P('C11', "Ingress filtering: hardware and IP destination/source filters cut every path to protocol processing; socket process only behind accepts; ICMP errors / RSTs only behind unicast guards; ICMP sockets compare the bound address with the packet's own destination; neighbor cache filled/refreshed only behind validation; reset() clears the listen endpoint.",
  ["two recorded findings (ICMPv6 Parameter Problem to multicast destinations)"])
P('C12', "IPv4 fragmentation/reassembly: single fragmenter started only when idle; fragment size rounded to 8; MF exactly when bytes remain; reassembly key = (id, src, dst, proto); delivery only when total known and front contiguous; slots freed only through reset() which clears the tracker; same identification on all fragments.",
  ["byte equality of reassembled datagrams over all arrival orders"])
P('C13', "poll_at consistency: per-socket poll_at reads every deadline its dispatch compares; Meta::poll_at mirrors egress_permitted; busy fragmenter => immediate deadline and a finished one is reset; SLAAC deadline only while a solicitation can be sent; failed dispatch silences the socket; timers fire at the reported instant (>=); DHCP bound-state deadline clamped by expiry.",
  ["that a poll at the reported instant always makes progress, for all states (behavioural)"])
P('C14', "Ring/packet buffers: every growth of length is behind a free-space guard and every shrink behind a length guard; contiguous accessors apply all clamps; a declined callback changes nothing; read position not rewound while data is parked; reset clears both rings; both enqueue interfaces take the same strict wrap decision.",
  ["equivalence with a FIFO queue model over all operation sequences"])
P('C15', "Assembler: a refused insertion writes nothing before returning Err; clear()/empty insertion; the guaranteed-success path is exactly the offset-0 instance of add()'s allocating test; the array shifts are complete (copy step, range, cleared slot).",
  ["union/coalescing semantics of add() (range arithmetic)"])
P('C16', "Neighbor/route resolution: nothing handed to the device before lookup_hardware_addr succeeded; discovery only when neither Found nor RateLimited and always followed by limit_rate; cache filled only by ARP/NDISC handlers behind validation and refreshed only by the same hardware address; lifetimes 60 s / 1 s; longest-prefix unexpired route; failing emit writes no TCP sequence state.",
  ["timing behaviour over histories"])
P('C17', "TCP state machine: the static transition relation (abstract interpretation per state and control) is a subset of the RFC 9293 relation; state stored only in set_state/reset; ESTABLISHED behind ack == ISS+1; FIN-acknowledged flag discipline; RST only in window (strict right edge) or exact handshake ack; TIME-WAIT 10 s armed on every entry and fires at the deadline; reset() table.",
  ["that each transition is caused by exactly the prescribed event for all numeric inputs (guards are checked structurally)"])
P('C18', "DHCPv4 client: lease only from an ACK with matching hardware address / xid, server id, contiguous mask, unicast address; state relation; expires_at = now + min(lease, max); bound-state deadline clamped; nothing sent after expiry; a new lease rewrites all lease fields and clears rebinding; xid/retry updated after emit.",
  ["timing of renew/rebind over executions"])
P('C19', "DNS client: completion only from a response matching port, txid, type, name, opcode/response bit/one question; name equality ends together; server/port filter; label iterators drive every name loop; self-length slice cuts guarded; back-off doubles and fail-over re-arms the timeout.",
  ["resolution results for all response contents"])
P('C20', "6LoWPAN: sent_bytes and datagram_offset advance by the bytes copied on every path; sizes multiples of 8; offset units agree between sender and receiver; datagram_size = payload + 40, lower-bounded on receipt; unfragmented frames fit 125 octets MAC header included; IPHC order / hop-limit tables / NHC port forms agree; fragmenter busy guard; reassembly reset.",
  ["byte equality of decompressed datagrams over all address modes / sizes / orders (IPHC address-mode tables are not cross-checked)"])
