"""Finite-domain abstract interpretation over MIR facts.

Abstract state: dict normalised-place -> frozenset of abstract values (enum variant names, bools,
small ints).  A missing key is TOP.  Sound over-approximation of the concrete values a place can
hold: used to prune infeasible CFG edges and to extract (from,to) relations at field stores.
Interprocedural by re-analysing local callees with the caller's abstract values (bounded depth,
memoised).
"""
from collections import deque
from .core import Body, is_place_op, _is_prefix, STD_DISCR, ty_adt, CMP_CALLS

TOP = None
MAX_DEPTH = 4


def _join(a, b):
    if a is None or b is None:
        return None
    out = {}
    for k, v in a.items():
        w = b.get(k)
        if w is not None:
            out[k] = v | w
    return out


class Frame:
    __slots__ = ('body', 'bb', 'state', 'parent', 'argmap', 'depth')

    def __init__(self, body, parent=None, argmap=None):
        self.body = body
        self.bb = None
        self.state = None
        self.parent = parent
        self.argmap = argmap


class FDAI:
    def __init__(self, facts, observer=None, max_depth=MAX_DEPTH):
        self.facts = facts
        self.observer = observer    # fn(kind, frame, info)
        self.max_depth = max_depth
        self.memo = {}
        self._single_def = {}

    # ------------------------------------------------------------------
    def single_def(self, body, l):
        key = (body.key, l)
        if key in self._single_def:
            return self._single_def[key]
        defs = body._all_defs().get(l, [])
        r = defs[0] if len(defs) == 1 and defs[0][3] == [] else None
        self._single_def[key] = r
        return r

    def place_adt(self, body, pl):
        """ADT path of the type of MIR place pl (best effort)"""
        l, projs = pl
        cur = ty_adt(self.facts, body.locals[l]['ty'])
        for pr in projs:
            if isinstance(pr, list) and pr[0] == 'f':
                adt, var, name = pr[3], pr[4], pr[2]
                a = self.facts.adts.get(adt)
                cur = None
                if a:
                    for v in a['variants']:
                        if var in ('-', v['name']):
                            for f in v['fields']:
                                if f['name'] == name:
                                    cur = ty_adt(self.facts, f['ty'])
                elif adt == '{tuple}':
                    # tuple element type: parse from local type string is brittle; give up
                    cur = None
        return cur

    def discr_names(self, body, pl):
        adt = self.place_adt(body, pl)
        if adt is None:
            return None, None
        dm = self.facts.discr_map(adt) or STD_DISCR.get(adt)
        return adt, dm

    # ------------------------------------------------------------------
    def eval_operand(self, body, st, op):
        if op[0] == 'k':
            return self.const_val(body, op[2])
        return st.get(body.norm(op[1]))

    def const_val(self, body, v):
        if isinstance(v, bool):
            return frozenset([v])
        if isinstance(v, int):
            return frozenset([v]) if -1 <= v <= 1 << 20 else None
        if isinstance(v, dict):
            if 'named' in v:
                return self.const_val(body, v['v'])
            if 'adt' in v:
                if v['variant'] != '-':
                    return frozenset([v['variant']])
                return None
            if 'promoted' in v:
                return None
        return None

    def const_ref_val(self, body, l):
        """value set behind a ref-typed local defined as `const promoted[k]` or `&const`"""
        d = self.single_def(body, l)
        if d is None or d[2] != 'a':
            return None
        rv = d[4]
        if rv[0] == 'use' and rv[1][0] == 'k':
            v = rv[1][2]
            if isinstance(v, dict) and 'promoted' in v:
                pb = (body.promoted_of or body).promoted[v['promoted']]
                # find `_1 = Variant {}` ; `_0 = &_1`
                for bl in pb.blocks:
                    for s in bl['s']:
                        if s[0] == 'a' and s[2][0] == 'agg' and s[2][1]['k'] == 'adt' and not s[2][2] \
                                and s[2][1]['variant'] != '-':
                            return frozenset([s[2][1]['variant']])
                        if s[0] == 'a' and s[2][0] == 'use' and s[2][1][0] == 'k':
                            cv = self.const_val(pb, s[2][1][2])
                            if cv is not None:
                                return cv
            if isinstance(v, dict) and 'ref' in v:
                return self.const_val(body, v['ref'])
        return None

    def deref_operand_val(self, body, st, op):
        """value of the thing an operand (a reference) points to; also returns target place"""
        if not is_place_op(op):
            return None, None
        pl = op[1]
        if pl[1] == []:
            tgt = body.ref_target(pl[0])
            if tgt is not None:
                if tgt[0][0] == 'd' and tgt[1] == ():
                    cv = self.const_ref_val(body, tgt[0][1])
                    if cv is not None:
                        return cv, None
                return st.get(tgt), tgt
            cv = self.const_ref_val(body, pl[0])
            if cv is not None:
                return cv, None
            t = (('d', pl[0]), ())
            return st.get(t), t
        np_ = body.norm([pl[0], pl[1] + ['*']])
        return st.get(np_), np_

    # ------------------------------------------------------------------
    def kill(self, st, np_):
        root, path = np_
        for k in list(st.keys()):
            if k[0] == root and (_is_prefix(path, k[1])):
                del st[k]

    def assign(self, body, st, place, rv):
        np_ = body.norm(place)
        # capture source sub-entries before kill (for moves/copies of aggregates)
        subs = []
        val = None
        k = rv[0]
        if k == 'use':
            op = rv[1]
            if op[0] == 'k':
                val = self.const_val(body, op[2])
            else:
                src = body.norm(op[1])
                val = st.get(src)
                for kk, vv in st.items():
                    if kk[0] == src[0] and len(kk[1]) > len(src[1]) and _is_prefix(src[1], kk[1]):
                        subs.append((kk[1][len(src[1]):], vv))
        elif k == 'agg':
            kd = rv[1]
            ops = rv[2]
            if kd['k'] == 'adt':
                if kd['variant'] != '-':
                    val = frozenset([kd['variant']])
                names = kd['fnames']
                if kd.get('active') is not None:
                    names = [kd['fnames'][kd['active']]]
                for nm, o in zip(names, ops):
                    v = self.eval_operand(body, st, o)
                    elem = ('f', nm, kd['adt'], kd['variant'])
                    pre = (('dc', kd['variant']),) if kd['variant'] != '-' else ()
                    if v is not None:
                        subs.append((pre + (elem,), v))
                    if is_place_op(o):
                        src = body.norm(o[1])
                        for kk, vv in st.items():
                            if kk[0] == src[0] and len(kk[1]) > len(src[1]) and _is_prefix(src[1], kk[1]):
                                subs.append((pre + (elem,) + kk[1][len(src[1]):], vv))
            elif kd['k'] == 'tuple':
                for i, o in enumerate(ops):
                    v = self.eval_operand(body, st, o)
                    elem = ('f', str(i), '{tuple}', '-')
                    if v is not None:
                        subs.append(((elem,), v))
                    if is_place_op(o):
                        src = body.norm(o[1])
                        for kk, vv in st.items():
                            if kk[0] == src[0] and len(kk[1]) > len(src[1]) and _is_prefix(src[1], kk[1]):
                                subs.append(((elem,) + kk[1][len(src[1]):], vv))
        elif k == 'bin' and rv[1] in ('Eq', 'Ne'):
            a = self.eval_operand(body, st, rv[2])
            b = self.eval_operand(body, st, rv[3])
            if a is not None and b is not None:
                if len(a) == 1 and len(b) == 1:
                    eq = (a == b)
                    val = frozenset([eq if rv[1] == 'Eq' else not eq])
                elif not (a & b):
                    val = frozenset([rv[1] == 'Ne'])
        elif k == 'un' and rv[1] == 'Not':
            a = self.eval_operand(body, st, rv[2])
            if a is not None and all(isinstance(x, bool) for x in a):
                val = frozenset(not x for x in a)
        elif k == 'cast':
            a = self.eval_operand(body, st, rv[2])
            if a is not None and all(isinstance(x, (bool, int)) for x in a):
                val = frozenset(int(x) for x in a)
        self.kill(st, np_)
        if val is not None:
            st[np_] = val
        for rel, v in subs:
            st[(np_[0], np_[1] + tuple(rel))] = v

    # ------------------------------------------------------------------
    def cond_truth(self, body, st, op, depth=0):
        """for a bool switch operand: return (set of possible truths, refiners) where refiners is a
        list of fn(state, truth) -> state|None applied on the edge"""
        if depth > 6:
            return None, []
        if op[0] == 'k':
            v = self.const_val(body, op[2])
            return v, []
        pl = op[1]
        np_ = body.norm(pl)
        known = st.get(np_)
        refiners = []

        def self_ref(s, truth, np_=np_):
            cur = s.get(np_)
            if cur is not None and truth not in cur:
                return None
            s[np_] = frozenset([truth])
            return s
        refiners.append(self_ref)
        if pl[1] != []:
            return known, refiners
        d = self.single_def(body, pl[0])
        if d is None:
            return known, refiners
        if d[2] == 'a':
            rv = d[4]
            if rv[0] == 'use' and is_place_op(rv[1]):
                t2, r2 = self.cond_truth(body, st, rv[1], depth + 1)
                return _meet(known, t2), refiners + r2
            if rv[0] == 'un' and rv[1] == 'Not':
                t2, r2 = self.cond_truth(body, st, rv[2], depth + 1)
                t2n = None if t2 is None else frozenset(not x for x in t2)
                return _meet(known, t2n), refiners + [(lambda s, truth, r=r: r(s, not truth)) for r in r2]
            if rv[0] == 'bin' and rv[1] in ('Eq', 'Ne'):
                return self._cmp_refine(body, st, known, refiners, rv[1],
                                        self._opval(body, st, rv[2]), self._opval(body, st, rv[3]))
        elif d[2] == 'call':
            t = d[4]
            c = t[1]
            nm = c.get('fn') if isinstance(c, dict) else None
            res = body.callee_name(c) if isinstance(c, dict) else None
            meth = None
            if nm in CMP_CALLS and CMP_CALLS[nm] in ('Eq', 'Ne'):
                meth = CMP_CALLS[nm]
            if meth and len(t[2]) == 2:
                a = self.deref_operand_val(body, st, t[2][0])
                b = self.deref_operand_val(body, st, t[2][1])
                return self._cmp_refine(body, st, known, refiners, meth, a, b)
            if nm in ('std::option::Option::<T>::is_some', 'std::option::Option::<T>::is_none',
                      'std::result::Result::<T, E>::is_ok', 'std::result::Result::<T, E>::is_err') and len(t[2]) == 1:
                v, tgt = self.deref_operand_val(body, st, t[2][0])
                pos = {'is_some': 'Some', 'is_none': 'None', 'is_ok': 'Ok', 'is_err': 'Err'}[nm.rsplit('::', 1)[1]]
                neg = {'Some': 'None', 'None': 'Some', 'Ok': 'Err', 'Err': 'Ok'}[pos]
                truths = None
                if v is not None:
                    truths = frozenset(([True] if pos in v else []) + ([False] if neg in v else []))

                def rf(s, truth, tgt=tgt, pos=pos, neg=neg):
                    if tgt is None:
                        return s
                    want = pos if truth else neg
                    cur = s.get(tgt)
                    if cur is not None and want not in cur:
                        return None
                    s[tgt] = frozenset([want])
                    return s
                return _meet(known, truths), refiners + [rf]
            # local predicate summary
            if res and res in self.facts.bodies and depth < 3:
                cb = self.facts.bodies[res]
                if cb.locals[0]['ty'] == 'bool':
                    return self._pred_summary(body, st, known, refiners, t, cb)
        return known, refiners

    def _opval(self, body, st, op):
        if op[0] == 'k':
            return self.const_val(body, op[2]), None
        np_ = body.norm(op[1])
        return st.get(np_), np_

    def _cmp_refine(self, body, st, known, refiners, meth, a, b):
        (va, pa), (vb, pb) = a, b
        truths = None
        if va is not None and vb is not None:
            ts = set()
            if va & vb:
                ts.add(meth == 'Eq')
            if len(va) > 1 or len(vb) > 1 or va != vb:
                ts.add(meth != 'Eq')
            truths = frozenset(ts)

        def rf(s, truth, va=va, vb=vb, pa=pa, pb=pb):
            eq = truth if meth == 'Eq' else not truth
            ca = s.get(pa) if pa is not None else va
            cb = s.get(pb) if pb is not None else vb
            if eq:
                if ca is not None and cb is not None:
                    m = ca & cb
                    if not m:
                        return None
                    if pa is not None:
                        s[pa] = m
                    if pb is not None:
                        s[pb] = m
                elif ca is not None and pb is not None and len(ca) == 1:
                    s[pb] = ca
                elif cb is not None and pa is not None and len(cb) == 1:
                    s[pa] = cb
            else:
                if ca is not None and cb is not None:
                    if len(cb) == 1 and pa is not None:
                        m = ca - cb
                        if not m:
                            return None
                        s[pa] = m
                    elif len(ca) == 1 and pb is not None:
                        m = cb - ca
                        if not m:
                            return None
                        s[pb] = m
            return s
        return _meet(known, truths), refiners + [rf]

    def _pred_summary(self, body, st, known, refiners, t, cb):
        """bool-returning local callee: evaluate with current state; refine by partitioning tracked
        places under &self one at a time."""
        ret, _ = self.call_eval(body, st, t, cb, depth_extra=1, observe=False)
        truths = ret
        # candidate partition places: tracked places under targets of ref args with >1 values
        cands = []
        for a in t[2]:
            if is_place_op(a) and a[1][1] == []:
                tgt = body.ref_target(a[1][0])
                if tgt is None and body.is_ref_local(a[1][0]):
                    tgt = (('d', a[1][0]), ())
                if tgt is not None:
                    for k, v in st.items():
                        if k[0] == tgt[0] and _is_prefix(tgt[1], k[1]) and 1 < len(v) <= 16:
                            cands.append(k)

        def rf(s, truth, cands=cands, t=t, cb=cb, body=body):
            for k in cands:
                cur = s.get(k)
                if cur is None or len(cur) < 2:
                    continue
                keep = set()
                for val in cur:
                    s2 = dict(s)
                    s2[k] = frozenset([val])
                    r, _ = self.call_eval(body, s2, t, cb, depth_extra=1, observe=False)
                    if r is None or truth in r:
                        keep.add(val)
                if not keep:
                    return None
                s[k] = frozenset(keep)
            return s
        return _meet(known, truths), refiners + [rf]

    # ------------------------------------------------------------------
    def call_eval(self, body, st, t, cb, depth_extra=0, observe=True, frame=None):
        """analyse callee body cb with values mapped from caller state. returns (ret value set,
        dict caller-place -> value for places under &mut/& ref args after the call)"""
        depth = (frame.depth if frame is not None and hasattr(frame, 'depth') else 0)
        args = t[2]
        init = {}
        argmap = {}
        for i, a in enumerate(args):
            k = i + 1
            if not is_place_op(a):
                v = self.const_val(body, a[2])
                if v is not None:
                    init[(('l', k), ())] = v
                continue
            pl = a[1]
            lty = body.locals[pl[0]]['ty'] if pl[1] == [] else None
            if pl[1] == [] and body.is_ref_local(pl[0]):
                tgt = body.ref_target(pl[0]) or (('d', pl[0]), ())
                argmap[k] = tgt
                for kk, vv in st.items():
                    if kk[0] == tgt[0] and _is_prefix(tgt[1], kk[1]):
                        init[(('d', k), kk[1][len(tgt[1]):])] = vv
            else:
                src = body.norm(pl)
                for kk, vv in st.items():
                    if kk[0] == src[0] and _is_prefix(src[1], kk[1]):
                        init[(('l', k), kk[1][len(src[1]):])] = vv
        mkey = (cb.key, frozenset(init.items()), observe)
        if mkey in self.memo and (not observe or self.observer is None or self.memo[mkey][0:2] == (None, None)):
            ret, fin = self.memo[mkey]
        else:
            self.memo[mkey] = (None, None)   # recursion guard: TOP
            res = self.run(cb, init, parent=frame if observe else None, argmap=argmap, observe=observe,
                           depth=self._depth + 1 + depth_extra)
            ret, fin = res.ret, res.final
            self.memo[mkey] = (ret, fin)
        # map back
        back = {}
        if fin is not None:
            for kk, vv in fin.items():
                if kk[0][0] == 'd' and kk[0][1] in argmap:
                    tgt = argmap[kk[0][1]]
                    back[(tgt[0], tgt[1] + kk[1])] = vv
        return ret, (back if fin is not None else None)

    _depth = 0

    # ------------------------------------------------------------------
    def run(self, body, init=None, parent=None, argmap=None, observe=True, depth=0):
        """worklist fixpoint. returns Result with in-states per block, feasible edges, ret, final"""
        init = dict(init or {})
        nb = len(body.blocks)
        instate = [None] * nb
        instate[0] = init
        feasible = set()
        wl = deque([0])
        inwl = {0}
        frame = Frame(body, parent, argmap)
        frame.depth = depth
        old_depth = self._depth
        self._depth = depth
        iters = 0
        while wl:
            bb = wl.popleft()
            inwl.discard(bb)
            iters += 1
            if iters > 200000:
                break
            st = dict(instate[bb])
            bl = body.blocks[bb]
            for si, s in enumerate(bl['s']):
                if s[0] == 'a':
                    if observe and self.observer:
                        frame.bb = bb
                        frame.state = st
                        self.observer('store', frame, (si, s))
                    self.assign(body, st, s[1], s[2])
                elif s[0] == 'sd':
                    np_ = body.norm(s[1])
                    self.kill(st, np_)
                    st[np_] = frozenset([s[2]])
            t = bl['t']
            outs = []   # (target, label, state)
            k = t[0]
            if k == 'goto':
                outs.append((t[1], None, st))
            elif k in ('assert',):
                outs.append((t[4], None, st))
            elif k == 'drop':
                outs.append((t[2], None, st))
            elif k == 'call':
                if t[4] is not None:
                    st2 = self.transfer_call(body, st, t, frame, bb, observe)
                    if st2 is not None:
                        outs.append((t[4], None, st2))
            elif k == 'switch':
                outs = self.transfer_switch(body, st, t, bb)
            for tb, lab, s2 in outs:
                if body.blocks[tb]['cl']:
                    continue
                feasible.add((bb, tb, lab))
                cur = instate[tb]
                if cur is None:
                    instate[tb] = s2
                    changed = True
                else:
                    j = _join(cur, s2)
                    changed = (j != cur)
                    instate[tb] = j
                if changed and tb not in inwl:
                    wl.append(tb)
                    inwl.add(tb)
        # return value / final state
        ret = frozenset()
        final = None
        top_ret = False
        for rb in body.return_blocks():
            if instate[rb] is None:
                continue
            st = dict(instate[rb])
            for s in body.blocks[rb]['s']:
                if s[0] == 'a':
                    self.assign(body, st, s[1], s[2])
                elif s[0] == 'sd':
                    np_ = body.norm(s[1])
                    self.kill(st, np_)
                    st[np_] = frozenset([s[2]])
            v = st.get((('l', 0), ()))
            if v is None:
                top_ret = True
            else:
                ret = ret | v
            final = st if final is None else _join(final, st)
        self._depth = old_depth
        r = Result()
        r.body = body
        r.instate = instate
        r.feasible = feasible
        r.ret = None if top_ret else ret
        r.final = final
        return r

    def transfer_call(self, body, st, t, frame, bb, observe):
        c = t[1]
        res = body.callee_name(c) if isinstance(c, dict) and 'fn' in c else None
        dest = body.norm(t[3])
        args = t[2]
        if observe and self.observer:
            frame.bb = bb
            frame.state = st
            self.observer('call', frame, t)
        st = dict(st)
        cb = self.facts.bodies.get(res) if res else None
        ret = None
        closureish = any(is_place_op(a) and ('{closure' in body.locals[a[1][0]]['ty']) for a in args)
        if cb is not None and self._depth < self.max_depth and not closureish:
            ret, back = self.call_eval(body, st, t, cb, observe=observe, frame=frame)
            # places under ref args: replace with callee final
            for i, a in enumerate(args):
                if is_place_op(a) and a[1][1] == [] and body.is_ref_local(a[1][0]):
                    tgt = body.ref_target(a[1][0]) or (('d', a[1][0]), ())
                    ty = body.locals[a[1][0]]['ty']
                    if ty.startswith('&mut') or ty.startswith('*mut'):
                        self.kill(st, tgt)
            if back is not None:
                for kk, vv in back.items():
                    # only restore under &mut targets (others were not killed and stay)
                    if kk not in st:
                        st[kk] = vv
            if ret is not None and not ret:
                # callee never returns (diverges) on this abstract input
                return None
        else:
            if closureish or (cb is None and res is None):
                # unknown code may run a closure: it can write what the closure captured by `&mut`
                caps = self._closure_mut_captures(body, args) if closureish else None
                if caps is None:
                    st = {k: v for k, v in st.items() if k[0][0] == 'l' and not self._borrowed(body, k[0][1])}
                else:
                    for tgt in caps:
                        self.kill(st, tgt)
            for a in args:
                if is_place_op(a) and a[1][1] == []:
                    ty = body.locals[a[1][0]]['ty']
                    if ty.startswith('&mut') or ty.startswith('*mut'):
                        tgt = body.ref_target(a[1][0]) or (('d', a[1][0]), ())
                        self.kill(st, tgt)
        self.kill(st, dest)
        if ret is not None:
            st[dest] = ret
        return st

    def _closure_mut_captures(self, body, args):
        """targets of the `&mut` captures of closure-typed arguments (None if a closure value cannot be
        traced to its construction)"""
        out = []
        for a in args:
            if not (is_place_op(a) and '{closure' in body.locals[a[1][0]]['ty']):
                continue
            l = a[1][0]
            d = self.single_def(body, l)
            hops = 0
            while d is not None and d[2] == 'a' and d[4][0] == 'use' and is_place_op(d[4][1]) and d[4][1][1][1] == [] and hops < 4:
                d = self.single_def(body, d[4][1][1][0])
                hops += 1
            if d is None or d[2] != 'a' or d[4][0] != 'agg' or d[4][1].get('k') != 'closure':
                if body.locals[l]['ty'].startswith('&'):
                    t = body.ref_target(l)
                    if t is not None and t[0][0] == 'l':
                        d = self.single_def(body, t[0][1])
                        if d is not None and d[2] == 'a' and d[4][0] == 'agg' and d[4][1].get('k') == 'closure':
                            pass
                        else:
                            return None
                    else:
                        return None
                else:
                    return None
            for o in d[4][2]:
                if is_place_op(o) and o[1][1] == []:
                    ty = body.locals[o[1][0]]['ty']
                    if ty.startswith('&mut'):
                        out.append(body.ref_target(o[1][0]) or (('d', o[1][0]), ()))
        return out

    def _borrowed(self, body, l):
        key = ('borrowed', )
        m = body._memo.get(key)
        if m is None:
            m = set()
            for bl in body.blocks:
                for s in bl['s']:
                    if s[0] == 'a' and s[2][0] in ('ref', 'rawptr'):
                        m.add(s[2][2][0])
            body._memo[key] = m
        return l in m

    def transfer_switch(self, body, st, t, bb):
        outs = []
        op = t[1]
        dty = t[4]
        edges = [(tb, ('sw', v)) for v, tb in t[2]] + [(t[3], ('sw', 'else'))]
        listed = [v for v, _ in t[2]]
        if dty == 'bool':
            truths, refiners = self.cond_truth(body, st, op)
            for tb, lab in edges:
                v = lab[1]
                if v != 'else':
                    truth = bool(v)
                elif listed == [0]:
                    truth = True
                elif listed == [1]:
                    truth = False
                else:
                    outs.append((tb, lab, dict(st)))
                    continue
                if truths is not None and truth not in truths:
                    continue
                s2 = dict(st)
                ok = True
                for r in refiners:
                    s2 = r(s2, truth)
                    if s2 is None:
                        ok = False
                        break
                if ok:
                    outs.append((tb, lab, s2))
            return outs
        # discriminant / integer switch
        subj = None
        dm = None
        if is_place_op(op) and op[1][1] == []:
            d = self.single_def(body, op[1][0])
            if d is not None and d[2] == 'a' and d[4][0] == 'discr':
                pl = d[4][1]
                subj = body.norm(pl)
                adt = d[4][2] if len(d[4]) > 2 else None
                dm = (self.facts.discr_map(adt) or STD_DISCR.get(adt)) if adt else None
                if dm is None:
                    subj = None
            elif d is not None and d[2] == 'a' and d[4][0] == 'use' and is_place_op(d[4][1]):
                subj = body.norm(d[4][1][1])
            else:
                subj = body.norm(op[1])
        cur = st.get(subj) if subj is not None else None
        if cur is None and subj is not None and dm is not None:
            cur = frozenset(dm.values())
        names_listed = []
        for tb, lab in edges:
            v = lab[1]
            if v == 'else':
                s2 = dict(st)
                if subj is not None and cur is not None:
                    m = cur - frozenset(names_listed)
                    if not m:
                        continue
                    s2[subj] = m
                outs.append((tb, lab, s2))
            else:
                name = dm.get(v, None) if dm else v
                if dm is not None and name is None:
                    name = v
                names_listed.append(name)
                s2 = dict(st)
                if subj is not None:
                    if cur is not None and name not in cur:
                        continue
                    if dm is not None or isinstance(name, int):
                        s2[subj] = frozenset([name])
                outs.append((tb, lab, s2))
        return outs


def _meet(a, b):
    if a is None:
        return b
    if b is None:
        return a
    return a & b


class Result:
    def edge_ok(self):
        feas = self.feasible

        def ok(b, tb, lab):
            return (b, tb, lab) in feas
        return ok

    def reachable_blocks(self):
        return {i for i, s in enumerate(self.instate) if s is not None}


class SplitResult:
    """result of a value-split run: product graph over (block, value of the split place)"""

    def __init__(self, body, nodes, edges, start):
        self.body = body
        self.nodes = nodes          # dict (bb,key) -> state
        self.edges = edges          # dict (bb,key) -> list of ((tb,key2), label)
        self.start = start

    def reach(self, cut_edges=frozenset()):
        """product nodes reachable from the start once the given CFG edges (src,dst,label) are removed;
        returns dict node -> predecessor node"""
        cut = set(cut_edges)
        seen = {self.start: None}
        dq = deque([self.start])
        while dq:
            n = dq.popleft()
            for (m, lab) in self.edges.get(n, ()):
                if (n[0], m[0], lab) in cut or (n[0], m[0]) in cut:
                    continue
                if m not in seen:
                    seen[m] = n
                    dq.append(m)
        return seen

    def sites_reached(self, sites, cut_edges=frozenset()):
        seen = self.reach(cut_edges)
        out = []
        for n in seen:
            if n[0] in sites:
                p = []
                x = n
                while x is not None:
                    p.append(x[0])
                    x = seen[x]
                out.append((n[0], n[1], list(reversed(p))))
        return out

    def blocks(self):
        return {n[0] for n in self.nodes}


def run_split(an, body, init, split_place, max_nodes=20000):
    """FDAI fixpoint that does not join states whose value of `split_place` (a normalised place)
    differs: trace partitioning on one finite-domain variable."""
    def key_of(st):
        v = st.get(split_place)
        return v if v is not None and len(v) == 1 else None
    init = dict(init or {})
    start = (0, key_of(init))
    nodes = {start: init}
    edges = {}
    wl = deque([start])
    inwl = {start}
    frame = Frame(body, None, None)
    frame.depth = 0
    an._depth = 0
    it = 0
    while wl:
        n = wl.popleft()
        inwl.discard(n)
        it += 1
        if it > 400000 or len(nodes) > max_nodes:
            break
        bb = n[0]
        st = dict(nodes[n])
        bl = body.blocks[bb]
        for si, s in enumerate(bl['s']):
            if s[0] == 'a':
                an.assign(body, st, s[1], s[2])
            elif s[0] == 'sd':
                np_ = body.norm(s[1])
                an.kill(st, np_)
                st[np_] = frozenset([s[2]])
        t = bl['t']
        outs = []
        k = t[0]
        if k == 'goto':
            outs.append((t[1], None, st))
        elif k == 'assert':
            outs.append((t[4], None, st))
        elif k == 'drop':
            outs.append((t[2], None, st))
        elif k == 'call':
            if t[4] is not None:
                st2 = an.transfer_call(body, st, t, frame, bb, False)
                if st2 is not None:
                    outs.append((t[4], None, st2))
        elif k == 'switch':
            outs = an.transfer_switch(body, st, t, bb)
        el = []
        for tb, lab, s2 in outs:
            if body.blocks[tb]['cl']:
                continue
            m = (tb, key_of(s2))
            el.append((m, lab))
            cur = nodes.get(m)
            if cur is None:
                nodes[m] = s2
                changed = True
            else:
                j = _join(cur, s2)
                changed = (j != cur)
                nodes[m] = j
            if changed and m not in inwl:
                wl.append(m)
                inwl.add(m)
        edges[n] = el
    return SplitResult(body, nodes, edges, start)
