"""Shared helpers for rules."""
from .core import *


def tuple_local(body, ty):
    """the unique local of exactly this (tuple) type"""
    c = [i for i, l in enumerate(body.locals) if l['ty'] == ty]
    return c[0] if len(c) == 1 else None


def call_sites(body, *names, suffix=None, contains=None):
    """(bb, callee, args, dest, target, line) for calls whose resolved/syntactic name matches"""
    out = []
    for bi, c, args, dest, tgt, ln in body.calls():
        n = body.callee_name(c)
        if n is None:
            continue
        syn = c.get('fn')
        if n in names or syn in names or (suffix and (n.endswith(suffix) or syn.endswith(suffix))) \
                or (contains and (contains in n or contains in syn)):
            out.append((bi, c, args, dest, tgt, ln))
    return out


def const_variant_arg(body, op):
    """variant name if operand is a constant fieldless variant or a local assigned one"""
    if op[0] == 'k':
        v = op[2]
        if isinstance(v, dict) and 'adt' in v:
            return v['variant']
        return None
    l = op[1][0]
    defs = body._all_defs().get(l, [])
    if len(defs) == 1 and defs[0][2] == 'a' and defs[0][4][0] == 'agg' and defs[0][4][1]['k'] == 'adt':
        return defs[0][4][1]['variant']
    return None
