"""Shared helpers for rules."""
from .core import *


def tuple_local(body, ty):
    """the unique local of exactly this (tuple) type"""
    c = [i for i, l in enumerate(body.locals) if l['ty'] == ty]
    return c[0] if len(c) == 1 else None


def call_sites(body, *names, suffix=None, contains=None):
    """(bb, callee, args, dest, target, line) for calls whose resolved/syntactic name matches"""
    out = []
    for bi, c, args, dest, tgt, ln in body.calls():
        n = body.callee_name(c)
        if n is None:
            continue
        syn = c.get('fn')
        if n in names or syn in names or (suffix and (n.endswith(suffix) or syn.endswith(suffix))) \
                or (contains and (contains in n or contains in syn)):
            out.append((bi, c, args, dest, tgt, ln))
    return out


def const_variant_arg(body, op):
    """variant name if operand is a constant fieldless variant or a local assigned one"""
    if op[0] == 'k':
        v = op[2]
        if isinstance(v, dict) and 'adt' in v:
            return v['variant']
        return None
    l = op[1][0]
    defs = body._all_defs().get(l, [])
    if len(defs) == 1 and defs[0][2] == 'a' and defs[0][4][0] == 'agg' and defs[0][4][1]['k'] == 'adt':
        return defs[0][4][1]['variant']
    return None


# ---------------------------------------------------------------------------------------------
# guards
# ---------------------------------------------------------------------------------------------

def rel_edges(facts, body, opclass, left, right, either_order=True):
    """edges on which `L opclass R` holds, L containing all leaf labels in `left`, R in `right`.
    opclass: 'lt' (< or <=), 'gt', 'eq', 'ne', 'le_or_eq' (lt or eq), 'any'"""
    def pred(f):
        if opclass == 'le_or_eq':
            return rel_matches(f, 'lt', left, right, either_order) or rel_matches(f, 'eq', left, right, either_order)
        return rel_matches(f, opclass, left, right, either_order)
    return guard_edges(facts, body, pred)


def bool_call_edges(facts, body, callee_pred, truth, arg_leafs=()):
    """edges on which a bool-returning call satisfying callee_pred(name) has the given truth"""
    def pred(f):
        if f[0] != 'bool' or f[2] != truth:
            return False
        n = strip(f[1])
        if n[0] != 'call' or not callee_pred(n[1]):
            return False
        if arg_leafs:
            ls = set()
            for a in n[2]:
                ls |= leafs(a)
            return set(arg_leafs) <= ls
        return True
    return guard_edges(facts, body, pred)


def variant_edges(facts, body, subject_leafs, variants, positive=True):
    """edges of discriminant switches on a subject with the given leaves, where the discriminant is
    (positive) one of `variants` / (negative) known not to be any of them"""
    def pred(f):
        if f[0] == 'is':
            if not set(subject_leafs) <= leafs(f[1]):
                return False
            return (f[2] in variants) == positive
        if f[0] == 'isnot':
            if not set(subject_leafs) <= leafs(f[1]):
                return False
            if positive:
                return False
            return set(variants) <= set(f[2])
        if f[0] == 'rel' and f[1] in ('Eq', 'Ne'):
            # PartialEq against a constant variant
            a, b = strip(f[2]), strip(f[3])
            for x, y in ((a, b), (b, a)):
                if y[0] == 'variant' and set(subject_leafs) <= leafs(x):
                    vn = y[1].rsplit('::', 1)[-1]
                    holds = (f[1] == 'Eq')
                    if positive and holds and vn in variants:
                        return True
                    if not positive and not holds and set(variants) <= {vn}:
                        return True
        return False
    return guard_edges(facts, body, pred)


def bool_local_switches(body, l):
    """(bb, true_target, false_target, labels) for switches whose operand is local l or a single-def copy"""
    out = []
    copies = {l}
    for ll, defs in body._all_defs().items():
        if len(defs) == 1 and defs[0][2] == 'a' and defs[0][3] == [] and defs[0][4][0] == 'use' \
                and is_place_op(defs[0][4][1]) and defs[0][4][1][1] == [l, []]:
            copies.add(ll)
    for bi, bl in enumerate(body.blocks):
        if bl['cl'] or bl['t'][0] != 'switch':
            continue
        t = bl['t']
        if is_place_op(t[1]) and t[1][1][1] == [] and t[1][1][0] in copies and t[4] == 'bool':
            tt = ft = None
            for tb, lab in body.succ_edges(bi):
                if lab[1] == 0:
                    ft = (bi, tb, lab)
                elif lab[1] == 'else' or lab[1] == 1:
                    tt = (bi, tb, lab)
            out.append((bi, tt, ft))
    return out


def derived_guard_edges(body, base_edges, edge_ok=None, polarity=None, pred=None):
    """close a set of pass-edges under: bool local L such that every definition that can give it the
    value T is (a) unreachable once the pass-edges are cut, or (b) a constant != T, or (c) a value
    whose being T implies the guard `pred` (all alternatives of its disjunctive form satisfy pred)
    => the T out-edges of switches on L are pass-edges too.  polarity None = both."""
    facts = body.facts
    edges = set(base_edges)
    cands = {}
    for l, defs in body._all_defs().items():
        if body.locals[l]['ty'] != 'bool' or l <= body.nargs:
            continue
        if all(d[3] == [] for d in defs):
            # locals without a switch of their own take part as intermediate values (`x = !y`, `x = y`)
            cands[l] = defs
    pols = (True, False) if polarity is None else (polarity,)
    done = set()
    changed = True
    while changed:
        changed = False
        seen = body.reachable(cut_edges=edges, edge_ok=edge_ok)
        for l, defs in cands.items():
            for T in pols:
                if (l, T) in done:
                    continue
                good = True
                nontrivial = False
                for (bi, si, kind, pr, rv) in defs:
                    if bi not in seen:
                        nontrivial = True
                        continue
                    if kind == 'a' and rv[0] == 'use' and rv[1][0] == 'k' and isinstance(rv[1][2], bool):
                        if rv[1][2] == T:
                            good = False
                            break
                        continue
                    if kind == 'a' and rv[0] == 'use' and is_place_op(rv[1]) and rv[1][1][1] == [] and (rv[1][1][0], T) in done:
                        # a copy of another bool local whose being T already implies the guard
                        nontrivial = True
                        continue
                    if kind == 'a' and rv[0] == 'un' and rv[1] == 'Not' and is_place_op(rv[2]) and rv[2][1][1] == [] and (rv[2][1][0], not T) in done:
                        # the negation of a bool local whose being !T already implies the guard
                        nontrivial = True
                        continue
                    if pred is None:
                        good = False
                        break
                    if kind == 'a':
                        node = facts.origin.rvalue(body, rv, bi, si, 0, None)
                    elif kind == 'call':
                        node = facts.origin.call_node(body, rv, bi, 0, None)
                    else:
                        good = False
                        break
                    alts = bool_dnf(node, T)
                    if not all(any(_safe(pred, f) for f in alt) for alt in alts):
                        good = False
                        break
                    nontrivial = True
                if good and nontrivial:
                    done.add((l, T))
                    for (bi, tt, ft) in bool_local_switches(body, l):
                        e = tt if T else ft
                        if e is not None and e not in edges:
                            edges.add(e)
                            changed = True
    return edges


def _safe(pred, f):
    try:
        return bool(pred(f))
    except Exception:
        return False


def cut_sites(body, sites, edges, edge_ok=None, start=0):
    """sites (blocks) still reachable from start once edges are removed -> list of (site, path)"""
    seen = body.reachable(cut_edges=set(edges), edge_ok=edge_ok, start=start)
    return [(s, body.path_to(seen, s)) for s in sites if s in seen]


def feasible_sites(body, sites, edge_ok):
    seen = body.reachable(edge_ok=edge_ok)
    return [s for s in sites if s in seen]


def fkey(adt, field, root=1):
    """normalised place key of field `field` of struct `adt` behind reference argument `root`"""
    return (('d', root), (('f', field, adt, '-'),))


def always_followed_by(body, site_bb, callee_names, edge_ok=None):
    """T2 pairing: every path from (after) site_bb to a return passes a call to one of callee_names.
    returns [] if it holds, else a witness path to a return block avoiding those calls."""
    blockers = {bi for bi, c, *_ in body.calls() if (body.callee_name(c) in callee_names)}
    tgt = body.blocks[site_bb]['t']
    starts = [tb for tb, _ in body.succ_edges(site_bb)]
    bad = []
    for st in starts:
        if st in blockers:
            continue
        seen = body.reachable(cut_blocks=blockers, start=st, edge_ok=edge_ok)
        for rb in body.return_blocks():
            if rb in seen:
                bad.append([site_bb] + body.path_to(seen, rb))
                break
    return bad


def must_write_fields(facts, body, adt):
    """fields of `adt` (behind arg 1) stored on *every* path of body: field -> list of store blocks.
    Only direct stores `(*_1).f = ...` and call-destination stores are considered."""
    stores = {}
    for bi, bl in enumerate(body.blocks):
        if bl['cl']:
            continue
        for si, s in enumerate(bl['s']):
            if s[0] == 'a':
                np_ = body.norm(s[1])
                if np_[0] == ('d', 1) and len(np_[1]) == 1 and np_[1][0][0] == 'f' and np_[1][0][2] == adt:
                    stores.setdefault(np_[1][0][1], []).append((bi, si))
        t = bl['t']
        if t[0] == 'call':
            np_ = body.norm(t[3])
            if np_[0] == ('d', 1) and len(np_[1]) == 1 and np_[1][0][0] == 'f' and np_[1][0][2] == adt:
                stores.setdefault(np_[1][0][1], []).append((bi, 'T'))
    out = {}
    for f, sts in stores.items():
        blocks = {b for b, _ in sts}
        seen = body.reachable(cut_blocks=blocks)
        # a store block that is itself the start is still "passed"
        if all(rb not in seen or rb in blocks for rb in body.return_blocks()) or 0 in blocks:
            out[f] = sts
    return out


def mcalls(F, body, adt, name, trait=None):
    """call sites in body whose resolved callee is method `name` of `adt` (module independent)"""
    m = F.method(adt, name, trait)
    if m is None:
        return []
    return [x for x in body.calls() if body.callee_name(x[1]) == m.key]


def is_method(F, callee_name, adt, name):
    m = F.method(adt, name)
    return m is not None and m.key == callee_name


def mpred(F, adt, *names):
    if adt == '__ext__':
        return lambda n: any(n.endswith('::' + x) for x in names)
    keys = {F.method(adt, n).key for n in names if F.method(adt, n) is not None}
    return lambda n: n in keys


def fleafs(node):
    return {l for l in leafs(node) if l.startswith('F:')}


def pure_bool_call_edges(facts, body, callee_pred, truth, must, allowed=None, forbid=()):
    """like bool_call_edges, but the arguments' field leaves must include `must` and (if given) be
    within `allowed` (so that a check applied to the wrong field does not count)"""
    def pred(f):
        if f[0] != 'bool' or f[2] != truth:
            return False
        n = strip(f[1])
        if n[0] != 'call' or not callee_pred(n[1]):
            return False
        ls = set()
        for a in n[2]:
            ls |= leafs(a)
        if not set(must) <= ls:
            return False
        if set(forbid) & ls:
            return False
        if allowed is not None:
            fl = {l for l in ls if l.startswith('F:')}
            if not fl <= set(allowed) | set(must):
                return False
        return True
    return guard_edges(facts, body, pred)


def agg_sites(body, adt, variants=None):
    """(bb, si, variant) of aggregate constructions of adt (optionally restricted to variants)"""
    out = []
    for bi, bl in enumerate(body.blocks):
        if bl['cl']:
            continue
        for si, s in enumerate(bl['s']):
            if s[0] == 'a' and s[2][0] == 'agg' and s[2][1]['k'] == 'adt' and s[2][1]['adt'] == adt:
                if variants is None or s[2][1]['variant'] in variants:
                    out.append((bi, si, s[2][1]['variant']))
    return out


# ---------------------------------------------------------------------------------------------
# predicate builders (a guard = predicate over edge facts); pass_edges closes them under derived
# bool locals so that `let ok = a || b; if !ok { return }` is recognised like the inline form
# ---------------------------------------------------------------------------------------------

def p_rel(opclass, left, right, either_order=True, forbid=()):
    def pred(f):
        if f[0] != 'rel':
            return False
        if forbid and (set(forbid) & (leafs(f[2]) | leafs(f[3]))):
            return False
        if opclass == 'le_or_eq':
            return rel_matches(f, 'lt', left, right, either_order) or rel_matches(f, 'eq', left, right, either_order)
        return rel_matches(f, opclass, left, right, either_order)
    return pred


def p_call(callee_pred, truth, must=(), forbid=()):
    def pred(f):
        if f[0] != 'bool' or f[2] != truth:
            return False
        n = strip(f[1])
        if n[0] != 'call' or not callee_pred(n[1]):
            return False
        ls = set()
        for a in n[2]:
            ls |= leafs(a)
        return set(must) <= ls and not (set(forbid) & ls)
    return pred


def p_is(adt, variants, subject_leafs=(), positive=True):
    def pred(f):
        if f[0] == 'is' and f[3] == adt and set(subject_leafs) <= leafs(f[1]):
            return (f[2] in variants) == positive
        if f[0] == 'isnot' and f[3] == adt and not positive and set(subject_leafs) <= leafs(f[1]):
            return set(variants) <= set(f[2])
        if f[0] == 'rel' and f[1] in ('Eq', 'Ne'):
            a, b = strip(f[2]), strip(f[3])
            for x, y in ((a, b), (b, a)):
                if y[0] == 'variant' and y[1].rsplit('::', 1)[0] == adt and set(subject_leafs) <= leafs(x):
                    vn = y[1].rsplit('::', 1)[-1]
                    holds = (f[1] == 'Eq')
                    if positive and holds and vn in variants:
                        return True
                    if not positive and not holds and set(variants) <= {vn}:
                        return True
        return False
    return pred


def p_any(*preds):
    return lambda f: any(_safe(p, f) for p in preds)


def pass_edges(F, body, pred, edge_ok=None):
    base = guard_edges(F, body, pred)
    return derived_guard_edges(body, base, edge_ok=edge_ok, pred=pred)


def unguarded(F, body, sites, pred, edge_ok=None):
    """sites still reachable without passing an edge on which `pred` holds -> [(site, path)]"""
    g = pass_edges(F, body, pred, edge_ok)
    if not g:
        seen = body.reachable(edge_ok=edge_ok)
        return [(s, body.path_to(seen, s)) for s in sites if s in seen]
    return cut_sites(body, sites, g, edge_ok)


# ---------------------------------------------------------------------------------------------
# origin pattern helpers
# ---------------------------------------------------------------------------------------------

def is_field(node, adt, name):
    """node is a read of field `name` of `adt` (possibly followed by a downcast / tuple-field projection)"""
    n = strip(node)
    if n[0] == 'cast':
        return is_field(n[1], adt, name)
    if n[0] != 'field' and n[0] != 'proj':
        return False
    fs = [e for e in n[2] if e[0] == 'f' and e[2] not in ('{tuple}',)]
    if not fs:
        return False
    # last *named struct* field on the path
    named = [e for e in fs if e[2] == adt]
    return bool(named) and named[-1][1] == name and all(e[2] in (adt, 'std::option::Option', '{tuple}') or e[1].isdigit()
                                                         for e in fs[fs.index(named[-1]):])


def is_call(node, *suffixes, nargs=None):
    n = strip(node)
    if n[0] != 'call':
        return False
    if nargs is not None and len(n[2]) != nargs:
        return False
    return any(n[1].endswith(s) for s in suffixes)


def call_args(node):
    return strip(node)[2]


def alts(node):
    """alternatives of a phi (or the node itself)"""
    n = strip(node)
    return list(n[1]) if n[0] == 'phi' else [n]


def struct_local(body, ty_prefix):
    c = [i for i, l in enumerate(body.locals) if l['ty'].startswith(ty_prefix) and not l['ty'].startswith('&')]
    return c


def field_place(local, adt, name):
    return [local, [['f', 0, name, adt, '-']]]


def returned_comparisons(F, body):
    """[(bb, fact)] for a bool-returning body that hands back a comparison directly (`x >= y` as the tail expression of an arm,
    not `if x >= y { true } else { false }`): fact = the relation that holds exactly when that return value is true"""
    out = []
    if body.locals[0]['ty'] != 'bool':
        return out
    for bi, bl in enumerate(body.blocks):
        if bl['cl']:
            continue
        for si, st in enumerate(bl['s']):
            if st[0] == 'a' and st[1] == [0, []] and not (st[2][0] == 'use' and st[2][1][0] == 'k'):
                node = F.origin.rvalue(body, st[2], bi, si, 0, None)
                for f in bool_facts(node, True):
                    if f[0] == 'rel':
                        out.append((bi, f))
        t = bl['t']
        if t[0] == 'call' and t[3] == [0, []]:
            node = F.origin.call_node(body, t, bi, 0, None)
            for f in bool_facts(node, True):
                if f[0] == 'rel':
                    out.append((bi, f))
    return out


def dhcp_t12_body(F, b):
    """where the DHCP client chooses (T1, T2): parse_ack itself, or a helper of socket::dhcpv4 it calls that hands back a
    (Duration, Duration).  -> (body, {arg index: origin of the actual argument in parse_ack})"""
    def has_sites(x):
        for bl in x.blocks:
            if bl['cl']:
                continue
            for s in bl['s']:
                if s[0] == 'a' and s[2][0] == 'agg' and s[2][1].get('k') == 'tuple' and len(s[2][2]) == 2 and \
                        all(is_place_op(o) and x.locals[o[1][0]]['ty'] == 'time::Duration' for o in s[2][2]):
                    return True
        return False
    if has_sites(b):
        return b, {}
    for bi, c, args, dest, tgt, ln in b.calls():
        cb = F.bodies.get(b.callee_name(c))
        if cb is not None and cb.key.startswith('socket::dhcpv4::') and cb.locals[0]['ty'] == '(time::Duration, time::Duration)' and has_sites(cb):
            return cb, {i + 1: simplify(F.origin.operand(b, a, bi, len(b.blocks[bi]['s']))) for i, a in enumerate(args)}
    return b, {}
