"""Shared helpers for rules."""
from .core import *


def tuple_local(body, ty):
    """the unique local of exactly this (tuple) type"""
    c = [i for i, l in enumerate(body.locals) if l['ty'] == ty]
    return c[0] if len(c) == 1 else None


def call_sites(body, *names, suffix=None, contains=None):
    """(bb, callee, args, dest, target, line) for calls whose resolved/syntactic name matches"""
    out = []
    for bi, c, args, dest, tgt, ln in body.calls():
        n = body.callee_name(c)
        if n is None:
            continue
        syn = c.get('fn')
        if n in names or syn in names or (suffix and (n.endswith(suffix) or syn.endswith(suffix))) \
                or (contains and (contains in n or contains in syn)):
            out.append((bi, c, args, dest, tgt, ln))
    return out


def const_variant_arg(body, op):
    """variant name if operand is a constant fieldless variant or a local assigned one"""
    if op[0] == 'k':
        v = op[2]
        if isinstance(v, dict) and 'adt' in v:
            return v['variant']
        return None
    l = op[1][0]
    defs = body._all_defs().get(l, [])
    if len(defs) == 1 and defs[0][2] == 'a' and defs[0][4][0] == 'agg' and defs[0][4][1]['k'] == 'adt':
        return defs[0][4][1]['variant']
    return None


# ---------------------------------------------------------------------------------------------
# guards
# ---------------------------------------------------------------------------------------------

def rel_edges(facts, body, opclass, left, right, either_order=True):
    """edges on which `L opclass R` holds, L containing all leaf labels in `left`, R in `right`.
    opclass: 'lt' (< or <=), 'gt', 'eq', 'ne', 'le_or_eq' (lt or eq), 'any'"""
    def pred(f):
        if opclass == 'le_or_eq':
            return rel_matches(f, 'lt', left, right, either_order) or rel_matches(f, 'eq', left, right, either_order)
        return rel_matches(f, opclass, left, right, either_order)
    return guard_edges(facts, body, pred)


def bool_call_edges(facts, body, callee_pred, truth, arg_leafs=()):
    """edges on which a bool-returning call satisfying callee_pred(name) has the given truth"""
    def pred(f):
        if f[0] != 'bool' or f[2] != truth:
            return False
        n = strip(f[1])
        if n[0] != 'call' or not callee_pred(n[1]):
            return False
        if arg_leafs:
            ls = set()
            for a in n[2]:
                ls |= leafs(a)
            return set(arg_leafs) <= ls
        return True
    return guard_edges(facts, body, pred)


def variant_edges(facts, body, subject_leafs, variants, positive=True):
    """edges of discriminant switches on a subject with the given leaves, where the discriminant is
    (positive) one of `variants` / (negative) known not to be any of them"""
    def pred(f):
        if f[0] == 'is':
            if not set(subject_leafs) <= leafs(f[1]):
                return False
            return (f[2] in variants) == positive
        if f[0] == 'isnot':
            if not set(subject_leafs) <= leafs(f[1]):
                return False
            if positive:
                return False
            return set(variants) <= set(f[2])
        if f[0] == 'rel' and f[1] in ('Eq', 'Ne'):
            # PartialEq against a constant variant
            a, b = strip(f[2]), strip(f[3])
            for x, y in ((a, b), (b, a)):
                if y[0] == 'variant' and set(subject_leafs) <= leafs(x):
                    vn = y[1].rsplit('::', 1)[-1]
                    holds = (f[1] == 'Eq')
                    if positive and holds and vn in variants:
                        return True
                    if not positive and not holds and set(variants) <= {vn}:
                        return True
        return False
    return guard_edges(facts, body, pred)


def bool_local_switches(body, l):
    """(bb, true_target, false_target, labels) for switches whose operand is local l or a single-def copy"""
    out = []
    copies = {l}
    for ll, defs in body._all_defs().items():
        if len(defs) == 1 and defs[0][2] == 'a' and defs[0][3] == [] and defs[0][4][0] == 'use' \
                and is_place_op(defs[0][4][1]) and defs[0][4][1][1] == [l, []]:
            copies.add(ll)
    for bi, bl in enumerate(body.blocks):
        if bl['cl'] or bl['t'][0] != 'switch':
            continue
        t = bl['t']
        if is_place_op(t[1]) and t[1][1][1] == [] and t[1][1][0] in copies and t[4] == 'bool':
            tt = ft = None
            for tb, lab in body.succ_edges(bi):
                if lab[1] == 0:
                    ft = (bi, tb, lab)
                elif lab[1] == 'else' or lab[1] == 1:
                    tt = (bi, tb, lab)
            out.append((bi, tt, ft))
    return out


def derived_guard_edges(body, base_edges, edge_ok=None, polarity=True):
    """close a set of pass-edges under: bool local L all of whose `true` (polarity) stores are
    unreachable once the pass-edges are cut (and which has no non-constant store) => the
    `true` out-edges of switches on L are pass-edges too."""
    edges = set(base_edges)
    # candidate bool locals: assigned constants only
    cands = {}
    for l, defs in body._all_defs().items():
        if body.locals[l]['ty'] != 'bool' or l <= body.nargs:
            continue
        ok = True
        tstores = []
        for (bi, si, kind, pr, rv) in defs:
            if kind != 'a' or pr != []:
                ok = False
                break
            if rv[0] == 'use' and rv[1][0] == 'k' and isinstance(rv[1][2], bool):
                if rv[1][2] == polarity:
                    tstores.append(bi)
            else:
                ok = False
                break
        if ok and tstores:
            cands[l] = tstores
    changed = True
    while changed:
        changed = False
        seen = body.reachable(cut_edges=edges, edge_ok=edge_ok)
        for l, tstores in list(cands.items()):
            if all(b not in seen for b in tstores):
                for (bi, tt, ft) in bool_local_switches(body, l):
                    e = tt if polarity else ft
                    if e is not None and e not in edges:
                        edges.add(e)
                        changed = True
                del cands[l]
    return edges


def cut_sites(body, sites, edges, edge_ok=None, start=0):
    """sites (blocks) still reachable from start once edges are removed -> list of (site, path)"""
    seen = body.reachable(cut_edges=set(edges), edge_ok=edge_ok, start=start)
    return [(s, body.path_to(seen, s)) for s in sites if s in seen]


def feasible_sites(body, sites, edge_ok):
    seen = body.reachable(edge_ok=edge_ok)
    return [s for s in sites if s in seen]


def fkey(adt, field, root=1):
    """normalised place key of field `field` of struct `adt` behind reference argument `root`"""
    return (('d', root), (('f', field, adt, '-'),))


def always_followed_by(body, site_bb, callee_names, edge_ok=None):
    """T2 pairing: every path from (after) site_bb to a return passes a call to one of callee_names.
    returns [] if it holds, else a witness path to a return block avoiding those calls."""
    blockers = {bi for bi, c, *_ in body.calls() if (body.callee_name(c) in callee_names)}
    tgt = body.blocks[site_bb]['t']
    starts = [tb for tb, _ in body.succ_edges(site_bb)]
    bad = []
    for st in starts:
        if st in blockers:
            continue
        seen = body.reachable(cut_blocks=blockers, start=st, edge_ok=edge_ok)
        for rb in body.return_blocks():
            if rb in seen:
                bad.append([site_bb] + body.path_to(seen, rb))
                break
    return bad


def must_write_fields(facts, body, adt):
    """fields of `adt` (behind arg 1) stored on *every* path of body: field -> list of store blocks.
    Only direct stores `(*_1).f = ...` and call-destination stores are considered."""
    stores = {}
    for bi, bl in enumerate(body.blocks):
        if bl['cl']:
            continue
        for si, s in enumerate(bl['s']):
            if s[0] == 'a':
                np_ = body.norm(s[1])
                if np_[0] == ('d', 1) and len(np_[1]) == 1 and np_[1][0][0] == 'f' and np_[1][0][2] == adt:
                    stores.setdefault(np_[1][0][1], []).append((bi, si))
        t = bl['t']
        if t[0] == 'call':
            np_ = body.norm(t[3])
            if np_[0] == ('d', 1) and len(np_[1]) == 1 and np_[1][0][0] == 'f' and np_[1][0][2] == adt:
                stores.setdefault(np_[1][0][1], []).append((bi, 'T'))
    out = {}
    for f, sts in stores.items():
        blocks = {b for b, _ in sts}
        seen = body.reachable(cut_blocks=blocks)
        # a store block that is itself the start is still "passed"
        if all(rb not in seen or rb in blocks for rb in body.return_blocks()) or 0 in blocks:
            out[f] = sts
    return out
