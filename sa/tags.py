"""Cross-property tagging: a structural clause is a necessary condition of every property listed here, not only of the
property whose rule file it lives in (a broken checksum fold breaks C08 *and* the well-formedness of every emitted frame,
C10; a wrong reassembly key breaks C12 *and* datagram delivery, C09 ...).  Applied after all rule modules are loaded."""

EXTRA = {
    # checksums
    'R08.1': ['C10'], 'R08.1c': ['C10'], 'R08.2': ['C01', 'C09', 'C10'], 'R08.3': ['C01', 'C09'], 'R08.4': ['C10', 'C01', 'C09'],
    'R08.5': ['C10', 'C03'], 'R08.5b': ['C10'], 'R08.6': ['C09'],
    # IPv4 fragmentation / reassembly
    'R12.1': ['C10'], 'R12.2': ['C09', 'C10'], 'R12.3': ['C09', 'C03'], 'R12.4': ['C09'], 'R12.5': ['C09', 'C10'], 'R12.6': ['C09', 'C03'],
    # DNS / DHCP acceptance is also "only traffic addressed to the socket"
    'R19.1': ['C11'], 'R19.2': ['C09'], 'R18.1': ['C11'],
    # emission limits / nested views
    'R06.10': ['C03', 'C10', 'C07'], 'R06.9': ['C08'], 'R06.3b': ['C08', 'C20'], 'R07.10': ['C11'],
    # TCP: window fields are shared between the receiver (C04) and sender (C05) properties, and with stream integrity (C01)
    'R05.3': ['C04'], 'R05.1': ['C01'], 'R04.1': ['C05'], 'R04.5': ['C05'], 'R04.6': ['C05'], 'R05.9': ['C01'], 'R05.7': ['C04'],
    'R17.3': ['C01', 'C02'], 'R17.4': ['C04'], 'R17.1': ['C01', 'C02'], 'R17.5b': ['C13'], 'R17.6': ['C02', 'C13'],
    'R20.6': ['C08'], 'R08.7': ['C06'], 'R08.7b': ['C06'], 'R01.4': ['C02', 'C17'], 'R02.1': ['C01'], 'R05.10': ['C04'], 'R07.1': ['C19'], 'R20.11': ['C11'], 'R11.2': ['C03'], 'R11.3': ['C03'], 'R07.13': ['C19'], 'R02.8': ['C01'], 'R02.2': ['C17'], 'R02.3': ['C17'],
    # buffers under the sockets
    'R14.1': ['C09', 'C04', 'C05'], 'R14.1b': ['C04', 'C05', 'C02'], 'R14.2': ['C01', 'C09'], 'R14.4': ['C01'], 'R14.5': ['C01'], 'R14.6': ['C01'], 'R14.7': ['C01'],
    'R15.1': ['C02'], 'R15.3': ['C04', 'C02'], 'R15.4': ['C01', 'C04'], 'R15.5': ['C04'],
    # link layer / neighbor discovery timing is also poll_at consistency
    'R16.2': ['C13', 'C10'], 'R16.4': ['C13'], 'R16.8': ['C13'], 'R16.1': ['C10'], 'R16.9': ['C10'],
    # egress
    'R10.1': ['C20'], 'R10.3': ['C18'], 'R13.6': ['C09'], 'R13.3': ['C02'], 'R13.1': ['C02', 'C18'],
    # 6LoWPAN
    'R20.1': ['C12', 'C10', 'C09'], 'R20.2': ['C03'], 'R20.3': ['C03'], 'R06.1': ['C10', 'C03'], 'R06.1c': ['C10', 'C03'], 'R06.4': ['C10', 'C09'],
    'R03.4': ['C07'], 'R03.5': ['C11'], 'R03.7': ['C10'],
    # DHCP
    'R18.3': ['C10'], 'R18.4': ['C13', 'C10'], 'R18.5': ['C13'], 'R18.7': ['C13'],
}


def apply(rules):
    for r in rules:
        for p in EXTRA.get(r['id'], ()):
            if p not in r['props']:
                r['props'].append(p)
