"""Bit-provenance evaluation of wire accessor bodies.

A value is a list of abstract bits (LSB first).  Each bit is one of
  0 / 1                          constant
  ('b', byte, bit)               bit `bit` of buffer byte `byte` (as found when the accessor starts)
  ('a', argno, bit)              bit of an argument
  ('m', frozenset(atoms))        an unknown function of the listed atoms ('b'/'a' tuples)

Getter: the returned value's bits in terms of buffer bits.  Setter: for every byte it stores, the stored
bits in terms of the old buffer bits and the argument bits.  Nothing is executed: the evaluation is a
transfer function over the origin tree of the MIR.
"""
import json
from .core import *
from .wirelib import range_bounds, const_of, ret_origin, _drop_partial_defs

READS = {'read_u16': 2, 'read_u24': 3, 'read_u32': 4, 'read_u48': 6, 'read_u64': 8, 'read_i16': 2, 'read_i32': 4, 'read_i64': 8}
WRITES = {'write_u16': 2, 'write_u24': 3, 'write_u32': 4, 'write_u48': 6, 'write_u64': 8, 'write_i16': 2, 'write_i32': 4, 'write_i64': 8}
UNKNOWN = ('m', frozenset([('?',)]))


class Undecided(Exception):
    pass


def atoms(bit):
    if bit in (0, 1):
        return frozenset()
    if bit[0] == 'm':
        return bit[1]
    return frozenset([bit])


def mix(*bits):
    s = frozenset()
    for b in bits:
        s |= atoms(b)
    return ('m', s) if s else 0


def _is_buffer(n, adt, depth=0):
    """as_ref/as_mut(self.buffer) possibly behind refs/derefs.  `after(x, call)` is the same place after a call
    that may have written through it; a phi is the buffer when one alternative is and the others are only
    partial definitions (element stores) or such clobbered versions of a local reference."""
    if depth > 12:
        return False
    n = strip(n)
    while n[0] in ('ref', 'deref') and len(n) >= 2:
        n = strip(n[1])
    if n[0] == 'after':
        return _is_buffer(n[1], adt, depth + 1)
    if n[0] == 'phi':
        yes = 0
        for a in n[1]:
            a0 = strip(a)
            if a0 == ('opaque', 'partial-def'):
                continue
            if _is_buffer(a0, adt, depth + 1):
                yes += 1
                continue
            if a0[0] == 'after' and strip(a0[1])[0] == 'field' and strip(a0[1])[1][0] == 'local' and not strip(a0[1])[2]:
                continue
            return False
        return yes > 0
    if n[0] == 'field' and n[2]:
        labs = [p for p in n[2] if p[0] != '*']
        if labs and labs[-1][0] == 'f' and labs[-1][1] == 'buffer':
            return True       # strip() already looked through as_ref; trailing derefs: `&mut T` buffers
    if n[0] == 'call' and n[1].rsplit('::', 1)[-1] in ('as_ref', 'as_mut') and len(n[2]) == 1:
        return _is_buffer(n[2][0], adt, depth + 1)
    return False


def _slice_of_buffer(F, n, adt):
    """(start, end) constants when n is buffer[start..end] (index / index_mut call), else None"""
    n = strip(n)
    while n[0] in ('ref', 'deref') and len(n) >= 2:
        n = strip(n[1])
    if n[0] == 'call' and n[1].rsplit('::', 1)[-1] in ('index', 'index_mut') and len(n[2]) == 2:
        if not _is_buffer(n[2][0], adt):
            return None
        rb = range_bounds(F, n[2][1])
        if rb is None:
            return None
        kind, s, e = rb
        if kind != 'Range':
            return None
        from .wirelib import expand
        cs, ce = const_of(expand(F, s, adt)), const_of(expand(F, e, adt))
        if cs is None or ce is None:
            return None
        return (cs, ce)
    return None


class Eval:
    def __init__(self, F, adt, bytemap=None, sub_hook=None):
        self.F = F
        self.adt = adt
        self.bytemap = bytemap or {}     # byte -> bits currently stored (setter, after earlier stores)
        self.sub_hook = sub_hook         # node -> number of significant bits of `x - K` (from dominating guards)
        self.opaque_calls_ok = False

    def byte(self, k):
        if k in self.bytemap:
            return list(self.bytemap[k])
        return [('b', k, i) for i in range(8)]

    def ev(self, n, width, depth=0):
        if depth > 40:
            raise Undecided('depth')
        n = strip(n)
        k = n[0]
        if k == 'const':
            try:
                v = json.loads(n[1])
            except Exception:
                raise Undecided('const ' + str(n[1])[:20])
            if isinstance(v, bool):
                v = int(v)
            if not isinstance(v, int):
                raise Undecided('const')
            v &= (1 << width) - 1
            return [(v >> i) & 1 for i in range(width)]
        if k == 'named':
            return self.ev(n[2] if len(n) > 2 else n[1], width, depth + 1)
        if k == 'arg':
            return [('a', n[1], i) for i in range(width)]
        if k == 'cast':
            src_w = self.width_of(n[1], default=width)
            bits = self.ev(n[1], src_w, depth + 1)
            return (bits + [0] * width)[:width]
        if k == 'proj':
            base, path = n[1], n[2]
            if _is_buffer(base, self.adt) and len(path) == 1 and path[0][0] == 'i' and isinstance(path[0][1], int):
                return (self.byte(path[0][1]) + [0] * width)[:width]
            b0 = strip(base)
            if b0[0] == 'arg' and all(p[0] in ('f', 'dc', '*') for p in path):
                return [('a', b0[1], i) for i in range(width)]      # the raw value inside a newtype / flags argument
            raise Undecided('proj')
        if k == 'un':
            if n[1] == 'Not':
                bits = self.ev(n[2], width, depth + 1)
                out = []
                for b in bits:
                    out.append(1 - b if b in (0, 1) else mix(b))
                return out
            raise Undecided('un ' + n[1])
        if k == 'bin':
            op = n[1]
            if op in ('BitAnd', 'BitOr', 'BitXor'):
                a = self.ev(n[2], width, depth + 1)
                b = self.ev(n[3], width, depth + 1)
                return [self.bitop(op, x, y) for x, y in zip(a, b)]
            if op in ('Shl', 'Shr', 'Mul', 'Div'):
                c = const_of(n[3])
                if c is None:
                    raise Undecided(op + ' by non-constant')
                if op in ('Mul', 'Div'):
                    if c <= 0 or c & (c - 1):
                        raise Undecided(op + ' by non power of two')
                    c = c.bit_length() - 1
                    op = 'Shl' if op == 'Mul' else 'Shr'
                a = self.ev(n[2], width, depth + 1)
                if op == 'Shl':
                    return ([0] * c + a)[:width]
                return (a[c:] + [0] * c)[:width]
            if op in ('Ne', 'Eq', 'Lt', 'Le', 'Gt', 'Ge'):
                wa = self.width_of(n[2], default=32)
                a = self.ev(n[2], wa, depth + 1)
                b = self.ev(n[3], wa, depth + 1)
                if op == 'Ne' and all(x == 0 for x in b):
                    nz = [x for x in a if x != 0]
                    if len(nz) == 1:
                        return [nz[0]] + [0] * (width - 1)
                return [mix(*(a + b))] + [0] * (width - 1)
            if op in ('Add', 'Sub'):
                a = self.ev(n[2], width, depth + 1)
                b = self.ev(n[3], width, depth + 1)
                m = mix(*(a + b))
                if op == 'Sub' and self.sub_hook is not None:
                    nb = self.sub_hook(n)
                    if nb is not None:
                        return ([m] * nb + [0] * width)[:width]
                return [m] * width
            raise Undecided('bin ' + op)
        if k == 'call':
            nm = n[1]
            last = nm.rsplit('::', 1)[-1]
            if last in READS and len(n[2]) == 1:
                r = _slice_of_buffer(self.F, n[2][0], self.adt)
                if r is None:
                    raise Undecided('read of non-constant range')
                nb = READS[last]
                if r[1] - r[0] != nb:
                    raise Undecided('range width')
                little = 'LittleEndian' in nm
                bits = []
                order = range(r[0], r[1]) if little else range(r[1] - 1, r[0] - 1, -1)
                for byte in order:
                    bits += self.byte(byte)
                return (bits + [0] * width)[:width]
            if last in ('from', 'into') and len(n[2]) == 1:
                # value-level conversions between an integer and a field enum / newtype (enum_with_unknown!,
                # From<u8>): a bijection on the raw value for the purposes of which bits carry the field
                inner_w = self.width_of(n[2][0], default=width)
                bits = self.ev(n[2][0], inner_w, depth + 1)
                return (bits + [0] * width)[:width]
            OPS = {'shr': 'Shr', 'shl': 'Shl', 'bitand': 'BitAnd', 'bitor': 'BitOr', 'bitxor': 'BitXor'}
            if last in OPS and len(n[2]) == 2 and '::ops::' in nm:
                return self.ev(('bin', OPS[last], n[2][0], n[2][1]), width, depth + 1)
            if not self.opaque_calls_ok:
                raise Undecided('call ' + last)
            # any other call: an unknown function of its arguments (dependence only; setters' value side)
            deps = []
            for a in n[2]:
                w = self.width_of(a, default=8) or 8
                deps += self.ev(a, w, depth + 1)
            m = mix(*deps)
            return [m] * width
        if k == 'phi':
            alts = [self.ev(a, width, depth + 1) for a in n[1]]
            out = []
            for i in range(width):
                col = [a[i] for a in alts]
                if all(c == col[0] for c in col):
                    out.append(col[0])
                else:
                    # a bit that differs between alternatives is (control-)modified; keep data atoms
                    s = frozenset()
                    for c in col:
                        s |= atoms(c)
                    out.append(('m', s | frozenset([('ctl',)])))
            return out
        if k in ('ref', 'deref', 'after') and len(n) >= 2:
            return self.ev(n[1], width, depth + 1)
        raise Undecided(k)

    def bitop(self, op, x, y):
        if op == 'BitAnd':
            if x == 0 or y == 0:
                return 0
            if x == 1:
                return y
            if y == 1:
                return x
        elif op == 'BitOr':
            if x == 1 or y == 1:
                return 1
            if x == 0:
                return y
            if y == 0:
                return x
        else:
            if x == 0:
                return y
            if y == 0:
                return x
        if x == y and op != 'BitXor':
            return x
        return mix(x, y)

    def width_of(self, n, default=8):
        n = strip(n)
        if n[0] == 'cast' and len(n) > 2 and isinstance(n[2], str):
            return TYW.get(n[2], default)
        if n[0] == 'proj':
            return 8
        if n[0] == 'call':
            last = n[1].rsplit('::', 1)[-1]
            if last in READS:
                return {2: 16, 3: 32, 4: 32, 6: 64, 8: 64}[READS[last]]
            if last in ('from', 'into') and len(n[2]) == 1:
                return self.width_of(n[2][0], default)
        if n[0] == 'bin':
            if n[1] in ('Ne', 'Eq', 'Lt', 'Le', 'Gt', 'Ge'):
                return 1
            return self.width_of(n[2], default)
        if n[0] == 'un':
            return self.width_of(n[2], default)
        if n[0] == 'phi':
            for a in n[1]:
                w = self.width_of(a, None)
                if w:
                    return w
        if n[0] == 'arg':
            return default
        if n[0] in ('ref', 'deref', 'after') and len(n) >= 2:
            return self.width_of(n[1], default)
        return default


TYW = {'u8': 8, 'u16': 16, 'u32': 32, 'u64': 64, 'usize': 64, 'i8': 8, 'i16': 16, 'i32': 32, 'i64': 64, 'bool': 1,
       'isize': 64}


def ty_width(ty):
    return TYW.get(ty)


def _expand(F, n, adt):
    from .wirelib import expand
    try:
        return simplify(expand(F, n, adt))
    except Exception:
        return n


def getter_bits(F, body, adt):
    """bits of the returned value"""
    r = simplify(ret_origin(F, body))
    ty = body.locals[0]['ty']
    w = ty_width(ty)
    ev = Eval(F, adt)
    if w is None:
        # enums / newtypes built by From<uN>: evaluate through the conversion
        r0 = strip(r)
        if r0[0] == 'call' and r0[1].rsplit('::', 1)[-1] in ('from', 'into') and len(r0[2]) == 1:
            w = ev.width_of(r0[2][0], 8)
            return ev.ev(r0[2][0], w)
        raise Undecided('return type ' + ty[:30])
    return ev.ev(r, w)


def _bytes_of_int(n):
    """(little_endian, value node) when n is `&value.to_le_bytes()` / `&value.to_be_bytes()`"""
    n = strip(n)
    while n[0] in ('ref', 'deref', 'after') and len(n) >= 2:
        n = strip(n[1])
    if n[0] == 'cast':
        return _bytes_of_int(n[1])
    if n[0] == 'call' and len(n[2]) == 1:
        last = n[1].rsplit('::', 1)[-1]
        if last in ('to_le_bytes', 'to_be_bytes') and 'core::num::' in n[1]:
            return (last == 'to_le_bytes', n[2][0])
    return None


def setter_stores(F, body, adt, only_blocks=None, sub_hook=None, ignore_calls=(), lenient=False, submaps=None):
    """dict byte -> stored bits, for a setter whose stores are element stores / write_uN on constant ranges.
    Raises Undecided on anything else that touches the buffer.
    lenient=True (used for "which header bits does an emit define at all"): stores that cannot be evaluated are
    skipped, bulk stores on constant ranges define whole bytes, calls of methods found in `submaps` contribute the
    bits they define, later stores compose over earlier ones.  The result then is a may-define map."""
    og = F.origin
    DEF = ('m', frozenset([('a', 0, 0)]))
    bytemap = {}
    ev = Eval(F, adt, bytemap)
    order = list(range(len(body.blocks)))
    touched = False
    for bi in order:
        bl = body.blocks[bi]
        if bl['cl'] or (only_blocks is not None and bi not in only_blocks):
            continue
        hook = (lambda node, bi=bi: sub_hook(node, bi)) if sub_hook else None
        for si, s in enumerate(bl['s']):
            if s[0] != 'a':
                continue
            root, path = s[1]
            if not path or path[0] != '*':
                continue
            base = og.operand(body, ['c', [root, []]], bi, si)
            if not _is_buffer(base, adt):
                # a store through some other reference (e.g. an iterator element of the buffer)
                b0 = strip(base)
                if 'buffer' in show(b0) and not lenient:
                    raise Undecided('store through derived reference')
                continue
            if len(path) != 2 or path[1][0] != 'i':
                if lenient:
                    continue
                raise Undecided('store shape')
            from .wirelib import expand
            idx = const_of(expand(F, simplify(og.operand(body, ['c', [path[1][1], []]], bi, si)), adt))
            if idx is None:
                if lenient:
                    continue
                raise Undecided('store at non-constant index')
            rv = simplify(og.rvalue(body, s[2], bi, si, 0, None))
            rv = _expand(F, rv, adt)
            if rv is None:
                raise Undecided('no rvalue origin')
            if idx in bytemap and not lenient:
                raise Undecided('byte stored twice')
            e_ = Eval(F, adt, dict(bytemap), hook)
            e_.opaque_calls_ok = True
            try:
                bits = e_.ev(rv, 8)
            except Undecided:
                if not lenient:
                    raise
                bits = [mix(x, DEF) if x not in (0, 1) else DEF for x in e_.byte(idx)]     # unknown: may keep old content
            bytemap[idx] = bits
            touched = True
        t = bl['t']
        if t[0] == 'call':
            c = t[1]
            nm = body.callee_name(c) or (c.get('fn') if isinstance(c, dict) else '') or ''
            last = nm.rsplit('::', 1)[-1]
            args = t[2]
            si = len(bl['s'])
            if last in WRITES and len(args) == 2:
                dst = og.operand(body, args[0], bi, si)
                r = _slice_of_buffer(F, dst, adt)
                if r is None:
                    if 'buffer' in show(strip(dst)) and not lenient:
                        raise Undecided('write to non-constant range')
                    continue
                nb = WRITES[last]
                if r[1] - r[0] != nb:
                    raise Undecided('range width')
                val = _expand(F, simplify(og.operand(body, args[1], bi, si)), adt)
                w = {2: 16, 3: 32, 4: 32, 6: 64, 8: 64}[nb]
                e_ = Eval(F, adt, dict(bytemap), hook)
                e_.opaque_calls_ok = True
                try:
                    bits = e_.ev(val, w)
                except Undecided:
                    if not lenient:
                        raise
                    bits = None
                little = 'LittleEndian' in nm
                for j in range(nb):
                    byte = r[0] + j if little else r[1] - 1 - j
                    if byte in bytemap and not lenient:
                        raise Undecided('byte stored twice')
                    if bits is None:
                        bytemap[byte] = [mix(x, DEF) if x not in (0, 1) else DEF for x in e_.byte(byte)]
                        continue
                    bytemap[byte] = bits[8 * j:8 * j + 8]
                touched = True
            elif last in ('copy_from_slice', 'clone_from_slice') and len(args) == 2 and _bytes_of_int(og.operand(body, args[1], bi, si)) is not None \
                    and _slice_of_buffer(F, og.operand(body, args[0], bi, si), adt) is not None:
                # data.copy_from_slice(&value.to_le_bytes()): a write_uN in disguise
                little, val = _bytes_of_int(og.operand(body, args[1], bi, si))
                r = _slice_of_buffer(F, og.operand(body, args[0], bi, si), adt)
                nb = r[1] - r[0]
                val = _expand(F, simplify(val), adt)
                e_ = Eval(F, adt, dict(bytemap), hook)
                e_.opaque_calls_ok = True
                try:
                    if e_.width_of(val, default=8 * nb) != 8 * nb:
                        raise Undecided('copy width')
                    bits = e_.ev(val, 8 * nb)
                except Undecided:
                    if not lenient:
                        raise
                    bits = None
                for j in range(nb):
                    byte = r[0] + j if little else r[1] - 1 - j
                    if byte in bytemap and not lenient:
                        raise Undecided('byte stored twice')
                    if bits is None:
                        bytemap[byte] = [mix(x, DEF) if x not in (0, 1) else DEF for x in e_.byte(byte)]
                    else:
                        bytemap[byte] = bits[8 * j:8 * j + 8]
                touched = True
            elif last in ('copy_from_slice', 'fill', 'clone_from_slice', 'swap', 'reverse'):
                dst = og.operand(body, args[0], bi, si) if args else None
                if dst is not None and 'buffer' in show(strip(dst)):
                    if not lenient:
                        raise Undecided('bulk store')
                    r = _slice_of_buffer(F, dst, adt)
                    if r is not None and last in ('copy_from_slice', 'fill', 'clone_from_slice'):
                        # a source computed from the buffer itself may carry the old content along
                        from_buf = len(args) > 1 and any('buffer' in l for l in leafs(og.operand(body, args[1], bi, si)))
                        for byte in range(r[0], r[1]):
                            bytemap[byte] = [mix(x, DEF) if x not in (0, 1) else DEF for x in ev.byte(byte)] if from_buf else [DEF] * 8
                        touched = True
            elif submaps is not None and nm in submaps and nm not in ignore_calls:
                for byte, bits in submaps[nm].items():
                    cur = bytemap.get(byte, [('b', byte, i) for i in range(8)])
                    new = list(cur)
                    for i, x in enumerate(bits):
                        if x == ('b', byte, i):
                            continue
                        if x in (0, 1) or not any(a[0] == 'b' for a in atoms(x)):
                            new[i] = x if x in (0, 1) else DEF
                        else:
                            # the callee mixes the old bit: old as seen by the callee is our current value
                            new[i] = cur[i] if cur[i] in (0, 1) or not any(a[0] == 'b' for a in atoms(cur[i])) else mix(cur[i], DEF)
                    bytemap[byte] = new
                touched = True
            elif nm.startswith('wire::') and '::set_' in nm and nm not in ignore_calls:
                if not lenient:
                    raise Undecided('delegates to another setter')
    if not touched:
        if lenient:
            return {}
        raise Undecided('no store found')
    return bytemap


def getter_footprint(bits):
    s = set()
    for b in bits:
        for a in atoms(b):
            if a[0] == 'b':
                s.add((a[1], a[2]))
    return s


def setter_modified(bytemap):
    """(modified bit set, arg-carrying bit set)"""
    mod, carry = set(), set()
    for k, bits in bytemap.items():
        for i, b in enumerate(bits):
            if b == ('b', k, i):
                continue
            mod.add((k, i))
            if any(a[0] == 'a' or a[0] == 'ctl' for a in atoms(b)):
                carry.add((k, i))
    return mod, carry
