"""Rules added after the second round of independently seeded changes (TCP edges, timers, checksums, siblings)."""
import re
from ..framework import rule
from ..core import *
from ..lib import *
from ..wirelib import ret_origin, range_bounds
from .c04 import const_int
from .c14 import store_origin, untuple

SOCK = 'socket::tcp::Socket'
REPR = 'wire::tcp::Repr'
TIMER = 'socket::tcp::Timer'
IF = 'iface::interface::Interface'
IFI = 'iface::interface::InterfaceInner'
PB = 'storage::packet_buffer::PacketBuffer'


def _ls(n):
    return leafs(n)


def _is_seg_start(n):
    ls = _ls(n)
    return f"F:{REPR}.seq_number" in ls and f"F:{REPR}.payload" not in ls and not any(l.startswith(f"F:{SOCK}.") for l in ls)


def _is_seg_end(n):
    ls = _ls(n)
    return f"F:{REPR}.seq_number" in ls and f"F:{REPR}.payload" in ls and not any(l.startswith(f"F:{SOCK}.") for l in ls)


def _is_win_start(n):
    ls = _ls(n)
    return f"F:{SOCK}.remote_seq_no" in ls and f"F:{SOCK}.remote_last_win" not in ls and not any(l.startswith(f"F:{REPR}.") for l in ls)


def _is_win_end(n):
    ls = _ls(n)
    return f"F:{SOCK}.remote_seq_no" in ls and f"F:{SOCK}.remote_last_win" in ls and not any(l.startswith(f"F:{REPR}.") for l in ls)


def _rel(f, op, pa, pb):
    """fact is `a op b` (or the mirrored form) with pa(a) and pb(b)"""
    if f[0] != 'rel':
        return False
    MIR = {'Lt': 'Gt', 'Gt': 'Lt', 'Le': 'Ge', 'Ge': 'Le', 'Eq': 'Eq', 'Ne': 'Ne'}
    if f[1] == op and pa(f[2]) and pb(f[3]):
        return True
    if f[1] == MIR[op] and pa(f[3]) and pb(f[2]):
        return True
    return False


@rule('R17.4b', ['C17', 'C04'], floor=3, clause='segment acceptability is strict at the right window edge: a segment is "in window" only behind SEG.SEQ < window_end, SEG.END <= window_end, or SEG.SEQ == RCV.NXT for an empty window')
def r17_4b(ctx):
    F = ctx.F
    b = ctx.method(SOCK, 'process')
    # the acceptability flag: the bool local with the most constant-`true` stores that lie behind a comparison of the
    # segment's sequence numbers with the receive window (identified by shape, not by its name)
    seqwin = lambda f: f[0] == 'rel' and ((_is_seg_start(f[2]) or _is_seg_end(f[2]) or _is_win_start(f[2]) or _is_win_end(f[2])) and
                                           (_is_seg_start(f[3]) or _is_seg_end(f[3]) or _is_win_start(f[3]) or _is_win_end(f[3])))
    ge_sw = guard_edges(F, b, seqwin)
    behind = set()
    for (bi, tb, lab) in ge_sw:
        behind |= set(b.reachable(start=tb))
    cand = {}
    for bi, bl in enumerate(b.blocks):
        if bl['cl']:
            continue
        for si, s in enumerate(bl['s']):
            if s[0] == 'a' and s[1][1] == [] and b.locals[s[1][0]]['ty'] == 'bool' and s[2][0] == 'use' and s[2][1][0] == 'k' and s[2][1][2] is True \
                    and bi in behind:
                cand.setdefault(s[1][0], []).append(bi)
    ctx.need(cand, "a bool flag set to true behind sequence/window comparisons in tcp::Socket::process")
    L = max(cand, key=lambda l: len(cand[l]))
    sites = cand[L]
    ctx.need(len(sites) >= 3, f"`in window = true` sites (found {len(sites)})")
    pred = p_any(lambda f: _rel(f, 'Eq', _is_win_start, _is_seg_start),
                 lambda f: _rel(f, 'Lt', _is_seg_start, _is_win_end),
                 lambda f: _rel(f, 'Le', _is_seg_end, _is_win_end))
    for s in sites:
        bad = unguarded(F, b, [s], pred)
        if bad:
            ctx.bad("process|segment_in_window|right-edge", "a segment is accepted as in-window without SEG.SEQ < window_end / SEG.END <= window_end "
                    "(a zero-length segment - e.g. a RST - exactly at the right edge would be honoured)", body=b, bb=s, path=bad[0][1])
        else:
            ctx.ok(('in-window', s), sample=dict(site_line=b.block_line(s), guard='SEG.SEQ < window_end | SEG.END <= window_end | SEG.SEQ == RCV.NXT'))


@rule('R13.7', ['C13', 'C02', 'C17'], floor=4, clause='a TCP timer fires at the very instant its poll_at reports (timestamp >= deadline, not >): should_retransmit / should_close / should_keep_alive / should_zero_window_probe')
def r13_7(ctx):
    F = ctx.F
    for nm in ('should_retransmit', 'should_close', 'should_keep_alive', 'should_zero_window_probe'):
        b = ctx.method(TIMER, nm)
        facts = []
        for bi, bl in enumerate(b.blocks):
            if bl['cl'] or bl['t'][0] != 'switch':
                continue
            for tb, lab, f in cond_facts(F, b, bi):
                if f[0] == 'rel' and (('A:2' in leafs(f[2])) != ('A:2' in leafs(f[3]))):
                    facts.append((bi, tb, f))
        direct = [(bi, f) for bi, f in returned_comparisons(F, b) if ('A:2' in leafs(f[2])) != ('A:2' in leafs(f[3]))]
        ctx.need(facts or direct, f"comparison of the timestamp with a deadline in Timer::{nm}")
        # the edge(s) leading to `true`
        trues = [bi for bi, f in direct]
        for bi, bl in enumerate(b.blocks):
            if bl['cl']:
                continue
            for s in bl['s']:
                if s[0] == 'a' and s[1] == [0, []] and s[2][0] == 'use' and s[2][1][0] == 'k' and s[2][1][2] is True:
                    trues.append(bi)
        ctx.need(trues, f"`true` result in Timer::{nm}")
        strict = []
        for (bi, tb, f) in facts:
            ts_left = 'A:2' in leafs(f[2])
            # edge on which "timestamp reached the deadline"
            reached = (ts_left and f[1] in ('Ge', 'Gt')) or (not ts_left and f[1] in ('Le', 'Lt'))
            if not reached:
                continue
            seen = b.reachable(start=tb)
            if any(t in seen for t in trues):
                if (ts_left and f[1] == 'Gt') or (not ts_left and f[1] == 'Lt'):
                    strict.append(bi)
        for (bi, f) in direct:
            ts_left = 'A:2' in leafs(f[2])
            if (ts_left and f[1] == 'Gt') or (not ts_left and f[1] == 'Lt'):
                strict.append(bi)
        if strict:
            ctx.bad(f"Timer::{nm}|strict", f"Timer::{nm} requires the clock to be strictly past the deadline: a poll at exactly the instant reported by "
                    "poll_at does nothing (the event loop spins or the action is delayed)", body=b, bb=strict[0])
        else:
            ctx.ok((nm, 'fires-at-deadline'), sample=dict(fn=f"Timer::{nm}", test='timestamp >= deadline'))


# ------------------------------------------------------------------------------------------------

@rule('R05.6', ['C05', 'C01', 'C04'], floor=10, clause='SND.UNA only moves to an acknowledgment number that passed both acceptability tests (SND.UNA <= SEG.ACK <= SND.NXT); an old or reordered ACK never moves it backwards')
def r05_6(ctx):
    F = ctx.F
    b = ctx.method(SOCK, 'process')
    ws = [w for w in F.field_writes() if w['fn'] == b.key and w['kind'] == 'store' and w['adt'] == SOCK and w['field'] == 'local_seq_no']
    sites = []
    for w in ws:
        o = simplify(store_origin(F, b, w))
        if f"F:{REPR}.ack_number" in leafs(o):
            sites.append(w['bb'])
    ctx.need(sites, "`self.local_seq_no = ack_number` in tcp::Socket::process")
    ack = lambda n: f"F:{REPR}.ack_number" in leafs(n) and not any(l.startswith(f"F:{SOCK}.") for l in leafs(n))
    una = lambda n: f"F:{SOCK}.local_seq_no" in leafs(n) and f"F:{SOCK}.tx_buffer" not in leafs(n) and not any(l.startswith(f"F:{REPR}.") for l in leafs(n))
    nxt = lambda n: f"F:{SOCK}.local_seq_no" in leafs(n) and f"F:{SOCK}.tx_buffer" in leafs(n) and not any(l.startswith(f"F:{REPR}.") for l in leafs(n))
    # SYN-SENT: the only acceptable acknowledgment is ISS + 1 (equality test instead of the range test)
    iss1 = lambda f: _rel(f, 'Eq', ack, una)
    lo = p_any(lambda f: _rel(f, 'Ge', ack, una), iss1)
    hi = p_any(lambda f: _rel(f, 'Le', ack, nxt), iss1)
    from .c17 import partition_run, STATE, CTRL
    glo = pass_edges(F, b, lo)
    ghi = pass_edges(F, b, hi)
    ctx.need(glo and ghi, "SEG.ACK acceptability comparisons in tcp::process")
    for S in F.variants(STATE):
        for C in F.variants(CTRL):
            r = partition_run(ctx, b, S, C, 'Some')
            ok = r.edge_ok()
            for s in feasible_sites(b, sites, ok):
                b1 = cut_sites(b, [s], glo, ok)
                b2 = cut_sites(b, [s], ghi, ok)
                if b1:
                    ctx.bad("process|local_seq_no|backwards", f"[{S}/{C}] SND.UNA can be set to an acknowledgment number below the current SND.UNA (a reordered "
                            "segment carrying an old ACK moves the send window backwards; the next retransmission sends the wrong bytes)", body=b, bb=s, path=b1[0][1])
                elif b2:
                    ctx.bad("process|local_seq_no|beyond-nxt", f"[{S}/{C}] SND.UNA can be set beyond SND.NXT (ACK of data never sent)", body=b, bb=s, path=b2[0][1])
                else:
                    ctx.ok(('local_seq_no', S, C), sample=dict(state=S, control=C, store='local_seq_no = SEG.ACK', guards='SND.UNA <= SEG.ACK <= SND.NXT'))


@rule('R05.7', ['C05'], floor=1, clause='a received window-scale option is clamped to 14 before it is stored in the representation')
def r05_7(ctx):
    F = ctx.F
    b = ctx.method(REPR, 'parse')
    L = []        # identified by type and by what flows into it (the WindowScale option payload), not by name
    n = 0
    for bi, bl in enumerate(b.blocks):
        if bl['cl']:
            continue
        for si, s in enumerate(bl['s']):
            if s[0] == 'a' and s[1][1] == [] and s[2][0] == 'agg' and s[2][1].get('variant') == 'Some' \
                    and (s[1][0] in L or b.locals[s[1][0]]['ty'] == 'std::option::Option<u8>'):
                v = simplify(F.origin.operand(b, s[2][2][0], bi, si))
                if s[1][0] not in L and not (const_int(v) is not None or any(l.endswith('WindowScale') for l in leafs(v) if l.startswith('D:'))
                                             or 'WindowScale' in show(v)):
                    continue
                n += 1
                alts_ = alts(v)
                for a in alts_:
                    c = const_int(a)
                    if c is not None:
                        if c > 14:
                            ctx.bad("tcp::Repr::parse|window_scale|const", f"window scale constant {c} > 14", body=b, bb=bi)
                        else:
                            ctx.ok(('window_scale', 'const', c))
                        continue
                    le14 = lambda f, a=a: f[0] == 'rel' and ((f[1] in ('Le',) and simplify(f[2]) == a and const_int(simplify(f[3])) is not None and const_int(simplify(f[3])) <= 14)
                                                               or (f[1] in ('Lt',) and simplify(f[2]) == a and const_int(simplify(f[3])) is not None and const_int(simplify(f[3])) <= 15))
                    bad = unguarded(F, b, [bi], le14)
                    if bad:
                        ctx.bad("tcp::Repr::parse|window_scale|unclamped", "a window-scale shift larger than 14 from the peer's SYN is stored unclamped "
                                "(the peer window is over-estimated and data is sent beyond it)", body=b, bb=bi, path=bad[0][1])
                    else:
                        ctx.ok(('window_scale', 'guarded'), sample=dict(store='window_scale = Some(value)', guard='value <= 14'))
    ctx.need(n >= 1, "window_scale = Some(..) in tcp::Repr::parse")


@rule('R05.8', ['C05', 'C04'], floor=2, clause='wherever the peer\'s window-scale option is recorded (passive and active open) the local shift is dropped to 0 when the peer did not offer scaling')
def r05_8(ctx):
    F = ctx.F
    b = ctx.method(SOCK, 'process')
    ws = [w for w in F.field_writes() if w['fn'] == b.key and w['kind'] == 'store' and w['adt'] == SOCK and w['field'] == 'remote_win_scale']
    ctx.need(len(ws) >= 2, "stores to remote_win_scale in process (Listen and SynSent arms)")
    zs = []
    for w in F.field_writes():
        if w['fn'] == b.key and w['kind'] == 'store' and w['adt'] == SOCK and w['field'] == 'remote_win_shift':
            if const_int(simplify(store_origin(F, b, w))) == 0:
                zs.append(w['bb'])
    ws_leaf = lambda n: f"F:{SOCK}.remote_win_scale" in leafs(n) or f"F:{REPR}.window_scale" in leafs(n)   # the value just stored
    none = lambda f: (f[0] == 'bool' and f[2] is True and is_call(strip(f[1]), 'is_none') and ws_leaf(f[1])) or \
        (f[0] == 'is' and f[2] == 'None' and ws_leaf(f[1]))
    ge = guard_edges(F, b, none)
    for w in ws:
        # from the store, some is_none(remote_win_scale) edge is reached on every path to return, and its true edge leads to a zero store
        okw = False
        rets = set(b.return_blocks())
        tests = {e[0] for e in ge}
        seen = b.reachable(start=w['bb'], cut_blocks=tests)
        escapes = [r for r in rets if r in seen]
        reach_tests = [t for t in tests if t in b.reachable(start=w['bb'])]
        if reach_tests and not escapes:
            for e in ge:
                if e[0] in reach_tests:
                    s2 = b.reachable(start=e[1])
                    if any(z in s2 for z in zs):
                        okw = True
        if okw:
            ctx.ok(('remote_win_scale', w['bb']), sample=dict(after='remote_win_scale = repr.window_scale', then='if none: remote_win_shift = 0'))
        else:
            ctx.bad("process|remote_win_shift|not-dropped", "the peer's window-scale option is recorded but the local shift is not reset to 0 when the peer "
                    "offered none: every later window field is scaled by a factor that was never negotiated", body=b, bb=w['bb'])


# ------------------------------------------------------------------------------------------------

@rule('R14.6', ['C14', 'C09'], floor=1, clause='both packet enqueue interfaces take the pad-and-wrap decision on the same strict comparison (contiguous window < size): a packet that exactly fits is accepted by both')
def r14_6(ctx):
    F = ctx.F
    sig = {}
    for nm in ('enqueue', 'enqueue_with_infallible'):
        b = ctx.method(PB, nm)
        found = []
        for bi, bl in enumerate(b.blocks):
            if bl['cl'] or bl['t'][0] != 'switch':
                continue
            for tb, lab, f in cond_facts(F, b, bi):
                if f[0] == 'rel' and f[1] in ('Lt', 'Le') and any(l.endswith('contiguous_window') for l in leafs(f[2]) if l.startswith('C:')) \
                        and 'A:2' in leafs(f[3]):
                    found.append((bi, f[1]))
        ctx.need(found, f"`contig_window < size` test in PacketBuffer::{nm}")
        sig[nm] = found
    for nm, found in sig.items():
        b = ctx.method(PB, nm)
        for bi, op in found:
            if op != 'Lt':
                ctx.bad(f"PacketBuffer::{nm}|wrap-decision|strictness", f"PacketBuffer::{nm} pads and wraps when the contiguous window EQUALS the packet size: "
                        "an exactly fitting packet is refused (Full) although its sibling interface accepts it", body=b, bb=bi)
            else:
                ctx.ok((nm, 'wrap-decision'), sample=dict(fn=nm, test='contig_window < size'))


# ------------------------------------------------------------------------------------------------

def _fold_eval(n, depth=0):
    """(congruent-to-input mod 0xffff, upper bound) of a checksum folding expression; input = ('arg', 1)."""
    n = untuple(strip(n))
    if depth > 12:
        return (False, None)
    if n == ('arg', 1):
        return (True, 0xffffffff)
    if n[0] == 'cast':
        c, m = _fold_eval(n[1], depth + 1)
        ty = n[2] if len(n) > 2 else ''
        if ty == 'u16':
            if m is not None and m <= 0xffff:
                return (c, m)
            return (False, 0xffff)
        return (c, m)
    if n[0] == 'bin' and n[1] == 'Add':
        pa, pb_ = _part(n[2]), _part(n[3])
        if pa and pb_ and pa[1] == pb_[1] and {pa[0], pb_[0]} == {'hi', 'lo'}:
            c, m = _fold_eval(pa[1], depth + 1)
            if not c or m is None:
                return (False, None)
            if m <= 0xffff:
                return (True, m)
            if m <= 0x1fffe:
                return (True, 0xffff)          # e = 0x10000 + l, l <= 0xfffe  =>  1 + l <= 0xffff
            return (True, (m >> 16) + 0xffff)
        return (False, None)
    return (False, None)


def _part(n):
    """('hi', e) for e >> 16 (possibly cast), ('lo', e) for e & 0xffff or e as u16"""
    n = untuple(strip(n))
    if n[0] == 'cast':
        inner = untuple(strip(n[1]))
        if inner[0] == 'bin' and inner[1] == 'Shr' and const_int(simplify(inner[3])) == 16:
            return ('hi', untuple(strip(inner[2])))
        if len(n) > 2 and n[2] == 'u16':
            p = _part(inner)
            if p:
                return p
            return ('lo', inner)
        return _part(inner)
    if n[0] == 'bin' and n[1] == 'Shr' and const_int(simplify(n[3])) == 16:
        return ('hi', untuple(strip(n[2])))
    if n[0] == 'bin' and n[1] == 'BitAnd' and const_int(simplify(n[3])) == 0xffff:
        return ('lo', untuple(strip(n[2])))
    return None


@rule('R08.4', ['C08'], floor=1, clause='the 32-bit checksum accumulator is folded to 16 bits with end-around carry until no carry can remain (the result is congruent to the accumulator modulo 0xffff and fits 16 bits)')
def r08_4(ctx):
    """Abstract evaluation (congruence mod 0xffff + upper bound) of checksum::propagate_carries: each step must be
    hi16(e) + lo16(e) of a congruent e; a truncating cast or a wrapping add of a value that can still exceed
    16 bits loses a carry."""
    F = ctx.F
    b = ctx.body('wire::ip::checksum::propagate_carries')
    r = simplify(ret_origin(F, b))
    c, m = _fold_eval(r)
    if c and m is not None and m <= 0xffff:
        ctx.ok(('propagate_carries', 'end-around-carry'), sample=dict(fn='checksum::propagate_carries', folds='hi16+lo16 twice', bound='<= 0xffff'))
    else:
        ctx.bad("propagate_carries|carry-lost", f"checksum::propagate_carries = {show(r)[:90]} does not fold the accumulator with end-around carry down to "
                "16 bits: a carry out of the first fold is dropped (checksums off by one for a fraction of packets)", body=b)


@rule('R08.5', ['C08', 'C10'], floor=2, clause='the IPv4 header checksum is computed and verified over exactly header_len() octets (options included)')
def r08_5(ctx):
    F = ctx.F
    V4 = 'wire::ipv4::Packet'
    for nm in ('verify_checksum', 'fill_checksum'):
        b = ctx.method(V4, nm)
        cs = [x for x in b.calls() if (b.callee_name(x[1]) or '') == 'wire::ip::checksum::data']
        ctx.need(cs, f"checksum::data call in ipv4::Packet::{nm}")
        for x in cs:
            o = strip(simplify(F.origin.operand(b, x[2][0], x[0], len(b.blocks[x[0]]['s']))))
            okr = False
            if o[0] == 'call' and o[1].rsplit('::', 1)[-1] in ('index', 'index_mut') and len(o[2]) == 2:
                rb = range_bounds(F, o[2][1])
                if rb and rb[0] == 'RangeTo' and any(l.endswith('::header_len') for l in leafs(rb[2]) if l.startswith('C:')):
                    okr = True
            if okr:
                ctx.ok((nm, 'header_len'), sample=dict(fn=f"ipv4::Packet::{nm}", range='..header_len()'))
            else:
                ctx.bad(f"ipv4::Packet::{nm}|range", f"ipv4::Packet::{nm} checksums {show(o)[:70]} instead of the first header_len() octets: headers with "
                        "options are rejected / corrupt option bytes accepted", body=b, bb=x[0])


# ------------------------------------------------------------------------------------------------

@rule('R11.6', ['C11'], floor=4, clause='an ICMP socket bound to a UDP/TCP endpoint with an explicit address only takes errors whose IP destination (not an address quoted inside the error) equals that address')
def r11_6(ctx):
    F = ctx.F
    IC = 'socket::icmp::Socket'
    n = 0
    for nm in ('accepts_v4', 'accepts_v6'):
        b = F.method(IC, nm)
        if b is None:
            continue
        # where the quoted transport header is examined: the complete-datagram parsers or the port accessors
        sites = [x[0] for x in b.calls() if (b.callee_name(x[1]) or '') in ("wire::udp::Repr::parse", "wire::tcp::Repr::<'a>::parse")
                 or re.search(r'wire::(udp|tcp)::Packet::<.*>::src_port$', b.callee_name(x[1]) or '')]
        ctx.need(len(sites) >= 2, f"quoted UDP/TCP header readers in icmp::Socket::{nm}")

        def dst_of_packet(n_):
            """the node reads dst_addr of argument 3 (the received IP header)"""
            hit = []

            def w(x):
                if isinstance(x, tuple) and x and x[0] == 'field' and x[1] == ('arg', 3) and x[2] and x[2][-1][0] == 'f' and x[2][-1][1] == 'dst_addr':
                    hit.append(1)
            walk(n_, w)
            return bool(hit)

        def quoted(n_):
            hit = []

            def w(x):
                if isinstance(x, tuple) and x and x[0] in ('field', 'proj') and any(isinstance(p, tuple) and p[0] == 'f' and p[1] == 'header' for p in x[2]):
                    hit.append(1)
            walk(n_, w)
            return bool(hit)

        def addr_ok(f):
            if f[0] == 'bool' and f[2] is True and is_call(strip(f[1]), 'is_none'):
                return True
            if f[0] == 'is' and f[2] == 'None':
                return True
            if f[0] == 'rel' and f[1] == 'Eq':
                a, c = f[2], f[3]
                return (dst_of_packet(a) and not quoted(a)) or (dst_of_packet(c) and not quoted(c))
            if f[0] == 'bool' and f[2] is True:
                n_ = strip(f[1])
                return n_[0] == 'call' and n_[1].endswith('::eq') and dst_of_packet(n_) and not quoted(n_)
            return False
        for s in sites:
            n += 1
            bad = unguarded(F, b, [s], addr_ok)
            if bad:
                ctx.bad(f"icmp::{nm}|bound-address", f"icmp::Socket::{nm} accepts an ICMP error for a UDP/TCP-bound socket without comparing the bound address "
                        "with the packet's own IP destination (errors sent to other addresses of the host are delivered)", body=b, bb=s, path=bad[0][1])
            else:
                ctx.ok((nm, s), sample=dict(fn=nm, guard='endpoint.addr is None | == ip_repr.dst_addr'))
    ctx.need(n >= 4, "ICMP endpoint-bound accept arms")


@rule('R13.6', ['C13', 'C12'], floor=1, clause='a fragmenter that has sent everything is reset by the egress step (otherwise Interface::poll_at reports "now" forever)')
def r13_6(ctx):
    F = ctx.F
    FR = 'iface::fragmentation::Fragmenter'
    fin = ctx.method(FR, 'finished')
    rst = ctx.method(FR, 'reset')
    n = 0
    for nm in ('ipv4_egress', 'sixlowpan_egress'):
        b = F.method(IF, nm)
        if b is None:
            continue
        n += 1
        tests = [x for x in b.calls() if b.callee_name(x[1]) == fin.key]
        resets = [x[0] for x in b.calls() if b.callee_name(x[1]) == rst.key]
        if not tests:
            ctx.bad(f"{nm}|no-finished-test", f"{nm} never tests whether the fragmenter is finished", body=b)
            continue
        fin_true = lambda f: f[0] == 'bool' and f[2] is True and is_call(strip(f[1]), 'finished')
        ge = guard_edges(F, b, fin_true)
        okr = bool(ge) and bool(resets)
        for (bi, tb, lab) in ge:
            seen = b.reachable(start=tb, cut_blocks=set(resets))
            if any(r in seen and r not in resets for r in b.return_blocks()) and tb not in resets:
                okr = False
        if okr:
            ctx.ok((nm, 'reset-when-finished'), sample=dict(fn=nm, rule='finished() => reset()'))
        else:
            ctx.bad(f"{nm}|finished-not-reset", f"{nm} can return with a finished fragmenter that was not reset: Interface::poll_at keeps reporting an "
                    "immediate deadline although polling does nothing (busy loop)", body=b)
    ctx.need(n >= 1, "fragment egress functions")


@rule('R13.3b', ['C13', 'C02'], floor=1, clause='Interface::poll_at combines the SLAAC and socket deadlines so that either one alone is still reported (never with Option::and / zip / and_then)')
def r13_3b(ctx):
    F = ctx.F
    b = ctx.method(IF, 'poll_at')
    badc = []
    comb = 0
    for body in [b] + F.closures_of(b.key):
        for x in body.calls():
            nm = body.callee_name(x[1]) or ''
            if nm.startswith('std::option::Option') and nm.rsplit('::', 1)[-1] in ('and', 'and_then', 'zip', 'xor', 'filter'):
                badc.append((body, x[0], nm.rsplit('::', 1)[-1]))
            if nm.startswith('std::option::Option') and nm.rsplit('::', 1)[-1] in ('or', 'or_else', 'min', 'map', 'unwrap_or'):
                comb += 1
    if badc:
        body, bb, what = badc[0]
        ctx.bad(f"Interface::poll_at|Option::{what}", f"Interface::poll_at combines deadlines with Option::{what}: a pending socket deadline is dropped when the "
                "other source has none (the caller is told to sleep forever with a retransmission outstanding)", body=body, bb=bb)
    else:
        ctx.ok(('Interface::poll_at', 'combinators'), sample=dict(fn='Interface::poll_at', combine='min of the present deadlines'))


@rule('R02.10', ['C02', 'C13', 'C16'], floor=1, clause='the pending fast-retransmit request is only consumed once the segment was handed to the device (a failed emit keeps it pending; the retransmission timer was already cleared)')
def r02_10(ctx):
    F = ctx.F
    d = ctx.method(SOCK, 'dispatch')
    ws = [w for w in F.field_writes() if w['fn'] == d.key and w['kind'] == 'store' and w['adt'] == SOCK and w['field'] == 'pending_fast_retransmit']
    clears = [w for w in ws if const_int(simplify(store_origin(F, d, w))) == 0 or strip(simplify(store_origin(F, d, w))) == ('const', 'false')]
    ctx.need(clears, "`pending_fast_retransmit = false` in tcp::Socket::dispatch")
    okc = lambda f: f[0] == 'is' and f[2] in ('Continue', 'Ok') and any(l.endswith(('FnOnce::call_once', 'FnMut::call_mut')) for l in leafs(f[1]) if l.startswith('C:'))
    for w in clears:
        bad = unguarded(F, d, [w['bb']], okc)
        if bad:
            ctx.bad("dispatch|pending_fast_retransmit|cleared-before-emit", "tcp dispatch clears the pending fast-retransmit request before emit() succeeded: when the "
                    "device cannot take the frame, the retransmission is forgotten with the timer already idle (unacknowledged data, no deadline)",
                    body=d, bb=w['bb'], path=bad[0][1])
        else:
            ctx.ok(('pending_fast_retransmit', 'after-emit'), sample=dict(store='pending_fast_retransmit = false', guard='emit(..) returned Ok'))


@rule('R02.11', ['C02', 'C13'], floor=1, clause='the retransmission timer is replaced by the fast-retransmit marker only when there is a data segment to fast-retransmit (with only a FIN in flight it stays armed)')
def r02_11(ctx):
    F = ctx.F
    b = ctx.method(SOCK, 'process')
    t = ctx.method(TIMER, 'set_for_fast_retransmit')
    sites = [x[0] for x in b.calls() if b.callee_name(x[1]) == t.key]
    ctx.need(sites, "set_for_fast_retransmit call in tcp::Socket::process")
    has_data = lambda f: f[0] == 'bool' and f[2] is False and is_call(strip(f[1]), 'is_empty') and f"F:{SOCK}.tx_buffer" in leafs(f[1])
    for s in sites:
        bad = unguarded(F, b, [s], has_data)
        if bad:
            ctx.bad("process|fast-retransmit|no-data", "three duplicate ACKs start a fast retransmit (replacing the armed retransmission timer) even when the transmit "
                    "buffer is empty: with only a FIN in flight nothing is resent and the timer ends up idle - the close never completes", body=b, bb=s, path=bad[0][1])
        else:
            ctx.ok(('fast-retransmit', 'needs-data'), sample=dict(call='timer.set_for_fast_retransmit()', guard='!tx_buffer.is_empty()'))


@rule('R02.12', ['C02', 'C13'], floor=1, clause='when the retransmission timer expires while the peer window is closed and data is queued, the socket keeps a probe timer instead of going idle')
def r02_12(ctx):
    F = ctx.F
    d = ctx.method(SOCK, 'dispatch')
    idle = ctx.method(TIMER, 'set_for_idle')
    sr = ctx.method(TIMER, 'should_retransmit')
    fired = lambda f: f[0] == 'bool' and f[2] is True and is_call(strip(f[1]), 'should_retransmit')
    ge = guard_edges(F, d, fired)
    ctx.need(ge, "should_retransmit() test in tcp::Socket::dispatch")
    # set_for_idle calls behind the expired-timer edge: directly in dispatch, or inside a private helper that dispatch calls
    # there (the block may have been extracted into a function of its own)
    sites = []          # (body of the call, block, enclosing call block in dispatch or None)
    for x in d.calls():
        nm = d.callee_name(x[1])
        if cut_sites(d, [x[0]], ge):
            continue          # reachable without the expired-timer edge: a different use
        if nm == idle.key:
            sites.append((d, x[0], None))
            continue
        hb = F.bodies.get(nm or '')
        if hb is not None and hb.meta.get('impl_self') == SOCK and hb.key != d.key and len(F.callers(hb.key)) == 1:
            for y in hb.calls():
                if hb.callee_name(y[1]) == idle.key:
                    sites.append((hb, y[0], x[0]))
    ctx.need(sites, "set_for_idle behind the expired retransmission timer")
    open_or_empty = p_any(lambda f: f[0] == 'rel' and f[1] == 'Ne' and f"F:{SOCK}.remote_win_len" in leafs(f[2]) and const_int(simplify(f[3])) == 0,
                          lambda f: f[0] == 'bool' and f[2] is True and is_call(strip(f[1]), 'is_empty') and f"F:{SOCK}.tx_buffer" in leafs(f[1]))
    for body, s_, outer in sites:
        bad = unguarded(F, body, [s_], open_or_empty)
        if bad and outer is not None:
            bad = unguarded(F, d, [outer], open_or_empty)
        if bad:
            ctx.bad("dispatch|rto-into-zero-window|idle", "after the retransmission timer expired the timer goes idle even if the peer window is zero and data is queued: "
                    "nothing can be resent, no probe is scheduled, and a lost window update stalls the connection for good", body=body, bb=s_, path=bad[0][1])
        else:
            ctx.ok(('rto', 'idle-only-when-sendable'), sample=dict(call='timer.set_for_idle()', guard='remote_win_len != 0 | tx_buffer.is_empty()'))


@rule('R08.6', ['C08', 'C10', 'C12'], floor=1, clause='when a datagram is emitted into the (reused, larger) fragmentation buffer, the emitters are handed exactly the datagram\'s length of it: a checksum over "the whole buffer" must not cover stale bytes')
def r08_6(ctx):
    F = ctx.F
    FR = 'iface::fragmentation::Fragmenter'
    b = ctx.method(IFI, 'dispatch_ip')
    cls = {c.key for c in F.closures_of(b.key)}
    n = 0
    for body in [b] + F.closures_of(b.key):
        for x in body.calls():
            nm = body.callee_name(x[1]) or x[1].get('fn') or ''
            # calls of a local closure (FnOnce/Fn::call) or of emit functions with a buffer argument taken from the fragmenter
            for a in x[2]:
                if not is_place_op(a):
                    continue
                o = F.origin.operand(body, a, x[0], len(body.blocks[x[0]]['s']))
                if f"F:{FR}.buffer" not in leafs(o):
                    continue
                if not (nm in cls or nm.endswith(('::call', '::call_once', '::call_mut')) or nm.rsplit('::', 1)[-1].startswith('emit')):
                    continue
                n += 1
                o2 = untuple(strip(simplify(o)))
                # through the closure argument tuple
                found = []

                def w(nd):
                    if isinstance(nd, tuple) and nd and nd[0] == 'call' and nd[1].rsplit('::', 1)[-1] in ('index_mut', 'index') and len(nd[2]) == 2 \
                            and f"F:{FR}.buffer" in leafs(nd[2][0]):
                        rb = range_bounds(F, nd[2][1])
                        if rb and rb[0] in ('RangeTo', 'Range') and any(l.endswith('::buffer_len') for l in leafs(rb[2]) if l.startswith('C:')):
                            found.append(1)
                walk(simplify(o), w)
                if found:
                    ctx.ok(('dispatch_ip', 'frag-buffer-slice', x[0]), sample=dict(call=nm.rsplit('::', 2)[-2:], buffer='frag.buffer[..total_ip_len]'))
                else:
                    ctx.bad("dispatch_ip|frag-buffer|whole", "dispatch_ip hands the whole fragmentation buffer to the header/payload emitters: an emitter without a "
                            "length field (ICMPv4) checksums the stale bytes of an earlier, larger datagram behind this one", body=body, bb=x[0])
    ctx.need(n >= 1, "emission into the fragmentation buffer in dispatch_ip")


@rule('R05.4b', ['C05', 'C01'], floor=2, clause='the offset used to decide "this segment ends the queued data" (FIN/PSH) is the offset at which the segment\'s payload was actually taken from the transmit buffer, on the normal and on the fast-retransmit path')
def r05_4b(ctx):
    F = ctx.F
    d = ctx.method(SOCK, 'dispatch')
    ga = [x for x in d.calls() if (d.callee_name(x[1]) or '').endswith('RingBuffer::<\'a, T>::get_allocated')]
    ctx.need(len(ga) >= 2, "tx_buffer.get_allocated call sites in dispatch")
    gablocks = {x[0] for x in ga}
    n = 0
    for x in ga:
        a0 = simplify(F.origin.operand(d, x[2][1], x[0], len(d.blocks[x[0]]['s'])))
        # value of `offset` where the end-of-queue test reads it, on the paths through this call: the definition of any
        # `offset` local that reaches the first switch after the call without passing another get_allocated
        seen = d.reachable(start=x[4], cut_blocks=gablocks - {x[0]}) if x[4] is not None else {}
        # facts as seen on the paths through this call site only (the other sites' definitions of `offset` do not reach)
        others_in = {(pb, ob) for ob in gablocks - {x[0]} for pb in d.pred[ob]}
        dr = d.restricted(others_in)
        tests = []
        for bi in seen:
            bl = d.blocks[bi]
            if bl['cl'] or bl['t'][0] != 'switch':
                continue
            for tb, lab, f in cond_facts(F, dr, bi):
                if f[0] == 'rel' and f[1] in ('Eq', 'Ne') and f"F:{SOCK}.tx_buffer" in leafs(f[3]) and \
                        any(l.endswith('::get_allocated') for l in leafs(f[2]) if l.startswith('C:')):
                    tests.append((bi, f))
        if not tests:
            continue
        n += 1
        bi, f = tests[0]
        # offset operand of the comparison: lhs = offset + len(payload)
        lhs = untuple(strip(simplify(f[2])))
        off = None
        if lhs[0] == 'bin' and lhs[1] == 'Add':
            for cand in (lhs[2], lhs[3]):
                if not any(l.endswith('::get_allocated') for l in leafs(cand) if l.startswith('C:')):
                    off = simplify(cand)
        if off is None:
            ctx.bad("dispatch|end-of-queue-test|shape", f"end-of-queue test {show(lhs)[:60]} is not `offset + payload.len()`", body=d, bb=bi)
            continue
        okm = any(simplify(a) == a0 for a in alts(off)) if off[0] == 'phi' else off == a0
        # path-correlation: the alternative that belongs to this call must exist, and the other alternatives must belong to other calls
        if off[0] == 'phi':
            others = [simplify(F.origin.operand(d, y[2][1], y[0], len(d.blocks[y[0]]['s']))) for y in ga if y[0] != x[0]]
            stray = [a for a in alts(off) if simplify(a) != a0 and simplify(a) not in others]
            okm = okm and not stray and len(alts(off)) <= len(ga)
        if okm:
            ctx.ok(('end-of-queue', x[0]), sample=dict(payload=f"get_allocated({show(a0)[:30]}, size)", test='offset + payload.len() == tx_buffer.len()'))
        else:
            ctx.bad("dispatch|end-of-queue-test|offset-mismatch", f"the payload is taken at offset {show(a0)[:40]} but the end-of-queue test uses {show(off)[:60]}: "
                    "a retransmitted first segment can be taken for the last one and carry FIN while later data is still queued", body=d, bb=x[0])
    ctx.need(n >= 2, "payload extraction sites followed by the end-of-queue test")


@rule('R05.9', ['C05', 'C04'], floor=1, clause='the peer\'s window field is scaled by the shift the PEER announced (remote_win_scale), never by our own receive shift; SYN segments are not scaled')
def r05_9(ctx):
    F = ctx.F
    b = ctx.method(SOCK, 'process')
    ws = [w for w in F.field_writes() if w['fn'] == b.key and w['kind'] == 'store' and w['adt'] == SOCK and w['field'] == 'remote_win_len']
    ctx.need(ws, "store to remote_win_len in tcp::Socket::process")
    for w in ws:
        o = simplify(store_origin(F, b, w))
        ls = leafs(o)
        if f"F:{REPR}.window_len" not in ls:
            continue
        if f"F:{SOCK}.remote_win_shift" in ls:
            ctx.bad("process|remote_win_len|own-shift", f"the peer's window field is scaled with our own shift (remote_win_shift): remote_win_len = {show(o)[:80]}; when the two "
                    "shifts differ the peer window is over-estimated and data is sent beyond it", body=b, bb=w['bb'])
        elif f"F:{SOCK}.remote_win_scale" in ls and 'K:0' in ls or f"F:{SOCK}.remote_win_scale" in ls:
            ctx.ok(('remote_win_len', 'peer-scale'), sample=dict(store='remote_win_len = window_len << (SYN ? 0 : remote_win_scale.unwrap_or(0))'))
        else:
            ctx.bad("process|remote_win_len|scale-origin", f"remote_win_len = {show(o)[:80]} is not scaled by the peer's announced shift", body=b, bb=w['bb'])


@rule('R14.7', ['C14', 'C09'], floor=2, clause='the size recorded in a packet\'s metadata is the number of octets by which the payload ring advanced for it (both enqueue interfaces)')
def r14_7(ctx):
    F = ctx.F
    PM = 'storage::packet_buffer::PacketMetadata'
    for nm in ('enqueue', 'enqueue_with_infallible'):
        b = ctx.method(PB, nm)
        pk = [x for x in b.calls() if (b.callee_name(x[1]) or '').endswith('PacketMetadata::<H>::packet')]
        ctx.need(pk, f"PacketMetadata::packet in PacketBuffer::{nm}")
        size = untuple(strip(simplify(F.origin.operand(b, pk[0][2][0], pk[0][0], len(b.blocks[pk[0][0]]['s'])))))
        adv = [x for x in b.calls() if (b.callee_name(x[1]) or '').rsplit('::', 1)[-1] in ('enqueue_many', 'enqueue_many_with')]
        adv = [x for x in adv if x[0] != 0]
        good = False
        detail = show(size)[:60]
        for x in adv:
            last = (b.callee_name(x[1]) or '').rsplit('::', 1)[-1]
            if last == 'enqueue_many':
                a = untuple(strip(simplify(F.origin.operand(b, x[2][1], x[0], len(b.blocks[x[0]]['s'])))))
                if a == size:
                    good = True
            else:
                # enqueue_many_with returns (advanced, result): the metadata must record .0
                s0 = strip(size)
                if s0[0] == 'proj' and is_call(strip(s0[1]), 'enqueue_many_with') and s0[2] and s0[2][0][0] == 'f' and str(s0[2][0][1]) == '0':
                    # and the closure's first tuple component is what the caller's writer returned
                    good = True
                    for cb in F.closures_of(b.key):
                        r = untuple(strip(simplify(ret_origin(F, cb))))
                        if r[0] == 'agg' and len(r[2]) == 2:
                            first = strip(r[2][0])
                            if not (first[0] == 'call' and first[1].endswith(('call_once', 'call_mut', '::call'))):
                                good = False
                                detail = f"closure advances the ring by {show(first)[:40]}"
        if good:
            ctx.ok((nm, 'metadata-size'), sample=dict(fn=nm, metadata_size='= octets reserved in the payload ring'))
        else:
            ctx.bad(f"PacketBuffer::{nm}|metadata-size", f"PacketBuffer::{nm} records size {detail} in the metadata but advances the payload ring by a different amount: "
                    "the two rings go out of step and later packets are read from the wrong position", body=b, bb=pk[0][0])


def _canon_buf(n):
    """canonical form that identifies as_ref/as_mut, index/index_mut and ignores refs"""
    if not isinstance(n, tuple) or not n:
        return n
    if n[0] in ('ref', 'deref') and len(n) == 2:
        return _canon_buf(n[1])
    if n[0] == 'named':
        return _canon_buf(n[2])
    if n[0] == 'after':
        return _canon_buf(n[1])
    if n[0] == 'phi':
        al = tuple(sorted({_canon_buf(a) for a in n[1] if a != ('opaque', 'partial-def')}, key=str))
        return al[0] if len(al) == 1 else ('phi', al)
    if n[0] == 'call':
        last = n[1].rsplit('::', 1)[-1]
        if last in ('as_ref', 'as_mut') and len(n[2]) == 1:
            return ('buf', _canon_buf(n[2][0]))
        if last in ('index', 'index_mut') and len(n[2]) == 2:
            return ('index', _canon_buf(n[2][0]), _canon_buf(n[2][1]))
        return ('call', n[1], tuple(_canon_buf(a) for a in n[2]))
    return tuple(_canon_buf(x) if isinstance(x, tuple) else x for x in n)


@rule('R08.5b', ['C08'], floor=4, clause='for every checksummed header, fill_checksum and verify_checksum sum exactly the same octets of the packet (same slice expression)')
def r08_5b(ctx):
    F = ctx.F
    from ..wirelib import wire_views
    n = 0
    for adt in sorted(wire_views(F)):
        fb, vb = F.method(adt, 'fill_checksum'), F.method(adt, 'verify_checksum')
        if fb is None or vb is None:
            continue

        def sums(b):
            out = set()
            for x in b.calls():
                if (b.callee_name(x[1]) or '') == 'wire::ip::checksum::data':
                    out.add(_canon_buf(simplify(F.origin.operand(b, x[2][0], x[0], len(b.blocks[x[0]]['s'])))))
            return out
        sf, sv = sums(fb), sums(vb)
        if not sf or not sv:
            continue
        n += 1
        short = adt.split('wire::')[-1]
        if sf == sv:
            ctx.ok((short, 'same-octets'), sample=dict(view=short, summed=show(next(iter(sf)))[:60]))
        else:
            ctx.bad(f"{short}|fill-vs-verify", f"{short}: fill_checksum sums {[show(x)[:50] for x in sf]} but verify_checksum sums {[show(x)[:50] for x in sv]}: "
                    "checksums emitted into a larger/reused buffer do not verify (or trailing bytes escape verification)", body=fb)
    ctx.need(n >= 4, f"views with both fill_checksum and verify_checksum (found {n})")


@rule('R04.6', ['C04', 'C01'], floor=2, clause='ack_reply() records the advertised acknowledgment and window as a side effect, so it is only called on paths that actually return its segment for transmission (a rate-limited / suppressed reply records nothing)')
def r04_6(ctx):
    F = ctx.F
    ar = ctx.method(SOCK, 'ack_reply')
    n = 0
    for ck in sorted(F.callers(ar.key)):
        b = F.bodies.get(ck)
        if b is None or '::test' in ck:
            continue
        for x in b.calls():
            if b.callee_name(x[1]) != ar.key:
                continue
            n += 1
            # from the call, no return whose value is None (the reply dropped) may be reachable
            seen = b.reachable(start=x[4]) if x[4] is not None else {}
            dropped = None
            for bi in seen:
                bl = b.blocks[bi]
                if bl['cl']:
                    continue
                for si, s in enumerate(bl['s']):
                    if s[0] == 'a' and s[1] == [0, []]:
                        o = strip(simplify(F.origin.rvalue(b, s[2], bi, si, 0, None)))
                        if o == ('variant', 'std::option::Option::None') or (o[0] == 'agg' and o[1].endswith('Option::None')):
                            dropped = bi
            fnm = ck.rsplit('::', 1)[-1]
            if dropped is not None:
                ctx.bad(f"{fnm}|ack_reply|result-dropped", f"{ck} calls ack_reply() (which records remote_last_ack / remote_last_win) and can then return None: "
                        "a window that was never put on the wire is recorded as advertised, and data beyond every advertised window is accepted", body=b, bb=dropped)
            else:
                ctx.ok((fnm, 'ack_reply-returned', x[0]), sample=dict(caller=fnm, rule='ack_reply() result is always returned'))
    ctx.need(n >= 2, "ack_reply call sites")
