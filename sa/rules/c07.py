"""C07 - checked packet views never panic on arbitrary bytes (structural clauses)."""
import re
from ..framework import rule
from ..core import *
from ..lib import *
from ..wirelib import *


def read_accessors(F, adt):
    out = []
    for b in F.methods(adt):
        nm = b.key.rsplit('::', 1)[-1]
        if b.meta.get('impl_trait') is not None:
            continue
        if nm in ('check_len', 'new_unchecked', 'new_checked', 'into_inner'):
            continue
        if b.nargs < 1 or not b.locals[1]['ty'].startswith('&') or b.locals[1]['ty'].startswith('&mut'):
            continue
        out.append(b)
    return out


def const_returns_under_variant(F, body, variant):
    """set of constant values body can return when every discriminating switch in it takes `variant`
    where it lists it (else its default edge); None if some reachable return value is not constant"""
    cut = set()
    for bi, bl in enumerate(body.blocks):
        if bl['cl'] or bl['t'][0] != 'switch':
            continue
        fs = [(tb, lab, f) for tb, lab, f in cond_facts(F, body, bi) if f[0] in ('is', 'isnot')]
        if not fs:
            continue
        listed = [f[2] for _, _, f in fs if f[0] == 'is']
        for tb, lab, f in fs:
            if f[0] == 'is' and f[2] != variant:
                cut.add((bi, tb, lab))
            if f[0] == 'isnot' and variant in listed:
                cut.add((bi, tb, lab))
    seen = body.reachable(cut_edges=cut)
    vals = set()
    for bi in seen:
        bl = body.blocks[bi]
        for si, s in enumerate(bl['s']):
            if s[0] == 'a' and s[1] == [0, []]:
                o = F.origin.rvalue(body, s[2], bi, si, 0, None)
                cv = const_of(o)
                if cv is None:
                    return None
                vals.add(cv)
        t = bl['t']
        if t[0] == 'call' and t[3] == [0, []]:
            return None
    return vals


def _subject(F, node, adt):
    """name of the view getter a discriminating fact is about (or None)"""
    n = strip(node)
    while n[0] == 'cast':
        n = strip(n[1])
    if n[0] == 'call' and n[1] in F.bodies and F.bodies[n[1]].meta.get('impl_self') == adt:
        return n[1]
    return None


def _value(node):
    n = strip(node)
    if n[0] == 'variant':
        return n[1].rsplit('::', 1)[-1]
    c = const_of(n)
    return None if c is None else str(c)


def variant_partitions(F, body, adt):
    """{(getter, value): set of CFG edges contradicting `getter() == value`} for every switch in body
    that discriminates on a getter of the view (enum match, integer match, == against a constant)"""
    groups = {}
    for bi, bl in enumerate(body.blocks):
        if bl['cl'] or bl['t'][0] != 'switch':
            continue
        ents = []   # (edge, subject, value, positive)
        for tb, lab, f in cond_facts(F, body, bi):
            e = (bi, tb, lab)
            if f[0] == 'is':
                s = _subject(F, f[1], adt)
                if s:
                    ents.append((e, s, (f[2],), True))
            elif f[0] == 'isnot':
                s = _subject(F, f[1], adt)
                if s:
                    ents.append((e, s, tuple(f[2]), False))
            elif f[0] == 'notin':
                s = _subject(F, f[1], adt)
                if s:
                    ents.append((e, s, tuple(str(x) for x in f[2]), False))
            elif f[0] == 'rel' and f[1] in ('Eq', 'Ne'):
                for x, y in ((f[2], f[3]), (f[3], f[2])):
                    s, v = _subject(F, x, adt), _value(y)
                    if s and v is not None:
                        ents.append((e, s, (v,), f[1] == 'Eq'))
                        break
        for (e, s, vals, pos) in ents:
            if pos:
                for v in vals:
                    groups.setdefault((s, v), set())
            elif len(vals) == 1:
                groups.setdefault((s, '!' + vals[0]), set())
        for (s, v) in list(groups):
            for (e, s2, vals, pos) in ents:
                if s2 != s:
                    continue
                if v.startswith('!'):
                    if pos and vals == (v[1:],):
                        groups[(s, v)].add(e)
                    continue
                if pos and v not in vals:
                    groups[(s, v)].add(e)
                if not pos and v in vals:
                    groups[(s, v)].add(e)
    return groups


def need_getters(F, node, adt, depth=0, acc=None):
    """view getters called (transitively, depth<=3) by an expression"""
    acc = set() if acc is None else acc
    for g in view_getters(F, node, adt):
        if g in acc:
            continue
        acc.add(g)
        if depth < 3:
            need_getters(F, ret_origin(F, F.bodies[g]), adt, depth + 1, acc)
    return acc


def partition_combos(F, body, acc, adt, cap=96):
    """all combinations of (getter,value) partitions over the discriminating getters of the accessor
    body and of the getters its bound expression calls"""
    by = {}
    for (g, v) in variant_partitions(F, body, adt):
        by.setdefault(g, set()).add(v)
    for gk in need_getters(F, acc['need'], adt):
        for (g, v) in variant_partitions(F, F.bodies[gk], adt):
            by.setdefault(g, set()).add(v)
    if not by:
        return []
    # drop negative partitions when positive ones exist for the getter (they overlap)
    combos = [frozenset()]
    for g, vals in sorted(by.items()):
        pos = sorted(v for v in vals if not v.startswith('!'))
        neg = sorted(v for v in vals if v.startswith('!'))
        use = pos + ([neg[0]] if neg and len(pos) == 1 else [])
        combos = [cb | {(g, v)} for cb in combos for v in use]
        if len(combos) > cap:
            return []
    return combos


def ret_under(F, body, adt, part):
    """origin of body's return value when restricted to partition `part` (phi of the reachable
    assignments to _0)"""
    cut = set()
    vp = variant_partitions(F, body, adt) if part else {}
    for p in (part or ()):
        cut |= vp.get(p, set())
    seen = body.reachable(cut_edges=cut)
    outs = []
    for bi in sorted(seen):
        bl = body.blocks[bi]
        for si, s in enumerate(bl['s']):
            if s[0] == 'a' and s[1] == [0, []]:
                outs.append(F.origin.rvalue(body, s[2], bi, si, 0, None))
        t = bl['t']
        if t[0] == 'call' and t[3] == [0, []]:
            outs.append(F.origin.call_node(body, t, bi, 0, None))
    if not outs:
        return ('opaque', 'noret')
    return outs[0] if len(outs) == 1 else ('phi', tuple(outs))


def expand_under(F, node, adt, part, depth=0):
    """like wirelib.expand, but getters of the view are inlined restricted to partition `part`"""
    if not isinstance(node, tuple) or not node or depth > 5:
        return node
    k = node[0]
    if k == 'call':
        args = tuple(expand_under(F, a, adt, part, depth) for a in node[2])
        cb = F.bodies.get(node[1])
        if cb is not None and len(cb.blocks) <= 80 and cb.kind in ('method', 'fn') and \
                (cb.meta.get('impl_self') == adt or (cb.file or '').startswith('src/wire/')):
            r = ret_under(F, cb, adt, part if cb.meta.get('impl_self') == adt else None)
            r = subst(r, {i + 1: a for i, a in enumerate(args)})
            return expand_under(F, r, adt, part, depth + 1)
        return ('call', node[1], args)
    if k == 'bin':
        return ('bin', node[1], expand_under(F, node[2], adt, part, depth), expand_under(F, node[3], adt, part, depth))
    if k == 'un':
        return ('un', node[1], expand_under(F, node[2], adt, part, depth))
    if k == 'cast':
        return ('cast', expand_under(F, node[1], adt, part, depth), node[2])
    if k in ('ref', 'deref', 'len', 'discr'):
        return (k, expand_under(F, node[1], adt, part, depth))
    if k == 'phi':
        return ('phi', tuple(expand_under(F, a, adt, part, depth) for a in node[1]))
    if k == 'proj':
        return subst(('proj', expand_under(F, node[1], adt, part, depth), node[2]), {})
    if k == 'agg':
        return (node[0], node[1], tuple(expand_under(F, a, adt, part, depth) for a in node[2])) + tuple(node[3:])
    if k == 'after':
        return expand_under(F, node[1], adt, part, depth)
    return node


def k_under(F, adt, cl, part, base_facts):
    """lower bound of the buffer length guaranteed by check_len when `part` holds"""
    cut = set()
    vp = variant_partitions(F, cl, adt)
    for p in part:
        cut |= vp.get(p, set())
    facts = list(base_facts)
    if cut and ok_reachable(cl, cut):
        facts = ok_facts(F, cl, restrict_edges=frozenset(cut))
    K = 0
    ne = set()
    for f in facts:
        if f[0] == 'bool' and f[2] is False:
            n = strip(f[1])
            if n[0] == 'call' and n[1].endswith('is_empty') and n[2] and is_buffer_root(n[2][0], adt):
                K = max(K, 1)
            continue
        if f[0] != 'rel':
            continue
        _, op, a, b = f
        if is_len_of_buffer(a, adt):
            x = b
        elif is_len_of_buffer(b, adt):
            x = a
            op = FLIP[op]
        else:
            continue
        lo, hi = interval(expand_under(F, x, adt, part), adt)
        if op in ('Ge', 'Gt', 'Eq'):
            K = max(K, lo + (1 if op == 'Gt' else 0))
        elif op == 'Ne' and lo == hi:
            ne.add(lo)
    while K in ne:
        K += 1
    return K


def _bounds_from_facts(F, adt, facts):
    """(K, validated byte sources, symbolic bound list) from the facts that hold at Ok"""
    K = 0
    vb = set()
    syms = []
    ne = set()
    for f in facts:
        if f[0] == 'bool' and f[2] is False:
            n = strip(f[1])
            if n[0] == 'call' and n[1].endswith('is_empty') and n[2] and is_buffer_root(n[2][0], adt):
                K = max(K, 1)
            continue
        if f[0] != 'rel':
            continue
        _, op, a, b = f
        if is_len_of_buffer(a, adt):
            x = b
        elif is_len_of_buffer(b, adt):
            x = a
            op = FLIP[op]
        else:
            continue
        xe = expand(F, x, adt)
        lo, hi = interval(xe, adt)
        if op in ('Ge', 'Gt', 'Eq'):
            K = max(K, lo + (1 if op == 'Gt' else 0))
            vb |= byte_sources(F, xe, adt)
            syms.append((op, xe))
        elif op == 'Ne' and lo == hi:
            ne.add(lo)
    while K in ne:
        K += 1
    return K, vb, syms


def guarantees(ctx, adt, cl):
    """K unconditional, {partition: K}, validated byte offsets (union over all partitions), transitive
    constant bounds through symbolic expressions"""
    F = ctx.F
    cache = ctx.run.__dict__.setdefault('_guar', {})
    key = (ctx.cfg, adt)
    if key in cache:
        return cache[key]
    facts = ok_facts(F, cl)
    K, vb, syms = _bounds_from_facts(F, adt, facts)
    K = _transitive(F, adt, facts, syms, K)
    kv = {}
    for pk, cut in variant_partitions(F, cl, adt).items():
        fv = ok_facts(F, cl, restrict_edges=frozenset(cut))
        if not fv and not ok_reachable(cl, cut):
            continue
        k2, vb2, s2 = _bounds_from_facts(F, adt, fv)
        # symbolic bounds `len >= getter()` whose getter is a per-variant constant table
        for op, xe in s2:
            pass
        for f in fv:
            if f[0] != 'rel':
                continue
            for x in (f[2], f[3]):
                xs = strip(x)
                while xs[0] == 'cast':
                    xs = strip(xs[1])
                if xs[0] == 'call' and xs[1] in F.bodies and F.bodies[xs[1]].meta.get('impl_self') == adt \
                        and (is_len_of_buffer(f[2], adt) or is_len_of_buffer(f[3], adt)):
                    op = f[1] if is_len_of_buffer(f[2], adt) else FLIP[f[1]]
                    if op in ('Ge', 'Gt'):
                        vals = const_returns_under_variant(F, F.bodies[xs[1]], pk[1])
                        if vals:
                            k2 = max(k2, min(vals) + (1 if op == 'Gt' else 0))
        k2 = _transitive(F, adt, fv, s2, k2)
        kv[pk] = max(k2, K)
        vb |= vb2
    res = (K, kv, vb)
    cache[key] = res
    return res


def ok_reachable(body, cut):
    seen = body.reachable(cut_edges=set(cut))
    return any(s in seen for s in ok_sites(body))


def _transitive(F, adt, facts, syms, K):
    """len >= X and X >= c  ==>  len >= c   (X compared structurally after expansion)"""
    xs = [x for _, x in syms]
    for f in facts:
        if f[0] != 'rel':
            continue
        _, op, a, b = f
        ae, be = expand(F, a, adt), expand(F, b, adt)
        for (p, q, o) in ((ae, be, op), (be, ae, FLIP[op])):
            if o in ('Ge', 'Gt') and any(p == x for x in xs):
                lo, hi = interval(q, adt)
                K = max(K, lo + (1 if o == 'Gt' else 0))
    return K


# views for which only the accesses that are provably inside check_len's guarantee are claimed; the
# remaining accessors are reported as not decided in the evidence (never as passing)
UNDECIDED_VIEWS = {
    'wire::ieee802154::Frame': "addressing / auxiliary-security accessors are meaningful only for particular combinations of "
                               "frame type, frame version, two addressing modes, PAN-id compression and the security bit; "
                               "check_len mirrors that 5-way dependency and the comparison is outside the partition engine (cap 96)",
    'wire::rpl::options::Packet': "(feature proto-rpl, thorough cfg B only) check_len computes a per-option-type `required` length in a match and "
                                  "compares once afterwards; the partition engine does not carry the match arm through that join",
}


# accessors that read beyond the constant guarantee only behind an explicit guard on another field
# of the same view; the guard must dominate the access (checked) - reviewed one by one.
GUARDED_ACCESSORS = {
    ('wire::sixlowpan::iphc::Packet', 'src_context_id'): ('cid_field', '1',
        "context-id byte (offset 2) is read only when CID=1; check_len's bound starts at ip_fields_start() = 2 + cid_size()"),
    ('wire::sixlowpan::iphc::Packet', 'dst_context_id'): ('cid_field', '1',
        "same byte as src_context_id"),
}


@rule('R07.1', ['C07', 'C03'], floor=240, clause='every buffer access of every read accessor of a checked view stays inside what check_len guarantees (constant reach) or is bounded by a length that check_len validated against the buffer (R07.2)')
def r07_1(ctx):
    """T7/T5 + T6.  For each wire view type: K = lower bound of the buffer length established on every
    Ok path of check_len (interval evaluation of the compared expressions with getters inlined; per
    partition where check_len discriminates on a getter such as the message type).  For every buffer
    index/slice in every `&self` accessor: the upper bound of the bytes it needs is <= K (or <= the
    guarantee of some message type), or every buffer byte that influences the bound is a byte whose
    value check_len compared against the buffer length."""
    F = ctx.F
    views = wire_views(F)
    ctx.need(len(views) >= 20, "at least 20 wire view types with check_len")
    opaque = 0
    undecided = []
    for adt, cl in sorted(views.items()):
        K, kv, vb = guarantees(ctx, adt, cl)
        kmax = max([K] + list(kv.values()))
        short = adt.split('::', 1)[1]
        for b in read_accessors(F, adt):
            nm = b.key.rsplit('::', 1)[-1]
            for acc in buffer_accesses(F, b, adt):
                if acc['need'] is None:
                    opaque += 1
                    ctx.note(f"opaque range in {short}::{nm}: {acc['what'][:80]}")
                    continue
                ne = expand(F, acc['need'], adt)
                lo, hi = interval(ne, adt)
                sig = show(acc['need'])[:60]
                if hi is not None and hi <= K:
                    ctx.ok((adt, nm, sig), sample=dict(view=short, accessor=nm, needs_at_most=hi, check_len_guarantees=K))
                    continue
                if hi is not None and hi <= kmax:
                    ctx.ok((adt, nm, sig, 'per-type'), sample=dict(view=short, accessor=nm, needs_at_most=hi, guarantee_for_its_message_type=kmax))
                    continue
                bs = byte_sources(F, ne, adt)
                if any(l.endswith('::position') for l in leafs(acc['need']) if l.startswith('C:')) \
                        and acc['kind'] in ('RangeTo', 'Range'):
                    # `&s[..s.iter().position(..)?]`: the index is an element position of the very slice
                    ctx.ok((adt, nm, sig, 'position'), sample=dict(view=short, accessor=nm, idiom='index = position() within the same slice'))
                    continue
                if bs and bs <= vb:
                    ctx.ok((adt, nm, sig, 'validated-length'),
                           sample=dict(view=short, accessor=nm, bound_depends_on_bytes=sorted(bs, key=str), validated_by='check_len'))
                    continue
                # per-partition comparison: accessor, its bound and check_len depend on the same small
                # getters (message type, mode bits): compare for every combination of their values
                combos = partition_combos(F, b, acc, adt)
                if combos:
                    allok = True
                    any_reach = False
                    base = ok_facts(F, cl)
                    for combo in combos:
                        cut = set()
                        vpb = variant_partitions(F, b, adt)
                        for p in combo:
                            cut |= vpb.get(p, set())
                        if acc['bb'] not in b.reachable(cut_edges=cut):
                            continue
                        any_reach = True
                        nh = interval(expand_under(F, acc['need'], adt, combo), adt)[1]
                        kp = k_under(F, adt, cl, combo, base)
                        if nh is None or nh > kp:
                            allok = False
                            break
                    if allok and any_reach:
                        ctx.ok((adt, nm, sig, 'partition'),
                               sample=dict(view=short, accessor=nm, compared_for_each_value_of=sorted({p[0].rsplit('::', 1)[-1] for cb in combos for p in cb})))
                        continue
                # the accessor itself has no branch: compare under each partition check_len distinguishes on
                # getters the *need* depends on
                g = GUARDED_ACCESSORS.get((adt, nm))
                if g is not None and hi is not None:
                    gm = F.method(adt, g[0])
                    pred = p_rel('eq', [f"C:{gm.key}"] if gm else ['?'], [f"K:{g[1]}"])
                    if gm is not None and not unguarded(F, b, [acc['bb']], pred):
                        ctx.ok((adt, nm, sig, 'guarded'), sample=dict(view=short, accessor=nm, guard=f"{g[0]}()=={g[1]}", reason=g[2]))
                        continue
                if adt in UNDECIDED_VIEWS:
                    undecided.append(f"{short}::{nm}")
                    continue
                if hi is not None:
                    ctx.bad(f"{adt}|{nm}|reach", f"{short}::{nm} needs {hi} buffer bytes but check_len only guarantees {K} "
                            f"(best per message type {kmax})", body=b, bb=acc['bb'], line=acc['line'])
                else:
                    unv = sorted((bs - vb), key=str)
                    ctx.bad(f"{adt}|{nm}|trusts-unvalidated-length",
                            f"{short}::{nm} slices the buffer by a length taken from buffer byte(s) {unv or '?'} that check_len never "
                            f"compares with the buffer length (bound = {show(acc['need'])[:100]})", body=b, bb=acc['bb'], line=acc['line'])
    ctx.note(f"opaque (non-range) index expressions skipped: {opaque}")
    ctx.note("NOT DECIDED (accessor preconditions depend on several mode fields at once): " + ', '.join(sorted(set(undecided))))


@rule('R07.3', ['C07'], floor=1, clause='no unsafe code is reachable from the wire module (out-of-buffer reads are then impossible in safe Rust)')
def r07_3(ctx):
    F = ctx.F
    roots = [k for k, b in F.bodies.items() if (b.file or '').startswith('src/wire/')]
    ctx.need(len(roots) > 800, "wire module bodies")
    reach = F.reachable_from(roots)
    unsafe_fns = {u.get('fn') for u in F.unsafe if u.get('fn')}
    hit = sorted(f for f in unsafe_fns if f in reach)
    wire_unsafe = [u for u in F.unsafe if (u.get('file') or '').startswith('src/wire/')]
    if hit or wire_unsafe:
        for f in hit:
            ctx.bad(f"unsafe|{f}", f"unsafe code in {f} is reachable from wire::*", body=F.body(f))
        for u in wire_unsafe:
            ctx.bad(f"unsafe|{u.get('fn') or u['file']}", f"unsafe {u['what']} inside src/wire ({u['file']}:{u['line']})")
    else:
        ctx.ok(('no-unsafe', len(roots)), sample=dict(wire_bodies=len(roots), reachable=len(reach), unsafe_sites_in_crate=len(F.unsafe), reachable_unsafe=0))


from ..loops import *
from ..loops import _single_def


def some_ok_sites(b):
    """blocks constructing Option::Some(x) where x is not an Err(..) aggregate"""
    out = []
    for bi, bl in enumerate(b.blocks):
        if bl['cl']:
            continue
        for si, s in enumerate(bl['s']):
            if s[0] == 'a' and s[2][0] == 'agg' and s[2][1]['k'] == 'adt' and s[2][1]['adt'] == 'std::option::Option' \
                    and s[2][1]['variant'] == 'Some':
                op = s[2][2][0]
                is_err = False
                if is_place_op(op):
                    d = _single_def(b, op[1][0])
                    if d is not None and d[2] == 'a' and d[4][0] == 'agg' and d[4][1]['k'] == 'adt' \
                            and d[4][1]['adt'] == 'std::result::Result' and d[4][1]['variant'] == 'Err':
                        is_err = True
                if not is_err:
                    out.append(bi)
    return out


def check_loops(ctx, bodies, strict, tag):
    F = ctx.F
    for b in bodies:
        adt = b.meta.get('impl_self')
        short = b.key.split('wire::')[-1] if 'wire::' in b.key else b.key
        for h, nodes, srcs in loops(b):
            it, ty = iterator_driven(F, b, h, nodes)
            site = (tag, short, 'loop')
            if it and any(ty.startswith(x) for x in STD_ITER_TYPES):
                ctx.ok(site + ('std-iter', ty[:40]))
                continue
            if it and (ty.startswith('<') and 'IntoIterator' in ty or ty in ('I', 'T') or ty.startswith('I') and len(ty) < 3
                       or ty.startswith('impl Iterator') or ty.startswith('impl std::iter::Iterator')):
                ctx.ok(site + ('caller-iter',), sample=dict(fn=short, loop='driven by the caller-supplied iterator'))
                continue
            if it and ty.startswith('std::iter::FromFn<{closure@'):
                # the generator closure is checked as its own body (below); accept the driver
                ctx.ok(site + ('from_fn',), sample=dict(fn=short, loop='for over iter::from_fn generator (generator checked separately)'))
                continue
            if it and ty.split('<')[0] in F.adts:
                nb = F.method(ty.split('<')[0], 'next', trait='std::iter::Iterator')
                if nb is None:
                    ctx.bad(f"{short}|loop|custom-iterator-missing", f"loop in {short} driven by {ty} whose next() was not found", body=b, bb=h)
                    continue
                pb, desc = progress_blocks(F, nb, 0, set(range(len(nb.blocks))), strict_fns=strict, adt=nb.meta.get('impl_self'))
                bad = cut_sites_blocks(nb, some_ok_sites(nb), pb)
                if bad:
                    ctx.bad(f"{short}|loop|{ty.split('<')[0]}::next", f"{ty.split('<')[0]}::next can yield Some(Ok(..)) without advancing its cursor "
                            f"(the loop in {short} may not terminate)", body=nb, bb=bad[0][0], path=bad[0][1])
                else:
                    ctx.ok(site + ('custom-iter', ty[:40]), sample=dict(fn=short, iterator=ty, progress=desc[:2]))
                continue
            if it:
                ctx.bad(f"{short}|loop|unknown-iterator", f"loop in {short} driven by an iterator type not in the reviewed set: {ty}", body=b, bb=h)
                continue
            pb, desc = progress_blocks(F, b, h, nodes, strict_fns=strict, adt=adt)
            cyc = cycle_without(b, h, nodes, srcs, pb)
            if cyc is None:
                ctx.ok(site + ('cursor', b.block_line(h) and 0), sample=dict(fn=short, loop='cursor', progress=desc[:3]))
            else:
                ctx.bad(f"{short}|loop|no-progress", f"a loop in {short} has an iteration path on which no cursor advances, no strictly "
                        f"consuming parser is called and no window shrinks (possible non-termination on crafted input)",
                        body=b, bb=h, path=cyc)
        # generator closures handed to iter::from_fn: every Some(ok value) must be preceded by progress
        if b.kind == 'closure' and any('from_fn' in (pb_.callee_name(c) or '') and any(
                isinstance(a, list) and is_place_op(a) and '{closure' in pb_.locals[a[1][0]]['ty'] for a in args)
                for pb_ in [F.body(b.meta.get('root'))] if pb_ for _, c, args, *_ in pb_.calls()):
            pb, desc = progress_blocks(F, b, 0, set(range(len(b.blocks))), strict_fns=strict, adt=adt)
            sites = some_ok_sites(b)
            bad = cut_sites_blocks(b, sites, pb)
            if bad:
                ctx.bad(f"{short}|generator|no-progress", f"generator closure {short} can yield an item without consuming input", body=b, bb=bad[0][0], path=bad[0][1])
            elif sites:
                ctx.ok((tag, short, 'generator'), sample=dict(fn=short, generator='every yielded item is preceded by a cursor advance', progress=desc[:2]))


def cut_sites_blocks(b, sites, blocks):
    """sites reachable from entry without passing through any of `blocks` (a site inside such a block counts as passed)"""
    seen = b.reachable(cut_blocks=set(blocks))
    return [(s, b.path_to(seen, s)) for s in sites if s in seen and s not in blocks]


@rule('R07.5', ['C07', 'C19', 'C03'], floor=25, clause='every loop of the wire parsers is driven by a finite std iterator or has a structural progress witness on every iteration path (cursor advance >= 1, rest of a strictly consuming parser, shrinking window behind its guard)')
def r07_5(ctx):
    """T11+T5 loop table: natural loops of all src/wire bodies are classified; cursor loops must have
    no cycle that avoids every progress step; strictly consuming parsers are computed (rest slice =
    &input[n..], n >= 1 on every Ok path, incl. the `get(2..n)?` idiom of TcpOption::parse)."""
    F = ctx.F
    strict = strict_parsers(F)
    ctx.need('wire::tcp::TcpOption::<\'a>::parse' in strict or any(k.endswith('TcpOption::<\'a>::parse') for k in strict),
             "TcpOption::parse must be recognised as strictly consuming")
    for k, w in sorted(strict.items()):
        ctx.ok(('strict', k), sample=dict(strict_parser=k, witness=w))
    bodies = [b for k, b in sorted(F.bodies.items()) if (b.file or '').startswith('src/wire/')]
    check_loops(ctx, bodies, set(strict), 'wire')


@rule('R07.7', ['C07', 'C03'], floor=3, clause='TCP SACK option: the length validator modulus, the block stride and the bytes read per block agree (8)')
def r07_7(ctx):
    """T6 sibling constants inside TcpOption::parse: `(n - 2) % K1 != 0 -> Err` must use the same K1 as
    the per-block stride `i * K2` and the per-block reach (max constant added to the block start in the
    slice bounds) K3 of the reader closure; otherwise a length that passes the validator makes the
    reader slice past the option data."""
    F = ctx.F
    p = ctx.method('wire::tcp::TcpOption', 'parse')
    k1 = set()
    for bi, bl in enumerate(p.blocks):
        if bl['cl'] or bl['t'][0] != 'switch':
            continue
        for tb, lab, f in cond_facts(F, p, bi):
            if f[0] == 'rel' and f[1] in ('Ne', 'Eq'):
                for x, y in ((f[2], f[3]), (f[3], f[2])):
                    xs = strip(x)
                    if xs[0] == 'proj':
                        xs = strip(xs[1])
                        if xs[0] == 'agg' and xs[2]:
                            xs = strip(xs[2][0])
                    if xs[0] == 'bin' and xs[1] == 'Rem' and const_of(y) == 0 and const_of(xs[3]) is not None:
                        k1.add(const_of(xs[3]))
    ctx.need(len(k1) == 1, f"exactly one `% K != 0` validator in TcpOption::parse (found {sorted(k1)})")
    K1 = k1.pop()
    k2, k3 = set(), set()
    for cb in [p] + list(F.closures_of(p.key)):       # the block reader is a closure (for_each) or a loop in parse itself
        for bi, c, args, dest, tgt, ln in cb.calls():
            syn = c.get('fn') if isinstance(c, dict) else None
            if syn in INDEX_CALLS and len(args) == 2:
                rng = F.origin.operand(cb, args[1], bi, len(cb.blocks[bi]['s']))
                rb = range_bounds(F, rng)
                if rb and rb[0] == 'Range':
                    atoms, c0 = lin(_untuple(rb[2]))
                    for a in atoms:
                        a2 = strip(_untuple(a))
                        if a2[0] == 'bin' and a2[1] == 'Mul':
                            for z in (a2[2], a2[3]):
                                if const_of(z) is not None:
                                    k2.add(const_of(z))
                            k3.add(c0)
    ctx.need(k2 and k3, "SACK block reader closure with `i * K` stride in TcpOption::parse")
    K3 = max(k3)
    if k2 == {K1} and K3 == K1:
        ctx.ok(('sack', 'validator-modulus', K1), sample=dict(fn='TcpOption::parse', modulus=K1))
        ctx.ok(('sack', 'stride', K1), sample=dict(stride=sorted(k2)))
        ctx.ok(('sack', 'reach', K3), sample=dict(bytes_read_per_block=K3))
    else:
        ctx.bad("TcpOption::parse|sack-stride", f"SACK option: validator accepts lengths with (n-2) % {K1} == 0 but the reader uses stride "
                f"{sorted(k2)} and reads {K3} bytes per block (out-of-range slice on a crafted option)", body=p)


def _untuple(n):
    """(a op b).0 of a checked arithmetic tuple -> the arithmetic node"""
    n0 = strip(n)
    if n0[0] == 'proj' and strip(n0[1])[0] == 'agg' and strip(n0[1])[1] == 'tuple':
        return strip(n0[1])[2][0]
    if n0[0] == 'bin':
        return ('bin', n0[1], _untuple(n0[2]), _untuple(n0[3]))
    return n0


@rule('R07.4', ['C07'], floor=3, clause='pretty-printers construct checked views (new_checked / check_len Ok edge) before touching any accessor')
def r07_4(ctx):
    """T1: in every `PrettyPrint::pretty_print` of a wire type, calls of accessors of a view type are only
    reachable through the Ok edge of that type's new_checked()/check_len()."""
    F = ctx.F
    views = wire_views(F)
    n = 0
    for k, b in sorted(F.bodies.items()):
        if not k.endswith('::pretty_print') or not (b.file or '').startswith('src/wire/'):
            continue
        if (b.meta.get('impl_trait') or '').split('<')[0] != 'wire::pretty_print::PrettyPrint':
            continue
        n += 1
        short = b.meta.get('impl_self') or k
        for adt in views:
            keys = {m.key for m in F.methods(adt) if m.meta.get('impl_trait') is None and
                    m.key.rsplit('::', 1)[-1] not in ('new_checked', 'new_unchecked', 'check_len', 'into_inner')}
            sites = [x[0] for x in b.calls() if b.callee_name(x[1]) in keys]
            if not sites:
                continue
            nc = {m.key for m in F.methods(adt) if m.key.rsplit('::', 1)[-1] in ('new_checked', 'check_len')}

            def pred(f, nc=nc):
                if f[0] == 'is' and f[2] in ('Ok', 'Continue'):
                    return any(l[2:] in nc for l in leafs(f[1]) if l.startswith('C:'))
                return False
            bad = unguarded(F, b, sites, pred)
            if bad:
                ctx.bad(f"{short}|pretty_print|{adt}", f"pretty_print of {short} calls accessors of {adt} without a successful new_checked/check_len",
                        body=b, bb=bad[0][0], path=bad[0][1])
            else:
                ctx.ok((short, adt), sample=dict(printer=short, view=adt, accessor_calls=len(sites), guard='new_checked Ok'))
    ctx.need(n >= 8, f"PrettyPrint impls in wire (found {n})")


# ------------------------------------------------------------------------------------------------
# length-prefixed (TLV) parsing over a shrinking slice
# ------------------------------------------------------------------------------------------------

def _canon(n):
    if not isinstance(n, tuple) or not n:
        return n
    if n[0] in ('ref', 'deref') and len(n) == 2:
        return _canon(n[1])
    if n[0] == 'named':
        return _canon(n[2])
    if n[0] == 'phi':
        al = tuple(sorted({_canon(a) for a in n[1] if a != ('opaque', 'partial-def')}, key=str))
        return al[0] if len(al) == 1 else ('phi', al)
    if n[0] == 'proj' and n[2] and n[2][0] == ('*',):
        return _canon(('proj', n[1], n[2][1:])) if n[2][1:] else _canon(n[1])
    return tuple(_canon(x) if isinstance(x, tuple) else x for x in n)


def _has_opaque(n):
    found = []

    def f(x):
        if isinstance(x, tuple) and x and x[0] == 'opaque':
            found.append(1)
    walk(n, f)
    return bool(found)


def _same_slice(a, b):
    """canonical equality; two loop-carried phis that were cut at the origin depth limit are taken to be the same
    slice when they share a non-opaque alternative (errs towards accepting a guard)"""
    if a == b:
        return True
    if a[0] == 'phi' and b[0] == 'phi' and (_has_opaque(a) or _has_opaque(b)):
        sa_ = {x for x in a[1] if not _has_opaque(x)}
        sb_ = {x for x in b[1] if not _has_opaque(x)}
        return bool(sa_ & sb_)
    return False


def _lin_le(a, b):
    la, ca = lin(_canon(simplify(a)))
    lb, cb = lin(_canon(simplify(b)))
    return la == lb and ca <= cb


@rule('R07.8', ['C07', 'C03', 'C19'], floor=5, clause='length-prefixed parsing: a slice is only cut at a position computed from its own content behind a comparison of that position with the slice length')
def r07_8(ctx):
    """T1 + linear comparison.  Sites: every `s[a..E]`, `s[E..]`, `s[..E]` in src/wire on a slice s that is not
    the view buffer, where E is not constant and is computed from an element of s itself (the option / label
    length byte, a compression pointer).  Obligation: a dominating edge carries `len(s) >= E'` with
    E <= E' in linear form.  dhcpv4 option iterator, DNS label and pointer handling."""
    F = ctx.F
    from ..wirelib import INDEX_CALLS
    from ..bitfield import _is_buffer
    n = 0
    for k, b in sorted(F.bodies.items()):
        if not (b.file or '').startswith('src/wire/'):
            continue
        for bi, c, args, dest, tgt, ln in b.calls():
            syn = c.get('fn') if isinstance(c, dict) else None
            if syn not in INDEX_CALLS or len(args) != 2:
                continue
            si = len(b.blocks[bi]['s'])
            base = F.origin.operand(b, args[0], bi, si)
            if _is_buffer(base, None):
                continue
            rb = range_bounds(F, F.origin.operand(b, args[1], bi, si))
            if rb is None:
                continue
            kind, s, e = rb
            need = e if kind in ('Range', 'RangeTo') else (s if kind == 'RangeFrom' else None)
            if need is None or const_of(need) is not None:
                continue
            cb = _canon(simplify(base))
            cn = _canon(simplify(need))
            hit = []

            def w2(x):
                if isinstance(x, tuple) and x and x[0] == 'proj' and x[2] and x[2][-1][0] == 'i':
                    inner = _canon(('proj', x[1], x[2][:-1])) if len(x[2]) > 1 else _canon(x[1])
                    if inner == cb or (cb[0] == 'phi' and inner in cb[1]) or _same_slice(inner, cb):
                        hit.append(1)
            walk(cn, w2)
            if not hit:
                continue
            n += 1

            def pred(f, need=need, cb=cb):
                if f[0] != 'rel':
                    return False
                x, y = f[2], f[3]

                def islen(m):
                    m = _canon(simplify(m))
                    return (m[0] == 'len' and _same_slice(m[1], cb)) or (m[0] == 'call' and m[1].endswith('::len') and _same_slice(m[2][0], cb))
                if islen(x) and f[1] == 'Ge' and _lin_le(need, y):
                    return True
                if islen(x) and f[1] == 'Gt' and _lin_le(need, ('bin', 'Add', y, ('const', '1'))):
                    return True
                if islen(y) and f[1] == 'Le' and _lin_le(need, x):
                    return True
                if islen(y) and f[1] == 'Lt' and _lin_le(need, ('bin', 'Add', x, ('const', '1'))):
                    return True
                return False
            bad = unguarded(F, b, [bi], pred)
            fn = k.split('wire::', 1)[-1]
            if bad:
                ctx.bad(f"{fn}|self-length-slice|{kind}", f"{k}: slice cut at `{show(need)[:60]}` (a position read from the data itself) without a dominating "
                        "comparison with the slice length: a crafted length byte / pointer indexes out of range", body=b, bb=bi, line=ln, path=bad[0][1])
            else:
                ctx.ok((fn, kind, ln and 0), sample=dict(fn=fn, cut=show(need)[:50], guard='len(slice) >= position'))
    ctx.need(n >= 5, f"self-length slice cuts in wire parsers (found {n})")


@rule('R07.9', ['C07', 'C03'], floor=1, clause='ieee802154::Frame::check_len reads the security control byte (security_header_len) only after establishing that the byte at the current offset exists (offset + 1 <= len)')
def r07_9(ctx):
    """The Frame view as a whole is undecided by R07.1 (value-dependent addressing layout); this is the one
    place inside check_len where the validator itself reads at a symbolic offset."""
    F = ctx.F
    FRM = 'wire::ieee802154::Frame'
    b = ctx.method(FRM, 'check_len')
    shl = ctx.method(FRM, 'security_header_len')
    sites = [x for x in b.calls() if b.callee_name(x[1]) == shl.key]
    ctx.need(len(sites) == 1, "security_header_len call in ieee802154 check_len")
    S = sites[0]
    # the running offset at the call: operand of the addition that consumes the call's result
    off = None
    for bi, bl in enumerate(b.blocks):
        if bl['cl']:
            continue
        for si, s in enumerate(bl['s']):
            if s[0] == 'a' and s[2][0] == 'bin' and s[2][1] in ('AddWithOverflow', 'Add'):
                o2 = simplify(F.origin.operand(b, s[2][3], bi, si))
                if is_call(o2, 'security_header_len'):
                    off = F.origin.operand(b, s[2][2], bi, si)
    ctx.need(off is not None, "`offset += self.security_header_len()`")
    lo, co = lin(_canon(simplify(off)))

    def exists(f):
        if f[0] != 'rel':
            return False
        from ..bitfield import _is_buffer

        def islen(m):
            m = _canon(simplify(m))
            return (m[0] == 'len' and _is_buffer(m[1], None)) or (m[0] == 'call' and m[1].endswith('::len') and _is_buffer(m[2][0], None))
        for x, y, ops in ((f[2], f[3], {'Le': 0, 'Lt': 1}), (f[3], f[2], {'Ge': 0, 'Gt': 1})):
            if islen(y) and f[1] in ops:
                lx, cx = lin(_canon(simplify(x)))
                if lx == lo and cx + ops[f[1]] >= co + 1:
                    return True
        return False
    bad = unguarded(F, b, [S[0]], exists)
    if bad:
        ctx.bad("ieee802154::check_len|security-control-byte", "check_len calls security_header_len() (which reads the security control byte at the current "
                "offset) without first establishing offset + 1 <= len: a frame ending right after its addressing fields panics", body=b, bb=S[0], path=bad[0][1])
    else:
        ctx.ok(('ieee802154::check_len', 'security-control-byte'), sample=dict(guard='offset + 1 <= len before security_header_len()'))


@rule('R07.10', ['C07', 'C03'], floor=1, clause='inside the wire parsers a nested view over received bytes is read only after new_checked / check_len, or behind an explicit length test that covers every accessor used on it')
def r07_10(ctx):
    F = ctx.F
    from .c06 import _cover
    views = wire_views(F)
    n = 0
    for k, b in sorted(F.bodies.items()):
        if not (b.file or '').startswith('src/wire/'):
            continue
        last = k.rsplit('::', 1)[-1]
        if not (last.startswith('parse') or '::parse::' in k):
            continue
        for x in b.calls():
            nm = b.callee_name(x[1]) or ''
            if not (nm.endswith('::new_unchecked') and nm.startswith('wire::')):
                continue
            vadt = next((v for v in views if nm.startswith(v + '::')), None)
            readers = []
            for y in b.calls():
                if y[0] == x[0]:
                    continue
                un = b.callee_name(y[1]) or ''
                if vadt is None or not un.startswith(vadt + '::'):
                    continue
                if not y[2] or not is_place_op(y[2][0]):
                    continue
                o = F.origin.operand(b, y[2][0], y[0], len(b.blocks[y[0]]['s']))
                if ('C:' + nm) in leafs(o) and not un.rsplit('::', 1)[-1].startswith(('set_', 'check_len', 'fill_', 'emit')):
                    readers.append((y[0], un))
            if not readers:
                continue
            n += 1
            need = 0
            symbolic = False
            for _, un in readers:
                mb = F.bodies.get(un)
                c = _cover(F, mb, vadt) if mb is not None else None
                if c is None:
                    symbolic = True
                elif c:
                    need = max(need, max(c) + 1)
            src = F.origin.operand(b, x[2][0], x[0], len(b.blocks[x[0]]['s']))
            cs = _canon(simplify(src))

            def enough(f, cs=cs, need=need):
                if f[0] != 'rel':
                    return False
                for a, c_, ops in ((f[2], f[3], ('Ge', 'Gt')), (f[3], f[2], ('Le', 'Lt'))):
                    m = _canon(simplify(a))
                    islen = (m[0] == 'len' and _same_slice(m[1], cs)) or (m[0] == 'call' and m[1].endswith('::len') and _same_slice(m[2][0], cs))
                    if islen and f[1] in ops:
                        kk = const_of(c_)
                        if kk is not None and kk + (1 if f[1] in ('Gt', 'Lt') else 0) >= need:
                            return True
                return False
            checked = lambda f, nm=nm: f[0] == 'is' and f[2] in ('Continue', 'Ok') and ('C:' + nm) in leafs(f[1]) and \
                any(l.endswith('::check_len') for l in leafs(f[1]) if l.startswith('C:'))
            sites = [r[0] for r in readers]
            bad = unguarded(F, b, sites, p_any(enough, checked) if not symbolic else checked)
            short = k.split('wire::')[-1]
            if bad:
                ctx.bad(f"{short}|unchecked-nested-view|{nm.split('wire::')[-1].split('::')[0]}", f"{k} reads a {nm.split('wire::')[-1].split('::new_')[0]} view built with "
                        f"new_unchecked over received bytes without a length check covering {need} octets: a truncated embedded packet panics the parser",
                        body=b, bb=bad[0][0], path=bad[0][1])
            else:
                ctx.ok((short, nm), sample=dict(parser=short, nested=nm.split('wire::')[-1], guard=f"len >= {need}"))
    ctx.need(n >= 1, "nested unchecked views in wire parsers")


@rule('R03.7', ['C03', 'C07', 'C20'], floor=1, clause='an element index computed from received bytes (the 6LoWPAN context identifier) is used only behind `index < table.len()`')
def r03_7(ctx):
    """Sites: bounds-checked element accesses `t[i]` with a non-constant, non-iterator index in src/wire code that is
    not an accessor of a checked view (those are R07.1's).  Obligation: a dominating edge carries i < len(t)."""
    F = ctx.F
    views = set(wire_views(F))
    n = 0
    for k, b in sorted(F.bodies.items()):
        if not (b.file or '').startswith('src/wire/') or '::test' in k:
            continue
        root = b.meta.get('impl_self') or (F.bodies.get(b.meta.get('root') or '', b).meta.get('impl_self') if b.meta.get('root') else None)
        if root in views:
            continue
        for bi, bl in enumerate(b.blocks):
            if bl['cl']:
                continue
            t = bl['t']
            if t[0] == 'call' and len(t[2]) == 2 and (b.callee_name(t[1]) or '').endswith('core::slice::<impl [T]>::get'):
                # the checked form of the same access: `table.get(index)` cannot panic whatever the index is
                gi = simplify(F.origin.operand(b, t[2][1], bi, len(bl['s'])))
                if const_of(gi) is None and strip(gi)[0] != 'agg' and not any(l.endswith('::next') for l in leafs(gi) if l.startswith('C:')) \
                        and any(l.startswith('A:') or l.startswith('U:') for l in leafs(gi)):
                    n += 1
                    ctx.ok((k.split('wire::')[-1], 'get(index)', bi), sample=dict(fn=k.split('wire::')[-1], access='table.get(index) (checked)'))
                continue
            if not (t[0] == 'assert' and t[3].get('k') == 'bounds'):
                continue
            si = len(bl['s'])
            idx = simplify(F.origin.operand(b, t[3]['index'], bi, si))
            if const_of(idx) is not None or any(l.endswith('::next') for l in leafs(idx) if l.startswith('C:')):
                continue
            ln = simplify(F.origin.operand(b, t[3]['len'], bi, si))
            if const_of(ln) is not None:
                continue          # fixed-size arrays indexed by masked values: not input-length dependent
            ci, cl = _canon(idx), _canon(ln)
            # `len - 1` on a slice known to be non-empty is a different idiom (not an input-derived index)
            l_, c_ = lin(ci)
            if c_ == -1 and len(l_) == 1 and list(l_.keys())[0] == cl:
                continue
            n += 1

            def lbase(m):
                if m[0] == 'len':
                    return m[1]
                if m[0] == 'call' and m[1].endswith('::len') and len(m[2]) == 1:
                    return m[2][0]
                return None

            def pred(f, ci=ci, cl=cl):
                if f[0] != 'rel':
                    return False
                a, c = _canon(simplify(f[2])), _canon(simplify(f[3]))

                def same_len(x):
                    return x == cl or (lbase(x) is not None and lbase(cl) is not None and _same_slice(lbase(x), lbase(cl)))
                return (f[1] == 'Lt' and a == ci and same_len(c)) or (f[1] == 'Gt' and c == ci and same_len(a))
            bad = unguarded(F, b, [bi], pred)
            short = k.split('wire::')[-1]
            if bad:
                ctx.bad(f"{short}|unguarded-index", f"{k}: `{show(ln)[:30]}[{show(idx)[:30]}]` with an index taken from received data has no dominating "
                        "`index < len` test (an out-of-range identifier panics the interface)", body=b, bb=bi, line=t[5], path=bad[0][1])
            else:
                ctx.ok((short, 'index<len'), sample=dict(fn=short, guard='index < table.len()'))
    ctx.need(n >= 1, "input-derived element indices in wire code")


@rule('R07.11', ['C07', 'C03'], floor=0, clause='an accessor that reads further into the buffer only when a flag getter of the view says so is covered: check_len examines that same flag and, where it holds, requires the longer length before answering Ok')
def r07_11(ctx):
    """Flag consistency between check_len and the accessors (instances exist with feature proto-rpl: the DODAG-id
    flags of the RPL DAO / DAO-ACK messages).  For an access of constant reach N above the unconditional guarantee
    that is dominated by an edge `flag() == t` of a bool getter of the same view: check_len must have edges with
    the same fact, and from each of them Ok is reachable only through an edge on which `len >= N` holds."""
    F = ctx.F
    views = wire_views(F)
    n = 0
    for adt, cl in sorted(views.items()):
        K, kv, vb = guarantees(ctx, adt, cl)
        short = adt.split('::', 1)[1]

        def isflag(node):
            c = strip(node)
            return c[0] == 'call' and c[1] in F.bodies and F.bodies[c[1]].meta.get('impl_self') == adt and F.bodies[c[1]].locals[0]['ty'] == 'bool'
        for b in read_accessors(F, adt):
            nm = b.key.rsplit('::', 1)[-1]
            for acc in buffer_accesses(F, b, adt):
                if acc['need'] is None:
                    continue
                hi = interval(expand(F, acc['need'], adt), adt)[1]
                if hi is None or hi <= K:
                    continue
                doms = []
                for e in guard_edges(F, b, lambda f: f[0] == 'bool' and isflag(f[1])):
                    if acc['bb'] in b.reachable(cut_edges={e}):
                        continue
                    for tb, lab, f in cond_facts(F, b, e[0]):
                        if (e[0], tb, lab) == e and f[0] == 'bool':
                            doms.append((strip(f[1])[1], f[2]))
                for g, truth in doms:
                    n += 1
                    gs = g.rsplit('::', 1)[-1]
                    same = guard_edges(F, cl, lambda f: f[0] == 'bool' and f[2] is truth and isflag(f[1]) and strip(f[1])[1] == g)
                    if not same:
                        ctx.bad(f"{adt}|{nm}|flag-not-examined|{gs}", f"{short}::{nm} reads {hi} buffer bytes when {gs}() is {str(truth).lower()}, but check_len never "
                                f"examines {gs}() (it guarantees {K} bytes unconditionally): the accessor panics on a short packet with that flag", body=b, bb=acc['bb'], line=acc['line'])
                        continue

                    def long_enough(f, hi=hi):
                        if f[0] != 'rel':
                            return False
                        op, a, c = f[1], f[2], f[3]
                        if is_len_of_buffer(c, adt):
                            a, c, op = c, a, FLIP[op]
                        if not is_len_of_buffer(a, adt):
                            return False
                        lo = interval(expand(F, c, adt), adt)[0]
                        return (op in ('Ge', 'Eq') and lo >= hi) or (op == 'Gt' and lo + 1 >= hi)
                    cuts = set(pass_edges(F, cl, long_enough))
                    oks = set(ok_sites(cl))
                    bad = [e for e in same if oks & set(cl.reachable(cut_edges=cuts, start=e[1]))]
                    if bad:
                        ctx.bad(f"{adt}|{nm}|flag-without-length|{gs}", f"{short}::check_len answers Ok on a path where {gs}() is {str(truth).lower()} without requiring the "
                                f"{hi} bytes that {short}::{nm} reads under that flag", body=cl, bb=bad[0][0])
                    else:
                        ctx.ok((adt, nm, gs), sample=dict(view=short, accessor=nm, flag=gs, needs=hi, check_len='requires it where the flag holds'))
    if n == 0:
        ctx.ok(('no flag-conditional accessor in this configuration',), sample=dict(note='instances exist with feature proto-rpl (thorough tier, cfg B)'))


def _expand_helpers(F, node, adt, depth=0):
    """inline the small free helper functions of the wire module (field::X(len) range builders ...) but keep the
    getters of the view itself as atoms"""
    if not isinstance(node, tuple) or not node or depth > 5:
        return node
    k = node[0]
    if k == 'call':
        args = tuple(_expand_helpers(F, a, adt, depth) for a in node[2])
        n2 = ('call', node[1], args)
        cb = F.bodies.get(node[1])
        if cb is not None and len(cb.blocks) <= 60 and cb.meta.get('impl_self') != adt and (cb.file or '').startswith('src/wire/') \
                and cb.kind in ('method', 'fn'):
            inl = inline_call(F, n2)
            if inl is not None:
                return _expand_helpers(F, inl, adt, depth + 1)
        return n2
    if k == 'bin':
        return ('bin', node[1], _expand_helpers(F, node[2], adt, depth), _expand_helpers(F, node[3], adt, depth))
    if k == 'cast':
        return ('cast', _expand_helpers(F, node[1], adt, depth), node[2])
    if k == 'proj':
        return subst(('proj', _expand_helpers(F, node[1], adt, depth), node[2]), {})
    if k == 'agg':
        return (node[0], node[1], tuple(_expand_helpers(F, a, adt, depth) for a in node[2])) + tuple(node[3:])
    if k == 'after':
        return _expand_helpers(F, node[1], adt, depth)
    return node


def _raw_len_bounds(F, adt, cl):
    """expressions X with `len >= X` on the Ok paths of check_len, unexpanded; over all paths and per partition"""
    out = []
    sets = [ok_facts(F, cl)]
    for pk, cut in variant_partitions(F, cl, adt).items():
        sets.append(ok_facts(F, cl, restrict_edges=frozenset(cut)))
    for facts in sets:
        for f in facts:
            if f[0] != 'rel':
                continue
            _, op, a, b = f
            if is_len_of_buffer(a, adt):
                x = b
            elif is_len_of_buffer(b, adt):
                x, op = a, FLIP[op]
            else:
                continue
            if op in ('Ge', 'Gt', 'Eq') and x not in out:
                out.append(x)
    return out


def _canon_atom(n):
    """atoms are compared modulo reference / dereference / cast wrappers and empty projections"""
    if not isinstance(n, tuple) or not n:
        return n
    n = strip(n)
    k = n[0]
    if k in ('ref', 'deref', 'after') and len(n) >= 2:
        return _canon_atom(n[1])
    if k == 'cast':
        return _canon_atom(n[1])
    if k == 'proj':
        path = tuple(p for p in n[2] if p and p[0] != '*')
        inner = _canon_atom(n[1])
        return ('proj', inner, path) if path else inner
    if k == 'field':
        return ('field', _canon_atom(n[1]), tuple(p for p in n[2] if p and p[0] != '*')) + tuple(n[3:])
    if k == 'call':
        if n[1].rsplit('::', 1)[-1] in ('as_ref', 'as_mut', 'deref', 'borrow') and len(n[2]) == 1:
            return _canon_atom(n[2][0])
        return ('call', n[1], tuple(_canon_atom(a) for a in n[2]))
    if k == 'bin':
        return ('bin', n[1], _canon_atom(n[2]), _canon_atom(n[3]))
    if k == 'un':
        return ('un', n[1], _canon_atom(n[2]))
    if k == 'phi':
        return ('phi', tuple(sorted((_canon_atom(a) for a in n[1]), key=repr)))
    return n


def _var_atoms(l):
    out = {}
    for k, v in l.items():
        c = _canon_atom(k)
        out[c] = out.get(c, 0) + v
    return {k: v for k, v in out.items() if v > 0}


@rule('R07.12', ['C07', 'C03'], floor=40, clause='where an accessor reaches a position that depends on length fields of the packet, every variable term of that position (each size getter, each length byte) also appears, with at least the same weight, in a length that check_len compared with the buffer')
def r07_12(ctx):
    """Term-wise agreement between an accessor's reach and check_len's bound, as linear forms over the view's size
    getters (helpers inlined) or, failing that, over the fully expanded expressions.  A term the accessor adds but
    check_len's sum lacks (a skipped optional octet, a dropped size) is a read beyond what was validated.  Constants are
    not compared here (R07.1 compares constant reaches)."""
    F = ctx.F
    views = wire_views(F)
    n = 0
    for adt, cl in sorted(views.items()):
        if adt in UNDECIDED_VIEWS:
            continue
        K, kv, vb = guarantees(ctx, adt, cl)
        kmax = max([K] + list(kv.values()))
        rb = _raw_len_bounds(F, adt, cl)
        short = adt.split('::', 1)[1]
        forms = None
        for b in read_accessors(F, adt):
            nm = b.key.rsplit('::', 1)[-1]
            for acc in buffer_accesses(F, b, adt):
                if acc['need'] is None:
                    continue
                ne = expand(F, acc['need'], adt)
                hi = interval(ne, adt)[1]
                if hi is not None and hi <= kmax:
                    continue
                if any(l.endswith('::position') for l in leafs(acc['need']) if l.startswith('C:')):
                    continue
                bs = byte_sources(F, ne, adt)
                if not (bs and bs <= vb):
                    continue        # R07.1 reports it
                if forms is None:
                    forms = [(_var_atoms(lin(simplify(_expand_helpers(F, x, adt)))[0]), _var_atoms(lin(simplify(expand(F, x, adt)))[0])) for x in rb]
                n1 = _var_atoms(lin(simplify(_expand_helpers(F, acc['need'], adt)))[0])
                n2 = _var_atoms(lin(simplify(ne))[0])
                ok = any(all(f1.get(k, 0) >= v for k, v in n1.items()) or all(f2.get(k, 0) >= v for k, v in n2.items()) for f1, f2 in forms)
                n += 1
                sig = show(acc['need'])[:60]
                if ok:
                    ctx.ok((adt, nm, sig), sample=dict(view=short, accessor=nm, reach_terms=sorted(show(k)[:40] for k in n1)[:6], covered_by='check_len bound'))
                else:
                    best = None
                    for f1, f2 in forms:
                        miss = [k for k, v in n1.items() if f1.get(k, 0) < v]
                        if best is None or len(miss) < len(best):
                            best = miss
                    ctx.bad(f"{adt}|{nm}|term-not-validated", f"{short}::{nm} reaches a position that includes {[show(k)[:50] for k in (best or [])][:3]}, "
                            "which no length that check_len compares with the buffer includes: the accessor can read past a buffer that check_len accepted",
                            body=b, bb=acc['bb'], line=acc['line'])
    ctx.need(n >= 40, f"length-dependent accesses compared term-wise (found {n})")


def _slice_static_len(F, b, n, depth=0):
    """lower bound of the length of the slice / array denoted by origin n that follows from types and constant ranges alone"""
    n = strip(n)
    if depth > 8:
        return None
    while n[0] in ('ref', 'deref', 'after') and len(n) >= 2:
        n = strip(n[1])
    if n[0] == 'call' and len(n[2]) == 2 and n[1].rsplit('::', 1)[-1] in ('index', 'index_mut'):
        rb = range_bounds(F, n[2][1])
        if rb:
            lo = const_of(rb[1]) if len(rb) > 1 and rb[1] is not None else 0
            hi = const_of(rb[2]) if len(rb) > 2 and rb[2] is not None else None
            if rb[0] in ('Range', 'RangeTo') and hi is not None and lo is not None:
                return hi - lo
            if rb[0] == 'RangeFrom' and lo is not None:
                base = _slice_static_len(F, b, n[2][0], depth + 1)
                return None if base is None else base - lo
        return None
    ty = _origin_type(F, b, n)
    if ty:
        m = re.search(r'\[[^\[\];]+; (\d+)\]\s*$', ty.replace('&', '').replace('mut ', '').strip())
        if m:
            return int(m.group(1))
    return None


def _origin_type(F, b, n):
    n = strip(n)
    if n[0] == 'arg' and n[1] < len(b.locals):
        return b.locals[n[1]]['ty']
    if n[0] in ('field', 'proj') and n[2]:
        last = [p for p in n[2] if p and p[0] == 'f']
        if last:
            p = last[-1]
            a = F.adts.get(p[2]) if len(p) > 2 else None
            if a:
                for v in a['variants']:
                    if len(p) > 3 and p[3] not in ('-', v['name']):
                        continue
                    for i, f in enumerate(v['fields']):
                        if f['name'] == p[1] or str(i) == p[1]:
                            return f['ty']
    return None


@rule('R07.13', ['C07', 'C03'], floor=15, clause='in the wire parsers a slice taken out of a packet (an option body, a name, an address) is cut or indexed at a constant position only when its length is known to reach it: by type, by a dominating length test, by a successful first()/get(), or because it was itself cut with a validated constant width')
def r07_13(ctx):
    F = ctx.F
    og = F.origin
    views = wire_views(F)
    n = 0
    for k, b in sorted(F.bodies.items()):
        if not (b.file or '').startswith('src/wire/') or '::test' in k or b.meta.get('impl_self') in views:
            continue
        if k.rsplit('::', 1)[-1] in ('fmt', 'pretty_print') or 'pretty_print' in k:
            continue
        base = k.split('::{closure', 1)[0].rsplit('::', 1)[-1]
        if base.startswith('emit') or base.startswith('fill_') or base.startswith('set_'):
            continue            # writers: the buffer length is the caller's contract (C06), not received data
        for bi, bl in enumerate(b.blocks):
            if bl['cl']:
                continue
            t = bl['t']
            sl = None
            if t[0] == 'call':
                nm = b.callee_name(t[1]) or ''
                if nm.rsplit('::', 1)[-1] == 'index' and 'for [T]>' in nm and len(t[2]) == 2:
                    rb = range_bounds(F, og.operand(b, t[2][1], bi, len(bl['s'])))
                    if not rb:
                        continue
                    ends = [const_of(x) for x in rb[1:] if x is not None]
                    if any(e is None for e in ends) or not ends:
                        continue        # variable cuts: R07.8
                    mx = max(ends)
                    sl = og.operand(b, t[2][0], bi, len(bl['s']))
            elif t[0] == 'assert' and t[3].get('k') == 'bounds':
                ix = const_of(og.operand(b, t[3]['index'], bi, len(bl['s'])))
                ln = strip(og.operand(b, t[3]['len'], bi, len(bl['s'])))
                if ix is None or ln[0] != 'len':
                    continue
                mx, sl = ix + 1, ln[1]
            if sl is None or mx <= 0:
                continue
            S = _canon_atom(sl)
            if _root_is_view_buffer(S, views) or not _packet_rooted(F, b, S, views):
                continue
            n += 1
            short = k.split('wire::', 1)[-1]
            st = _slice_static_len(F, b, sl)
            if st is None:
                st = _variant_payload_len(F, b, sl)
            if st is not None and st >= mx:
                ctx.ok((k, bi, 'static'), sample=dict(fn=short, cut=mx, length_known_from='type / constant-width cut'))
                continue

            def pred(f, S=S, mx=mx):
                if f[0] == 'rel':
                    for a, c, op in ((f[2], f[3], f[1]), (f[3], f[2], FLIP[f[1]])):
                        a = strip(a)
                        inner = a[1] if a[0] == 'len' else (a[2][0] if a[0] == 'call' and a[1].endswith('::len') and a[2] else None)
                        cc = const_of(c)
                        if inner is None or cc is None or _canon_atom(inner) != S:
                            continue
                        if (op in ('Ge', 'Eq') and cc >= mx) or (op == 'Gt' and cc + 1 >= mx):
                            return True
                    return False
                if f[0] == 'is' and f[2] in ('Some', 'Continue', 'Ok'):
                    return _witness(f[1], S, mx)
                if f[0] == 'bool' and f[2] is False:
                    c = strip(f[1])
                    return mx <= 1 and c[0] == 'call' and c[1].endswith('::is_empty') and c[2] and _canon_atom(c[2][0]) == S
                return False
            bad = unguarded(F, b, [bi], pred)
            if not bad:
                ctx.ok((k, bi, 'guarded'), sample=dict(fn=short, cut=mx, guard='length test / first() / get() on the same slice'))
                continue
            # loop-carried cursor slices: match the guard on the user local itself (origin trees are unrolled to a bounded depth)
            R = _root_local(b, t[2][0]) if t[0] == 'call' else None
            if R is not None and _dominated_with_defs(b, bi, R, _place_guard_edges(F, b, R, mx)):
                ctx.ok((k, bi, 'cursor'), sample=dict(fn=short, cut=mx, guard='first()/get() of the same cursor succeeded since its last assignment'))
                continue
            # the slice is itself `get(a..b)` / `[a..b]` of something, with b tested against a constant
            w = _cut_width(F, b, sl, bi)
            if w is not None and w >= mx:
                ctx.ok((k, bi, 'cut-width'), sample=dict(fn=short, cut=mx, slice_width=w))
                continue
            ctx.bad(f"{short}|const-cut|{mx}", f"{short} cuts / indexes a slice taken from the packet at constant position {mx} without anything establishing that the slice "
                    f"is that long ({show(strip(sl))[:60]}): a crafted option / field length makes the parser panic", body=b, bb=bi)
    ctx.need(n >= 15, f"constant cuts of packet sub-slices in the wire parsers (found {n})")


def _root_is_view_buffer(S, views):
    n = S
    while isinstance(n, tuple) and n and n[0] in ('proj', 'field', 'call') :
        if n[0] == 'field' and n[2] and n[2][-1][0] == 'f' and n[2][-1][1] == 'buffer' and len(n[2][-1]) > 2 and n[2][-1][2] in views:
            return True
        if n[0] == 'call':
            if not n[2]:
                return False
            n = n[2][0]
        else:
            n = n[1]
    return False


def _witness(node, S, mx):
    """node contains first(S) / get(S, ..k) / split_first(S) ... whose success implies len(S) >= mx"""
    stack = [node]
    while stack:
        x = stack.pop()
        if not isinstance(x, tuple) or not x:
            continue
        x = strip(x)
        if x[0] == 'call' and x[2]:
            last = x[1].rsplit('::', 1)[-1]
            if _canon_atom(x[2][0]) == S:
                if last in ('first', 'last', 'split_first', 'split_last') and mx <= 1:
                    return True
                if last in ('get', 'split_at_checked', 'first_chunk', 'split_first_chunk') and len(x[2]) == 2:
                    return True if _get_reach(x[2][1]) is not None and _get_reach(x[2][1]) >= mx else False
            stack.extend(x[2])
        else:
            stack.extend(y for y in x[1:] if isinstance(y, tuple))
    return False


def _get_reach(arg):
    a = strip(arg)
    c = const_of(a)
    if c is not None:
        return c + 1
    if a[0] == 'agg' and len(a) > 2 and a[2]:
        e = const_of(a[2][-1])
        return e
    return None


def _cut_width(F, b, sl, bi):
    """sl = get(X, a..B)@Some / index(X, a..B) with constant a and B tested `== c` / `>= c` on a dominating edge -> c - a"""
    n = strip(sl)
    while n[0] in ('ref', 'deref', 'after', 'proj', 'field') and len(n) >= 2 and not (n[0] == 'call'):
        n = strip(n[1])
    stack = [n]
    rng = None
    while stack and rng is None:
        x = stack.pop()
        if not isinstance(x, tuple) or not x:
            continue
        x = strip(x)
        if x[0] == 'call' and len(x[2]) == 2 and x[1].rsplit('::', 1)[-1] in ('get', 'index'):
            rb = range_bounds(F, x[2][1])
            if rb and rb[0] == 'Range':
                rng = rb
                break
        if x[0] == 'call':
            stack.extend(x[2][:1])
        else:
            stack.extend(y for y in x[1:2] if isinstance(y, tuple))
    if rng is None:
        return None
    a = const_of(rng[1])
    if a is None:
        return None
    hi = _canon_atom(rng[2])
    cands = set()
    for bj, bl in enumerate(b.blocks):
        if bl['cl'] or bl['t'][0] != 'switch':
            continue
        for tb, lab, f in cond_facts(F, b, bj):
            if f[0] == 'rel':
                for x, c in ((f[2], f[3]), (f[3], f[2])):
                    cc = const_of(c)
                    if cc is not None and _canon_atom(x) == hi:
                        cands.add(cc)
    for c0 in sorted(cands, reverse=True):
        def pred(f, c0=c0):
            if f[0] != 'rel':
                return False
            for x, c, op in ((f[2], f[3], f[1]), (f[3], f[2], FLIP[f[1]])):
                cc = const_of(c)
                if cc is not None and _canon_atom(x) == hi and ((op in ('Ge', 'Eq') and cc >= c0) or (op == 'Gt' and cc + 1 >= c0)):
                    return True
            return False
        if not unguarded(F, b, [bi], pred):
            return c0 - a
    return None


def _root_local(b, op, depth=0):
    """user local behind an operand, following `tmp = &(*x)` / `tmp = copy x` temporaries that have a single definition"""
    if op[0] not in ('c', 'm') or depth > 6:
        return None
    l, path = op[1]
    if any(p != '*' and p[0] != '*' for p in path if p):
        return None
    if b.locals[l].get('name'):
        return l
    ds = [d for d in b._all_defs().get(l, []) if d[3] == []]
    if len(ds) != 1 or ds[0][2] != 'a':
        return None
    rv = ds[0][4]
    if rv[0] == 'ref' and all(p == '*' for p in rv[2][1]):
        return _root_local(b, ['c', [rv[2][0], []]], depth + 1)
    if rv[0] == 'use':
        return _root_local(b, rv[1], depth + 1)
    return None


def _place_guard_edges(F, b, R, mx):
    """edges on which `first()/get(..k)/split_first()` of user local R succeeded (Option -> ok_or -> ? chains followed)"""
    out = []
    for bi, bl in enumerate(b.blocks):
        t = bl['t']
        if bl['cl'] or t[0] != 'call' or not t[2]:
            continue
        last = (b.callee_name(t[1]) or '').rsplit('::', 1)[-1]
        if last in ('first', 'last', 'split_first', 'split_last'):
            reach = 1
        elif last in ('get', 'split_at_checked', 'first_chunk') and len(t[2]) == 2:
            reach = _get_reach(F.origin.operand(b, t[2][1], bi, len(bl['s'])))
        else:
            continue
        if reach is None or reach < mx or _root_local(b, t[2][0]) != R:
            continue
        # follow the result through wrapper calls to the switch that tests it
        dest, cur = t[3][0], t[4]
        for _ in range(5):
            if cur is None:
                break
            tb = b.blocks[cur]['t']
            if tb[0] == 'call' and tb[2] and tb[2][0][0] in ('c', 'm') and tb[2][0][1][0] == dest and len(b.blocks[cur]['s']) <= 2:
                dest, cur = tb[3][0], tb[4]
                continue
            if tb[0] == 'switch':
                for tgt, lab, f in cond_facts(F, b, cur):
                    if f[0] == 'is' and f[2] in ('Some', 'Continue', 'Ok'):
                        out.append((cur, tgt, lab))
            break
    return out


def _dominated_with_defs(b, site, R, edges):
    """site is reachable neither from the entry nor from behind any redefinition of local R without passing one of `edges`"""
    if not edges:
        return False
    starts = [0]
    for bi, bl in enumerate(b.blocks):
        if bl['cl']:
            continue
        if any(s[0] == 'a' and s[1] == [R, []] for s in bl['s']):
            # a redefinition inside a block: everything after it in this block and its successors
            starts.append(('after', bi))
        if bl['t'][0] == 'call' and bl['t'][3] == [R, []] and bl['t'][4] is not None:
            starts.append(bl['t'][4])
    cut = set(edges)
    for s in starts:
        if isinstance(s, tuple):
            bi = s[1]
            if bi == site:
                # the site's own block redefines R before its terminator uses it?  the terminator operand is computed
                # from R's value *before* a later assignment only if the assignment follows; be conservative
                seq = b.blocks[bi]['s']
                continue
            seen = set()
            for tb, lab in b.succ_edges(bi):
                if (bi, tb, lab) not in cut:
                    seen |= set(b.reachable(start=tb, cut_edges=cut))
            if site in seen:
                return False
        elif site in b.reachable(start=s, cut_edges=cut):
            return False
    return True


def _packet_rooted(F, b, S, views):
    """the slice is (part of) a shared-slice parameter, of a value carried by a parameter, or of a view accessor's result"""
    n = S
    for _ in range(12):
        if not isinstance(n, tuple) or not n:
            return False
        if n[0] == 'arg':
            ty = b.locals[n[1]]['ty'] if n[1] < len(b.locals) else ''
            return not ty.startswith('&mut') and '[u8; ' not in ty.split('<')[0]
        if n[0] == 'phi':
            return any(_packet_rooted(F, b, a, views) for a in n[1])
        if n[0] == 'call':
            cb = F.bodies.get(n[1])
            if cb is not None and cb.meta.get('impl_self') in views:
                return True
            last = n[1].rsplit('::', 1)[-1]
            if last in ('index', 'get', 'branch', 'ok_or', 'unwrap', 'split_at', 'split_first', 'first', 'as_ref', 'deref', 'into_iter', 'next') and n[2]:
                n = n[2][0]
                continue
            if cb is not None and (cb.file or '').startswith('src/wire/') and n[2]:
                # a parser helper of the wire module handing back (the rest of) the slice it was given
                n = n[2][0]
                continue
            return False
        if n[0] in ('proj', 'field', 'ref', 'deref', 'after', 'cast'):
            n = n[1]
            continue
        return False
    return False


def _variant_payload_len(F, b, sl):
    """sl is the payload slice of an enum variant (possibly cut further by constant ranges): the smallest statically known
    length over every place in the crate that constructs that variant"""
    n = strip(sl)
    off = 0
    for _ in range(6):
        while n[0] in ('ref', 'deref', 'after') and len(n) >= 2:
            n = strip(n[1])
        if n[0] == 'call' and len(n[2]) == 2 and n[1].rsplit('::', 1)[-1] == 'index':
            rb = range_bounds(F, n[2][1])
            if rb and rb[0] == 'RangeFrom' and const_of(rb[1]) is not None:
                off += const_of(rb[1])
                n = strip(n[2][0])
                continue
            return None
        break
    if n[0] not in ('proj', 'field') or not n[2]:
        return None
    fs = [p for p in n[2] if p and p[0] == 'f' and len(p) > 3 and p[3] not in ('-', None)]
    if not fs or not str(fs[-1][1]).isdigit():
        return None
    adt, var, fidx = fs[-1][2], fs[-1][3], int(fs[-1][1])
    if adt.startswith('std::') or adt.startswith('core::'):
        return None
    best = None
    seen = 0
    for k2, b2 in F.bodies.items():
        if '::test' in k2:
            continue
        for bi, bl in enumerate(b2.blocks):
            if bl['cl']:
                continue
            for si, s_ in enumerate(bl['s']):
                if s_[0] == 'a' and s_[2][0] == 'agg' and s_[2][1].get('k') == 'adt' and s_[2][1].get('adt') == adt and s_[2][1].get('variant') == var:
                    ops = s_[2][2]
                    if fidx >= len(ops):
                        return None
                    seen += 1
                    ln = _slice_static_len(F, b2, F.origin.operand(b2, ops[fidx], bi, si))
                    if ln is None:
                        return None
                    best = ln if best is None else min(best, ln)
    return None if best is None or not seen else best - off


@rule('R07.14', ['C07', 'C03'], floor=0, clause='on the read side of the wire module no 8/16-bit multiplication can overflow: a length octet is widened before it is scaled (`len as usize * 8`, never `(len * 8) as usize`)')
def r07_14(ctx):
    """Every checked multiplication (MIR MulWithOverflow + assert) on u8/u16 operands in src/wire outside setters / emitters:
    the product of the operands' interval upper bounds must fit the type.  The expected number of sites is small (often
    zero: the code widens first); the matcher is exercised on every run by the u32/usize multiplications it skips."""
    F = ctx.F
    MAXV = {'u8': 255, 'u16': 65535}
    n = wide = 0
    for k, b in sorted(F.bodies.items()):
        if not (b.file or '').startswith('src/wire/') or '::test' in k:
            continue
        base = k.split('::{closure', 1)[0].rsplit('::', 1)[-1]
        if base.startswith(('set_', 'emit', 'fill_')):
            continue
        adt = b.meta.get('impl_self')
        for bi, bl in enumerate(b.blocks):
            t = bl['t']
            if bl['cl'] or t[0] != 'assert' or t[3].get('k') != 'overflow' or t[3].get('op') != 'Mul':
                continue

            def ty(o):
                if o[0] == 'k':
                    return o[1]
                if o[0] in ('c', 'm') and not o[1][1]:
                    return b.locals[o[1][0]]['ty']
                return None
            tt = ty(t[3]['a']) or ty(t[3]['b'])
            if tt not in MAXV:
                wide += 1
                continue
            n += 1
            si = len(bl['s'])
            ia = interval(expand(F, F.origin.operand(b, t[3]['a'], bi, si), adt), adt)[1]
            ic = interval(expand(F, F.origin.operand(b, t[3]['b'], bi, si), adt), adt)[1]
            short = k.split('wire::', 1)[-1]
            if ia is not None and ic is not None and ia * ic <= MAXV[tt]:
                ctx.ok((short, bi, 'fits'), sample=dict(fn=short, type=tt, max_product=ia * ic))
            else:
                ctx.bad(f"{short}|narrow-mul", f"{short} multiplies in {tt} a value that can be as large as {ia if ia is not None else 'the type maximum'} by "
                        f"{ic if ic is not None else '?'}: for a large length octet the product overflows (panic in debug builds, a wrapped - too small - length in release builds, "
                        "so a short buffer passes the length check)", body=b, bb=bi, line=t[5])
    ctx.need(wide >= 5, f"checked multiplications seen by the matcher (found {wide})")
    if n == 0:
        ctx.ok(('no narrow multiplication on the read side',), sample=dict(wide_multiplications_skipped=wide))


@rule('R07.15', ['C07', 'C03'], floor=1, clause='an iterator over packet options changes its own state (advances its cursor or latches its error flag) on every path on which it yields an item: it cannot yield for ever from the same position')
def r07_15(ctx):
    F = ctx.F
    n = 0
    for k, b in sorted(F.bodies.items()):
        if not (b.file or '').startswith('src/wire/') or '::test' in k or not k.endswith('::next'):
            continue
        if 'Iterator' not in str(b.meta.get('impl_trait') or ''):
            continue
        adt = b.meta.get('impl_self')
        writes = {w['bb'] for w in F.field_writes() if w['fn'] == b.key and w['adt'] == adt and w['kind'] in ('store', 'mutref')}
        somes = [x[0] for x in agg_sites(b, 'std::option::Option', ['Some'])]
        if not somes:
            continue
        short = k.split('wire::', 1)[-1]
        for sbb in somes:
            n += 1
            if sbb in writes or sbb not in b.reachable(cut_blocks=writes - {0}):
                ctx.ok((short, sbb), sample=dict(iterator=short, yields='Some(..)', after='a store to its own cursor / flag'))
            else:
                ctx.bad(f"{short}|yield-without-progress", f"{short} can yield an item without having changed any of its own fields: the next call starts from the same position and "
                        "yields the same item again - a loop draining the iterator over a crafted option never terminates", body=b, bb=sbb)
    ctx.need(n >= 1, "yielding paths of option iterators in src/wire")


def _accessor_reach(F, cb, adt, depth=0):
    """largest constant buffer position an accessor of the view reads, following the view's own accessors it calls
    (total_len() -> payload_len()); None when some access is not at a constant position"""
    accs = buffer_accesses(F, cb, adt)
    consts = [a['const'] for a in accs]
    if any(c is None for c in consts):
        return None
    best = max(consts, default=0)
    if depth < 3:
        for y in cb.calls():
            n2 = cb.callee_name(y[1]) or ''
            c2 = F.bodies.get(n2)
            if c2 is not None and c2.meta.get('impl_self') == adt and c2.key != cb.key and not n2.endswith('::check_len'):
                r2 = _accessor_reach(F, c2, adt, depth + 1)
                if r2 is None:
                    return None
                best = max(best, r2)
    return best


@rule('R07.16', ['C07', 'C03'], floor=8, clause='a length validator does not itself read outside the buffer: inside every check_len each read of the buffer at a constant position - directly or through one of the view\'s own accessors - comes after a test that the buffer is at least that long')
def r07_16(ctx):
    from ..bitfield import _is_buffer
    F = ctx.F
    views = wire_views(F)
    ctx.need(len(views) >= 15, "wire views with check_len")

    def islen(m):
        m = _canon(simplify(m))
        return (m[0] == 'len' and _is_buffer(m[1], None)) or (m[0] == 'call' and m[1].endswith('::len') and len(m[2]) == 1 and _is_buffer(m[2][0], None))
    n = 0
    for adt, b in sorted(views.items()):
        if adt in ('wire::ieee802154::Frame',):
            continue            # value-dependent layout, see R07.9
        short = adt.split('::', 1)[1]
        needs = []              # (bb, need, what)
        for a in buffer_accesses(F, b, adt):
            if a['const'] is not None and a['const'] > 0:
                needs.append((a['bb'], a['const'], f"buffer[..{a['const']}] at line {a['line']}"))
        for x in b.calls():
            cn = b.callee_name(x[1]) or ''
            cb = F.bodies.get(cn)
            if cb is None or cb.meta.get('impl_self') != adt or cb.key == b.key or not x[2]:
                continue
            rcv = _canon(simplify(F.origin.operand(b, x[2][0], x[0], len(b.blocks[x[0]]['s']))))
            if rcv not in (('arg', 1), ('field', ('arg', 1), ())):
                continue
            reach_ = _accessor_reach(F, cb, adt)
            if reach_:
                needs.append((x[0], reach_, f"{cn.rsplit('::', 1)[-1]}() reading {reach_} octets"))
        if not needs:
            continue
        # guard edges: len >= K  (and len != K, which lifts a dominating len >= K to len >= K + 1)
        guards, nes = [], []
        for bi, bl in enumerate(b.blocks):
            if bl['cl'] or bl['t'][0] != 'switch':
                continue
            for tb, lab, f in cond_facts(F, b, bi):
                if f[0] != 'rel':
                    continue
                for x_, y_, ops in ((f[2], f[3], {'Ge': 0, 'Gt': 1, 'Eq': 0}), (f[3], f[2], {'Le': 0, 'Lt': 1, 'Eq': 0})):
                    if f[1] in ops and islen(x_):
                        k = const_of(simplify(y_))
                        if k is not None:
                            guards.append(((bi, tb, lab), k + ops[f[1]]))
                    if f[1] == 'Ne' and islen(x_) and const_of(simplify(y_)) is not None:
                        nes.append(((bi, tb, lab), const_of(simplify(y_))))
                # `!buffer.is_empty()`
            for tb, lab, f in cond_facts(F, b, bi):
                if f[0] == 'bool' and f[2] is False and is_call(strip(f[1]), '::is_empty') and _is_buffer(_canon(simplify(strip(f[1])[2][0])), None):
                    guards.append(((bi, tb, lab), 1))
        for bb, need, what in needs:
            n += 1
            dom = [k for e, k in guards if bb not in b.reachable(cut_edges={e})]
            domne = {k for e, k in nes if bb not in b.reachable(cut_edges={e})}
            best = max(dom) if dom else 0
            while best in domne:
                best += 1
            okg = best >= need
            if okg:
                ctx.ok((short, 'check_len read', bb), sample=dict(view=short, read=what, after=f"len >= {need}"))
            else:
                ctx.bad(f"{short}::check_len|reads-before-length-test|{need}", f"{short}::check_len itself reads the buffer ({what}) before any test that the buffer has {need} octets: "
                        "new_checked() on a shorter byte string panics instead of answering Err", body=b, bb=bb)
    ctx.need(n >= 8, f"buffer reads inside check_len validators (found {n})")


def _by_modes(F, b, fields, combos):
    """for each combination of the mode getters' values: the set of blocks reachable when every switch on one of the
    getters takes the edge of that value (the else edge if the value has no edge of its own)"""
    out = {}
    sw = {}
    for bi, bl in enumerate(b.blocks):
        if bl['cl'] or bl['t'][0] != 'switch':
            continue
        d = strip(simplify(F.origin.operand(b, bl['t'][1], bi, len(bl['s']))))
        for fld in fields:
            if d[0] == 'call' and d[1].endswith('::' + fld):
                sw[bi] = fld
    for combo in combos:
        val = dict(zip(fields, combo))
        cut = set()
        for bi, fld in sw.items():
            t = b.blocks[bi]['t']
            targets = {v: tb for v, tb in t[2]}
            want = targets.get(val[fld], t[3])
            for tb, lab in b.succ_edges(bi):
                if tb != want or (lab[1] != val[fld] and val[fld] in targets) or (lab[1] != 'else' and val[fld] not in targets):
                    cut.add((bi, tb, lab))
        out[combo] = set(b.reachable(cut_edges=cut))
    return out, len(sw)


@rule('R07.17', ['C07', 'C20', 'C03'], floor=20, clause='6LoWPAN IPHC: for every combination of the address-mode bits the length check_len reserves for an in-line address (src_address_size / dst_address_size) covers what src_addr() / dst_addr() read of it in that mode')
def r07_17(ctx):
    F = ctx.F
    from itertools import product
    P = 'wire::sixlowpan::iphc::Packet'
    n = 0
    for size_fn, addr_fn, fields, combos in (
            ('dst_address_size', 'dst_addr', ('m_field', 'dac_field', 'dam_field'), list(product((0, 1), (0, 1), (0, 1, 2, 3)))),
            ('src_address_size', 'src_addr', ('sac_field', 'sam_field'), list(product((0, 1), (0, 1, 2, 3))))):
        sb = [F.bodies[k] for k in F.bodies if k.startswith(P) and k.endswith('::' + size_fn)]
        ab = [F.bodies[k] for k in F.bodies if k.startswith(P) and k.endswith('::' + addr_fn)]
        ctx.need(sb and ab, f"iphc::Packet::{size_fn} / {addr_fn}")
        sb, ab = sb[0], ab[0]
        sreach, ns = _by_modes(F, sb, fields, combos)
        areach, na = _by_modes(F, ab, fields, combos)
        ctx.need(ns >= 2 and na >= 2, f"mode switches in {size_fn} / {addr_fn}")
        for combo in combos:
            sizes = set()
            for bi in sreach[combo]:
                for s in sb.blocks[bi]['s']:
                    if s[0] == 'a' and s[1] == [0, []] and s[2][0] == 'use' and s[2][1][0] == 'k' and isinstance(s[2][1][2], int) and not isinstance(s[2][1][2], bool):
                        sizes.add(s[2][1][2])
            if len(sizes) != 1:
                continue
            size = sizes.pop()
            reads = 0
            for x in ab.calls():
                if x[0] not in areach[combo]:
                    continue
                cn = ab.callee_name(x[1]) or ''
                if cn.rsplit('::', 1)[-1] != 'index' or len(x[2]) != 2:
                    continue
                rb = range_bounds(F, simplify(F.origin.operand(ab, x[2][1], x[0], len(ab.blocks[x[0]]['s']))))
                if rb and rb[0] == 'RangeTo' and const_of(rb[2]) is not None:
                    reads = max(reads, const_of(rb[2]))
            n += 1
            key = ','.join(f"{f.split('_')[0]}={v}" for f, v in zip(fields, combo))
            if reads <= size:
                ctx.ok((addr_fn, key), sample=dict(mode=key, reserved=size, read=reads))
            else:
                ctx.bad(f"iphc::{addr_fn}|{key}|reads-beyond-{size_fn}", f"in mode {key} iphc::Packet::{addr_fn}() reads {reads} in-line octets while {size_fn}() - which check_len sums - says {size}: "
                        "a checked header that ends inside the in-line address passes new_checked and the accessor / Repr::parse then panic", body=ab)
    ctx.need(n >= 20, f"address-mode combinations compared (found {n})")
