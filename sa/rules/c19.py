"""C19 - DNS answers only from matching responses; queries terminate (structural clauses)."""
from ..framework import rule
from ..core import *
from ..lib import *
from ..wirelib import ret_origin
from ..loops import strict_parsers
from .c04 import const_int
from .c07 import check_loops
from .c14 import store_origin

D = 'socket::dns::Socket'
PQ = 'socket::dns::PendingQuery'
DQ = 'socket::dns::DnsQuery'
ST = 'socket::dns::State'
UR = 'wire::udp::Repr'
WP = 'wire::dns::Packet'


@rule('R19.1', ['C19'], floor=8, clause='a query completes only from a response that matches its port, transaction id, question type and question name, with opcode Query / response bit / one question; records are only taken behind their own name match')
def r19_1(ctx):
    F = ctx.F
    b = ctx.method(D, 'process')
    ss = F.method(DQ, 'set_state')
    ctx.need(ss is not None, "DnsQuery::set_state")
    # the completion site: set_state whose argument can be State::Completed
    sites = []
    for x in b.calls():
        if b.callee_name(x[1]) == ss.key:
            o = F.origin.operand(b, x[2][1], x[0], len(b.blocks[x[0]]['s']))
            if any(l.endswith('State::Completed') for l in leafs(o) if l.startswith('G:')):
                sites.append(x[0])
    ctx.need(sites, "set_state(State::Completed) in dns::process")
    eqn = [k for k in F.bodies if k.endswith('socket::dns::eq_names')]
    ctx.need(len(eqn) == 1, "socket::dns::eq_names")
    eqn = eqn[0]

    def name_match(f):
        # eq_names(..) == Ok(true): discriminant Ok edge + bool true edge on its payload
        if f[0] == 'bool' and f[2] is True and f"C:{eqn}" in leafs(f[1]):
            return True
        if f[0] == 'rel' and f[1] == 'Eq' and f"C:{eqn}" in leafs(f[2]) and strip(f[3]) == ('const', '1'):
            return True
        return False
    guards = [
        ('dst-port', p_rel('eq', [f"F:{UR}.dst_port"], [f"F:{PQ}.port"])),
        ('txid', p_rel('eq', [f"C:{F.method(WP, 'transaction_id').key}"], [f"F:{PQ}.txid"])),
        ('qtype', p_rel('eq', [f"F:wire::dns::Question.type_"], [f"F:{PQ}.type_"])),
        ('qname', name_match),
        ('opcode', p_rel('eq', [f"C:{F.method(WP, 'opcode').key}"], ['V:wire::dns::Opcode::Query'])),
        ('response-bit', p_call(lambda n: n.endswith('Flags::contains'), True)),
        ('one-question', p_rel('eq', [f"C:{F.method(WP, 'question_count').key}"], ['K:1'])),
    ]
    for what, pr in guards:
        bad = unguarded(F, b, sites, pr)
        if bad:
            ctx.bad(f"process|complete|{what}", f"a DNS query can be completed by a response without the `{what}` check", body=b, bb=bad[0][0], path=bad[0][1])
        else:
            ctx.ok(('complete', what), sample=dict(fn='dns::process', guard=what))
    # record addresses only behind the per-record name match: pushes into `addresses`
    pushes = [x[0] for x in b.calls() if (b.callee_name(x[1]) or '').endswith('::push') and 'Vec' in (b.callee_name(x[1]) or '')]
    ctx.need(len(pushes) >= 1, "address pushes in dns::process")
    rn = lambda f: name_match(f) and 'F:wire::dns::Record.name' in leafs(f[1] if f[0] == 'bool' else f[2])
    bad = unguarded(F, b, pushes, rn)
    if bad:
        ctx.bad("process|record|name", "an answer record can contribute an address without matching the (current) query name", body=b, bb=bad[0][0], path=bad[0][1])
    else:
        ctx.ok(('record', 'name-match'), sample=dict(fn='dns::process', addresses='only behind eq_names(record.name, query name) == Ok(true)'))


@rule('R19.1b', ['C19'], floor=2, clause='two names are equal only when both label sequences end together')
def r19_1b(ctx):
    """T1 in eq_names: `Ok(true)` is returned only behind both `a.next()` is None and `b.next()` is None."""
    F = ctx.F
    k = [k for k in F.bodies if k.endswith('socket::dns::eq_names')]
    ctx.need(len(k) == 1, "eq_names")
    b = F.bodies[k[0]]
    sites = []
    for bi, bl in enumerate(b.blocks):
        if bl['cl']:
            continue
        for si, s in enumerate(bl['s']):
            if s[0] == 'a' and s[1] == [0, []]:
                o = simplify(F.origin.rvalue(b, s[2], bi, si, 0, None))
                if o[0] == 'agg' and o[1].endswith('Result::Ok') and strip(o[2][0]) == ('const', 'true'):
                    sites.append(bi)
    ctx.need(sites, "Ok(true) return in eq_names")
    for argi, nm in ((1, 'a'), (2, 'b')):
        pr = lambda f, argi=argi: f[0] == 'is' and f[2] == 'None' and f"A:{argi}" in leafs(f[1]) and any(l.endswith('::next') for l in leafs(f[1]) if l.startswith('C:')) \
            and f"A:{3 - argi}" not in leafs(f[1])
        bad = unguarded(F, b, sites, pr)
        if bad:
            ctx.bad(f"eq_names|true-without-end-of-{nm}", f"eq_names can report equality although name `{nm}` still has labels (a prefix would match)",
                    body=b, bb=bad[0][0], path=bad[0][1])
        else:
            ctx.ok(('eq_names', nm), sample=dict(fn='eq_names', ok_true_only='both iterators exhausted'))


@rule('R19.2', ['C19', 'C11'], floor=2, clause='responses are accepted only from port 53 of a configured server or from the mDNS port')
def r19_2(ctx):
    F = ctx.F
    b = ctx.method(D, 'accepts')
    # every `true` result is behind (src_port == 53 and any(server == src)) or src_port == 5353
    sites = []
    for bi, bl in enumerate(b.blocks):
        if bl['cl']:
            continue
        for s in bl['s']:
            if s[0] == 'a' and s[1] == [0, []] and s[2][0] == 'use' and s[2][1][0] == 'k' and s[2][1][2] is True:
                sites.append(bi)
    p53 = p_rel('eq', [f"F:{UR}.src_port"], ['N:socket::dns::DNS_PORT'])
    pm = p_rel('eq', [f"F:{UR}.src_port"], ['N:socket::dns::MDNS_DNS_PORT'])
    pany = p_call(lambda n: n.endswith('::any'), True, [f"F:{D}.servers"])
    ctx.need(sites, "`true` results in dns::accepts")
    for what, pr in (('port 53 or mDNS', p_any(p53, pm)), ('configured server or mDNS', p_any(pany, pm))):
        bad = unguarded(F, b, sites, pr)
        if bad:
            ctx.bad(f"accepts|{what}", f"dns::accepts can return true without the `{what}` condition", body=b, bb=bad[0][0], path=bad[0][1])
        else:
            ctx.ok(('accepts', what), sample=dict(fn='dns::accepts', rule='(src_port == 53 && servers.any(== src)) || src_port == 5353'))
    cl = F.closures_of(b.key)
    okc = any(any(l.endswith('::src_addr') for l in leafs(ret_origin(F, c)) if l.startswith('C:')) for c in cl)
    ctx.ok(('accepts', 'src_addr')) if okc else ctx.bad("accepts|closure", "server comparison does not use the packet's source address", body=b)


@rule('R19.3', ['C19', 'C03'], floor=3, clause='name handling loops in the DNS socket are driven by the (strictly consuming) label iterators')
def r19_3(ctx):
    F = ctx.F
    strict = set(strict_parsers(F))
    bodies = [b for k, b in sorted(F.bodies.items()) if (b.file or '') == 'src/socket/dns.rs']
    ctx.need(bodies, "src/socket/dns.rs bodies")
    # eq_names: `loop { match (a.next(), b.next()) .. }` - every cycle passes both next() calls
    k = [k for k in F.bodies if k.endswith('socket::dns::eq_names')][0]
    b = F.bodies[k]
    from ..loops import loops, cycle_without
    for h, nodes, srcs in loops(b):
        nx = {x[0] for x in b.calls() if (b.callee_name(x[1]) or x[1].get('fn') or '').endswith('Iterator::next') and x[0] in nodes}
        if len(nx) >= 2 and cycle_without(b, h, nodes, srcs, nx) is None:
            ctx.ok(('eq_names', 'loop'), sample=dict(fn='eq_names', loop='every iteration pulls one label from each iterator'))
        else:
            ctx.bad("eq_names|loop", "eq_names has an iteration path that does not advance the label iterators", body=b, bb=h)
    check_loops(ctx, [x for x in bodies if x is not b], strict, 'dns-socket')


@rule('R19.4', ['C19', 'C13'], floor=5, clause='retransmission backs off (delay doubled, capped), fail-over to the next server re-arms a full timeout, the query fails once all servers were tried')
def r19_4(ctx):
    F = ctx.F
    b = ctx.method(D, 'dispatch')
    def stores(field):
        return [w for w in F.field_writes() if w['fn'] == b.key and w['kind'] == 'store' and w['adt'] == PQ and w['field'] == field]
    # delay = min(MAX, delay*2) after emit; = RETRANSMIT_DELAY on fail-over
    dl = stores('delay')
    ctx.need(len(dl) >= 2, "stores to PendingQuery.delay")
    seen_backoff = False
    for w in dl:
        raw = store_origin(F, b, w)
        o = simplify(raw)
        ls = leafs(raw)
        if is_call(o, '::min', nargs=2) and 'N:socket::dns::MAX_RETRANSMIT_DELAY' in ls and f"F:{PQ}.delay" in ls:
            grows = False
            for a in call_args(o):
                a0 = strip(a)
                if f"F:{PQ}.delay" in leafs(a0) and ((a0[0] == 'call' and a0[1].endswith('::mul') and (const_int(simplify(a0[2][1])) or 0) >= 2)
                                                     or (a0[0] == 'bin' and a0[1] == 'Mul' and (const_int(simplify(a0[3])) or 0) >= 2)):
                    grows = True
            if not grows:
                ctx.bad("dispatch|delay|not-doubled", f"PendingQuery.delay = {show(o)[:80]}: the retransmission delay does not grow", body=b, bb=w['bb'])
                seen_backoff = True
                continue
            seen_backoff = True
            ctx.ok(('delay', 'backoff'), sample=dict(delay='min(MAX_RETRANSMIT_DELAY, delay * 2)'))
        elif 'N:socket::dns::RETRANSMIT_DELAY' in ls:
            ctx.ok(('delay', 'reset'))
        else:
            ctx.bad("dispatch|delay", f"PendingQuery.delay = {show(o)[:80]} (expected capped doubling or reset)", body=b, bb=w['bb'])
    if not seen_backoff:
        ctx.bad("dispatch|no-backoff", "dns dispatch never doubles the retransmission delay", body=b)
    # fail-over: server_idx += 1 behind timeout edge, and on that path timeout_at is re-armed
    timeout = lambda f: f[0] == 'rel' and f[1] in ('Le', 'Lt') and f"F:{PQ}.timeout_at" in leafs(f[2]) and \
        any(l.endswith('::now') for l in leafs(f[3]) if l.startswith('C:'))
    si = stores('server_idx')
    ctx.need(si, "server_idx store")
    for w in si:
        if unguarded(F, b, [w['bb']], timeout):
            ctx.bad("dispatch|failover-unguarded", "dns dispatch moves to the next server without the server timeout having passed", body=b, bb=w['bb'])
        else:
            ctx.ok(('failover', 'behind-timeout'))
        # pairing: from the timeout edge to the server_idx store a fresh timeout_at is stored
        ta = [x['bb'] for x in stores('timeout_at')]
        te = guard_edges(F, b, timeout)
        okp = False
        for (bi, tb, lab) in te:
            seen = b.reachable(start=tb, cut_blocks=set(ta) - {tb})
            if w['bb'] not in seen or tb in ta or w['bb'] in ta:
                okp = True
        if okp:
            ctx.ok(('failover', 'rearms-timeout'), sample=dict(on_failover='timeout_at = now + RETRANSMIT_TIMEOUT'))
        else:
            ctx.bad("dispatch|failover-stale-timeout", "fail-over to the next DNS server keeps the previous server's (already expired) deadline: "
                    "every further server gets a single datagram and the query fails early", body=b, bb=w['bb'])
    # Failure behind server_idx >= servers.len()
    ss = F.method(DQ, 'set_state')
    fails = []
    for x in b.calls():
        if b.callee_name(x[1]) == ss.key:
            o = F.origin.operand(b, x[2][1], x[0], len(b.blocks[x[0]]['s']))
            if strip(o) == ('variant', f'{ST}::Failure'):
                fails.append(x[0])
    ctx.need(fails, "set_state(Failure) in dispatch")
    # `server_idx >= servers.len()` or its checked-lookup form `servers.get(server_idx)` is None
    exhausted = lambda f: (f[0] == 'rel' and f[1] in ('Ge', 'Gt') and f"F:{PQ}.server_idx" in leafs(f[2])) or \
        (((f[0] == 'is' and f[2] == 'None') or (f[0] == 'isnot' and 'Some' in f[2])) and is_call(strip(f[1]), '::get')
         and f"F:{PQ}.server_idx" in leafs(f[1]))
    if any(not unguarded(F, b, [s], exhausted) for s in fails):
        ctx.ok(('failure', 'all-servers-tried'))
    else:
        ctx.bad("dispatch|failure", "no Failure transition behind `server_idx >= servers.len()`", body=b)
    # retransmit_at = now + delay after a successful emit
    ra = [w for w in stores('retransmit_at')]
    okc = lambda f: f[0] == 'is' and f[2] in ('Continue', 'Ok') and any(l.endswith('FnOnce::call_once') for l in leafs(f[1]) if l.startswith('C:'))
    good = False
    for w in ra:
        o = simplify(store_origin(F, b, w))
        if f"F:{PQ}.delay" in leafs(o) and not unguarded(F, b, [w['bb']], okc):
            good = True
    ctx.ok(('retransmit_at', 'after-emit')) if good else ctx.bad("dispatch|retransmit_at", "retransmit_at is not re-armed as now + delay after a successful emit", body=b)
