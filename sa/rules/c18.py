"""C18 - DHCPv4 client lease safety (structural clauses)."""
from ..framework import rule
from ..core import *
from ..lib import *
from ..fdai import FDAI
from ..wirelib import ret_origin
from .c04 import const_int
from .c14 import store_origin

D = 'socket::dhcpv4::Socket'
CS = 'socket::dhcpv4::ClientState'
RS = 'socket::dhcpv4::RenewState'
DR = 'wire::dhcpv4::Repr'
MT = 'wire::dhcpv4::MessageType'


def renew_sites(F, b):
    """blocks that put the client into / update the bound (Renewing) state: construction of
    ClientState::Renewing and stores to RenewState.{expires_at,renew_at,rebind_at,config}"""
    out = []
    for bi, bl in enumerate(b.blocks):
        if bl['cl']:
            continue
        for si, s in enumerate(bl['s']):
            if s[0] == 'a' and s[2][0] == 'agg' and s[2][1]['k'] == 'adt' and s[2][1]['adt'] == CS and s[2][1]['variant'] == 'Renewing':
                out.append((bi, 'enter-Renewing'))
            if s[0] == 'a':
                pr = [p for p in s[1][1] if isinstance(p, list) and p[0] == 'f']
                if pr and pr[-1][3] == RS and pr[-1][2] in ('expires_at', 'renew_at', 'rebind_at', 'config'):
                    out.append((bi, 'update-' + pr[-1][2]))
    return out


@rule('R18.1', ['C18', 'C10'], floor=8, clause='a lease is only taken from an ACK carrying the client\'s hardware address and current transaction id, a server identifier, a contiguous mask and a unicast address')
def r18_1(ctx):
    """T1: every site in dhcpv4::Socket::process that enters or refreshes the bound state is dominated by
    the equality edges chaddr == ours, xid == self.transaction_id, server_identifier Some, message_type
    Ack (discriminant edge) and parse_ack(..) Some; parse_ack returns Some only behind subnet_mask Some,
    prefix_len() Some and your_ip.x_is_unicast()."""
    F = ctx.F
    b = ctx.method(D, 'process')
    sites = renew_sites(F, b)
    ctx.need(len(sites) >= 4, "bound-state entry/update sites in dhcpv4::process")
    pa = ctx.method(D, 'parse_ack')
    guards = [
        ('chaddr', p_rel('eq', [f"F:{DR}.client_hardware_address"], [])),
        ('xid', p_rel('eq', [f"F:{DR}.transaction_id"], [f"F:{D}.transaction_id"])),
        ('server-id', lambda f: f[0] == 'is' and f[2] == 'Some' and f"F:{DR}.server_identifier" in leafs(f[1])),
        ('ACK', lambda f: f[0] == 'is' and f[3] == MT and f[2] == 'Ack'),
        ('parse_ack', lambda f: f[0] == 'is' and f[2] == 'Some' and f"C:{pa.key}" in leafs(f[1])),
    ]
    for what, pr in guards:
        bad = unguarded(F, b, [s for s, _ in sites], pr)
        if bad:
            lab = [l for s, l in sites if s == bad[0][0]][0]
            ctx.bad(f"process|{lab}|{what}", f"dhcpv4 process can {lab} without the `{what}` check (lease from a foreign/stale/malformed message)",
                    body=b, bb=bad[0][0], path=bad[0][1])
        else:
            ctx.ok(('process', what), sample=dict(fn='dhcpv4::process', sites=len(sites), guard=what))
    # parse_ack
    somes = []
    for bi, bl in enumerate(pa.blocks):
        if bl['cl']:
            continue
        for s in bl['s']:
            if s[0] == 'a' and s[1] == [0, []] and s[2][0] == 'agg' and s[2][1]['k'] == 'adt' and s[2][1]['adt'] == 'std::option::Option' \
                    and s[2][1]['variant'] == 'Some':
                somes.append(bi)
    ctx.need(somes, "Some(..) return of parse_ack")
    g2 = [
        ('subnet-mask', lambda f: f[0] == 'is' and f[2] == 'Some' and f"F:{DR}.subnet_mask" in leafs(f[1])),
        ('contiguous-mask', lambda f: f[0] == 'is' and f[2] == 'Some' and any(l.endswith('::prefix_len') for l in leafs(f[1]) if l.startswith('C:'))),
        ('unicast-address', p_call(mpred(F, '__ext__', 'x_is_unicast'), True, [f"F:{DR}.your_ip"])),
    ]
    for what, pr in g2:
        bad = unguarded(F, pa, somes, pr)
        if bad:
            ctx.bad(f"parse_ack|{what}", f"parse_ack accepts an ACK without the `{what}` check", body=pa, bb=bad[0][0], path=bad[0][1])
        else:
            ctx.ok(('parse_ack', what), sample=dict(fn='parse_ack', guard=what))


@rule('R18.1b', ['C18'], floor=1, clause='subnet-mask contiguity: once a zero bit has been seen the scanner never returns to the expecting-ones state')
def r18_1b(ctx):
    """T2 ordering (monotone flag) in <Ipv4Addr as AddressExt>::prefix_len: no store `flag = true` is
    reachable after a store `flag = false`."""
    F = ctx.F
    b = F.method('std::net::Ipv4Addr', 'prefix_len', trait='wire::ipv4::AddressExt')
    if b is None:
        cands = [x for k, x in F.bodies.items() if k.endswith('AddressExt>::prefix_len') and 'Ipv4Addr' in k]
        b = cands[0] if len(cands) == 1 else None
    ctx.need(b is not None, "<Ipv4Addr as wire::ipv4::AddressExt>::prefix_len")
    n = 0
    for l, defs in b._all_defs().items():
        if b.locals[l]['ty'] != 'bool' or l <= b.nargs:
            continue
        t = [d[0] for d in defs if d[2] == 'a' and d[4][0] == 'use' and d[4][1][0] == 'k' and d[4][1][2] is True]
        f = [d[0] for d in defs if d[2] == 'a' and d[4][0] == 'use' and d[4][1][0] == 'k' and d[4][1][2] is False]
        if not t or not f or len(t) + len(f) != len(defs):
            continue
        if not bool_local_switches(b, l):
            continue
        n += 1
        badp = None
        for fb in f:
            seen = b.reachable(start=fb)
            hit = [x for x in t if x in seen and x != fb]
            if hit:
                badp = (fb, b.path_to(seen, hit[0]))
        if badp:
            ctx.bad("ipv4::prefix_len|flag-reset", "the expecting-ones flag of the netmask scanner can be set again after a zero bit was seen: "
                    "non-contiguous masks such as 255.0.255.0 are accepted", body=b, bb=badp[0], path=badp[1])
        else:
            ctx.ok(('prefix_len', 'monotone-flag'), sample=dict(fn='Ipv4Addr::prefix_len', flag='never re-armed after the first zero bit'))
    ctx.need(n >= 1, "a monotone bool flag in ipv4 prefix_len")


@rule('R18.2', ['C18'], floor=4, clause='DHCP client state relation: Discovering -(OFFER)-> Requesting -(ACK)-> Renewing; every other change goes back to Discovering through reset()')
def r18_2(ctx):
    """T4 finite-domain abstract interpretation of dhcpv4::process per (state, message type)."""
    F = ctx.F
    b = ctx.method(D, 'process')
    skey = (('d', 1), (('f', 'state', D, '-'),))
    mkey_candidates = None
    allowed = {('Discovering', 'Offer'): {'Discovering', 'Requesting'}, ('Requesting', 'Ack'): {'Requesting', 'Renewing'},
               ('Requesting', 'Nak'): {'Requesting', 'Discovering'}, ('Renewing', 'Ack'): {'Renewing'}, ('Renewing', 'Nak'): {'Renewing', 'Discovering'}}
    mts = F.variants(MT)
    ctx.need(mts and 'Ack' in mts, "wire::dhcpv4::MessageType variants")
    # the message type lives in a local DhcpRepr (result of parse): partition through the tuple local
    tl = [i for i, l in enumerate(b.locals) if l['ty'].startswith('(&mut socket::dhcpv4::ClientState') and MT in l['ty']]
    ctx.need(len(tl) == 1, "the (state, message_type) scrutinee tuple in dhcpv4::process")
    for st0 in ('Discovering', 'Requesting', 'Renewing'):
        for m in mts:
            seen_to = set()

            def obs(kind, frame, info, st0=st0):
                pass
            an = FDAI(F)
            # run with state = st0; message type refined at the tuple by the discriminant switch: emulate by
            # running once and reading the value-set of self.state at each return restricted by edges of m
            from ..fdai import run_split
            r = run_split(an, b, {skey: frozenset([st0])}, (('l', tl[0]), (('f', '1', '{tuple}', '-'),)))
            fin = set()
            for (bb, key), stt in r.nodes.items():
                if b.blocks[bb]['t'][0] == 'ret' and (key is None or key == frozenset([m])):
                    v = stt.get(skey)
                    if v is None:
                        fin.add('?')
                    else:
                        fin |= set(v)
            if key_reached(r, m) is False:
                continue
            want = allowed.get((st0, m), {st0})
            extra = fin - want - ({'?'} if False else set())
            if extra:
                ctx.bad(f"process|{st0}|{m}|{'+'.join(sorted(extra))}", f"dhcpv4 process: in {st0} a {m} message can lead to state {sorted(extra)} "
                        f"(allowed: {sorted(want)})", body=b)
            else:
                ctx.ok(('rel', st0, m), sample=dict(state=st0, message=m, next=sorted(fin)))


def key_reached(r, m):
    return any(k == frozenset([m]) for (_, k) in r.nodes)


@rule('R18.3', ['C18', 'C13'], floor=3, clause='lease instants are computed from the ACK: expires_at = now + min(lease, max_lease); the bound-state poll deadline never exceeds expires_at')
def r18_3(ctx):
    F = ctx.F
    pa = ctx.method(D, 'parse_ack')
    r = simplify(ret_origin(F, pa))
    # Some((config, renew_at, rebind_at, expires_at))
    tup = None
    for a in alts(r):
        if a[0] == 'agg' and a[1].endswith('Option::Some') and a[2] and strip(a[2][0])[0] == 'agg':
            tup = strip(a[2][0])
    ctx.need(tup is not None and len(tup[2]) == 4, "parse_ack returns Some((config, renew_at, rebind_at, expires_at))")
    exp = simplify(tup[2][3])
    ls = leafs(exp)
    if 'A:1' in ls and f"F:{DR}.lease_duration" in ls and 'A:3' in ls and any(l.endswith('::min') for l in ls if l.startswith('C:')):
        ctx.ok(('expires_at',), sample=dict(expires_at='now + min(lease_duration, max_lease_duration)'))
    else:
        ctx.bad("parse_ack|expires_at", f"expires_at = {show(exp)[:100]} is not now + min(lease, max_lease)", body=pa)
    for i, nm in ((1, 'renew_at'), (2, 'rebind_at')):
        if 'A:1' in leafs(tup[2][i]):
            ctx.ok(('parse_ack', nm))
        else:
            ctx.bad(f"parse_ack|{nm}", f"{nm} is not relative to `now`", body=pa)
    # poll_at in the bound state: every value that reaches the reported instant is min(.., expires_at), expires_at itself,
    # or is passed on only behind `value <= expires_at` (the if-form of the clamp)
    p = ctx.method(D, 'poll_at')
    defs = p._all_defs()
    is_exp = lambda n: is_field(strip(n), RS, 'expires_at')
    clamped_call = lambda a: is_call(a, '::min', nargs=2) and any(is_exp(x) for x in call_args(a))
    state = dict(n=0, bad=[])

    def walk(local, seen):
        if local in seen:
            return
        seen = seen | {local}
        for (bi, si, kind, path, rv) in defs.get(local, []):
            if path != []:
                continue
            if kind == 'call':
                v = simplify(F.origin.call_node(p, rv, bi, 0, None))
            elif kind == 'a':
                v = simplify(F.origin.rvalue(p, rv, bi, si, 0, None))
            else:
                continue
            if not any(l.startswith(f"F:{RS}.") for l in leafs(v)):
                continue
            state['n'] += 1
            if is_exp(v) or clamped_call(strip(v)):
                continue
            vs, vl = strip(v), leafs(v)

            def le_exp(f, vs=vs, vl=vl):
                if f[0] != 'rel':
                    return False
                if f[1] in ('Ge', 'Gt'):
                    e, x = f[2], f[3]
                elif f[1] in ('Le', 'Lt'):
                    e, x = f[3], f[2]
                else:
                    return False
                x = simplify(x)
                return is_exp(simplify(e)) and (strip(x) == vs or leafs(x) == vl)
            if not unguarded(F, p, [bi], le_exp):
                continue
            if kind == 'a' and rv[0] == 'use' and is_place_op(rv[1]) and rv[1][1][1] == []:
                walk(rv[1][1][0], seen)
                continue
            state['bad'].append(v)
    roots = []
    for bi, bl in enumerate(p.blocks):
        if bl['cl']:
            continue
        for si, st in enumerate(bl['s']):
            if st[0] == 'a' and st[2][0] == 'agg' and st[2][2] and is_place_op(st[2][2][0]) and st[2][2][0][1][1] == []:
                o = strip(simplify(F.origin.rvalue(p, st[2], bi, si, 0, None)))
                if o[0] == 'agg' and o[1].endswith('PollAt::Time'):
                    roots.append(st[2][2][0][1][0])
    ctx.need(roots, "PollAt::Time(t) built from a local in dhcpv4::poll_at")
    for r_ in roots:
        walk(r_, frozenset())
    ctx.need(state['n'] >= 1, "lease instants of the bound state flowing into the dhcpv4 poll deadline")
    for a in state['bad']:
        ctx.bad("poll_at|beyond-expiry", f"bound-state poll deadline {show(a)[:80]} is not clamped by expires_at: the Deconfigured event "
                "can come late and the address outlive its lease", body=p)
    if not state['bad']:
        ctx.ok(('poll_at', 'clamped'), sample=dict(fn='dhcpv4::poll_at', bound_state='min(.., expires_at)'))


@rule('R18.4', ['C18'], floor=3, clause='in the bound state nothing is sent after expiry: the expiry test dominates the emit, its true edge resets the client and signals Deconfigured')
def r18_4(ctx):
    F = ctx.F
    d = ctx.method(D, 'dispatch')
    emits = [x[0] for x in d.calls() if isinstance(x[1], dict) and (x[1].get('fn') or '').endswith('FnOnce::call_once')]
    ctx.need(len(emits) >= 3, "three emit sites in dhcpv4::dispatch")
    an = FDAI(F)
    skey = (('d', 1), (('f', 'state', D, '-'),))
    r = an.run(d, {skey: frozenset(['Renewing'])})
    feas = feasible_sites(d, emits, r.edge_ok())
    ctx.need(feas, "an emit reachable in the Renewing state")
    notexp = lambda f: f[0] == 'rel' and f[1] == 'Gt' and is_field(f[2], RS, 'expires_at') and \
        any(l.endswith('::now') for l in leafs(f[3]) if l.startswith('C:'))
    for s in feas:
        bad = unguarded(F, d, [s], notexp, r.edge_ok())
        if bad:
            ctx.bad("dispatch|renew-after-expiry", "a RENEW/REBIND request can be sent (and the address kept) after the lease expired", body=d, bb=s, path=bad[0][1])
        else:
            ctx.ok(('dispatch', 'expiry-first', s), sample=dict(fn='dhcpv4::dispatch', guard='expires_at > now'))
    # the expired edge calls reset
    rst = ctx.method(D, 'reset')
    exp_edges = guard_edges(F, d, lambda f: f[0] == 'rel' and f[1] == 'Le' and is_field(f[2], RS, 'expires_at'))
    okr = False
    for (bi, tb, lab) in exp_edges:
        seen = d.reachable(start=tb, cut_blocks={x[0] for x in d.calls() if d.callee_name(x[1]) == rst.key})
        if not any(rb in seen for rb in d.return_blocks()):
            okr = True
    if okr:
        ctx.ok(('dispatch', 'expired->reset'))
    else:
        ctx.bad("dispatch|expired-no-reset", "lease expiry does not reset the client", body=d)
    cc = ctx.method(D, 'config_changed')
    sites = [x[0] for x in rst.calls() if rst.callee_name(x[1]) == cc.key]
    if sites and not unguarded(F, rst, sites, lambda f: f[0] == 'is' and f[3] == CS and f[2] == 'Renewing'):
        ctx.ok(('reset', 'signals-deconfigured'))
    else:
        ctx.bad("reset|no-event", "reset() of a bound client does not raise the config_changed flag (no Deconfigured event)", body=rst)


@rule('R18.6', ['C18', 'C16'], floor=2, clause='transaction id and retry instants are only updated after the request was handed to the device')
def r18_6(ctx):
    F = ctx.F
    d = ctx.method(D, 'dispatch')
    emits = {x[0]: x for x in d.calls() if isinstance(x[1], dict) and (x[1].get('fn') or '').endswith('FnOnce::call_once')}
    ws = [w for w in F.field_writes() if w['fn'] == d.key and w['kind'] == 'store' and
          ((w['adt'] == D and w['field'] == 'transaction_id') or w['field'] in ('retry_at', 'retry'))]
    ctx.need(len(ws) >= 4, "transaction_id / retry_at stores in dhcpv4::dispatch")
    okc = lambda f: f[0] == 'is' and f[2] in ('Continue', 'Ok') and any(l.endswith('FnOnce::call_once') for l in leafs(f[1]) if l.startswith('C:'))
    for w in ws:
        bad = unguarded(F, d, [w['bb']], okc)
        if bad:
            ctx.bad(f"dispatch|{w['field']}|before-emit", f"dhcpv4 dispatch updates {w['field']} although the request may not have been sent", body=d, bb=w['bb'])
        else:
            ctx.ok(('dispatch', w['field'], w['bb']), sample=dict(field=w['field'], after='emit(..)?'))


@rule('R18.5', ['C18'], floor=4, clause='an ACK received while bound replaces the whole lease: renew_at, rebind_at, expires_at are rewritten together and the rebinding flag is cleared')
def r18_5(ctx):
    """Typestate/exhaustiveness: the store that installs the new expiry in the Renewing arm of process() is
    accompanied, on every path through it, by stores to the other lease-scoped fields of RenewState, and the
    `rebinding` flag is stored as `false` (otherwise the next T1 is skipped and only broadcasts go out)."""
    F = ctx.F
    b = ctx.method(D, 'process')
    def stores(field):
        return [w for w in F.field_writes() if w['fn'] == b.key and w['kind'] == 'store' and w['adt'] == RS and w['field'] == field]
    ex = stores('expires_at')
    ctx.need(len(ex) >= 1, "store to RenewState.expires_at in dhcpv4 process()")
    rets = b.return_blocks()
    for e in ex:
        for fld in ('renew_at', 'rebind_at', 'rebinding'):
            ws = stores(fld)
            okf = False
            for w in ws:
                if w['bb'] == e['bb']:
                    okf = True
                    break
                pre = b.reachable(cut_blocks={w['bb']})
                post = b.reachable(start=e['bb'], cut_blocks={w['bb']})
                if e['bb'] not in pre or not any(r in post for r in rets):
                    okf = True
                    break
            if not okf:
                ctx.bad(f"process|renewing-ack|{fld}", f"a new lease is installed (expires_at stored) without updating RenewState.{fld}: "
                        + ("the client stays in rebinding mode and skips the next renewal" if fld == 'rebinding' else "stale timer from the previous lease"),
                        body=b, bb=e['bb'])
            else:
                ctx.ok(('renewing-ack', fld), sample=dict(arm='(Renewing, Ack)', field=fld))
    for w in stores('rebinding'):
        o = simplify(store_origin(F, b, w))
        if const_int(o) == 0 or strip(o) == ('const', 'false'):
            ctx.ok(('renewing-ack', 'rebinding=false'))
        else:
            ctx.bad("process|renewing-ack|rebinding-value", f"rebinding is set to {show(o)[:40]} when a new lease arrives", body=b, bb=w['bb'])


@rule('R18.7', ['C18', 'C03'], floor=1, clause='lease arithmetic on server-supplied times: a Duration subtraction (which panics on underflow) of a value taken from the ACK is behind a comparison of the two durations')
def r18_7(ctx):
    F = ctx.F
    n = 0
    pa = F.method(D, 'parse_ack')
    hb, actual = dhcp_t12_body(F, pa) if pa is not None else (None, {})
    for nm in ('parse_ack', 'process', 'helper'):
        b = F.method(D, nm) if nm != 'helper' else (hb if actual else None)
        if b is None:
            continue
        extra = set()
        if nm == 'helper':
            nm = 'parse_ack'
            # server-supplied values the helper receives as parameters
            extra = {f"A:{k}" for k, o in actual.items() if any(l.startswith(f"F:{DR}.") for l in leafs(o)) and not hb.is_ref_local(k)}
        isl = lambda l, extra=extra: l.startswith(f"F:{DR}.") or l in extra
        for x in b.calls():
            cn = b.callee_name(x[1]) or ''
            if not cn.startswith('<time::Duration as std::ops::Sub'):
                continue
            a = [simplify(F.origin.operand(b, o, x[0], len(b.blocks[x[0]]['s']))) for o in x[2]]
            if not any(isl(l) for o in a for l in leafs(o)):
                continue
            n += 1
            la, lb = leafs(a[0]), leafs(a[1])
            fa = {l for l in la if isl(l)}
            fb = {l for l in lb if isl(l)}

            def ordered(f, fa=fa, fb=fb):
                if f[0] != 'rel':
                    return False
                x_, y_ = {l for l in leafs(f[2]) if isl(l)}, {l for l in leafs(f[3]) if isl(l)}
                # rhs < lhs  (subtrahend smaller than minuend)
                if f[1] in ('Lt', 'Le') and fb and fb <= x_ and fa <= y_ and not (fb <= y_ and fa <= x_ and fa != fb):
                    return True
                if f[1] in ('Gt', 'Ge') and fb and fb <= y_ and fa <= x_:
                    return True
                return False
            bad = unguarded(F, b, [x[0]], ordered)
            if bad:
                ctx.bad(f"dhcpv4::{nm}|duration-sub-unguarded", f"dhcpv4 {nm}: `{show(a[0])[:40]} - {show(a[1])[:40]}` on server-supplied times without comparing them first: "
                        "an ACK with T1 larger than the lease panics Interface::poll (Duration subtraction underflow)", body=b, bb=x[0], path=bad[0][1])
            else:
                ctx.ok((nm, 'duration-sub', x[0]), sample=dict(fn=nm, sub='lease - renew', guard='renew < lease'))
    ctx.need(n >= 1, "Duration subtractions on DHCP-supplied values")
