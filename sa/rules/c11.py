"""C11 - only traffic addressed to the interface is delivered; no replies to non-unicast."""
from ..framework import rule
from ..core import *
from ..lib import *

IFI = 'iface::interface::InterfaceInner'
ETH = 'wire::ethernet::Frame'
V4R = 'wire::ipv4::Repr'
V6R = 'wire::ipv6::Repr'
TCPR = 'wire::tcp::Repr'
I154R = 'wire::ieee802154::Repr'


def _sites(ctx, b, names):
    out = []
    for n in names:
        for x in mcalls(ctx.F, b, IFI, n):
            out.append((x[0], n))
    return out


@rule('R11.1', ['C11', 'C03'], floor=4, clause='hardware-destination filter cuts every path from process_ethernet / process_ieee802154 to protocol processing')
def r11_1(ctx):
    """T1: in process_ethernet the calls to process_arp/ipv4/ipv6 are only reachable through
    is_broadcast()/is_multicast()/`dst == hardware_addr`; in process_ieee802154 process_sixlowpan only
    through `pan_id.is_none()` / `dst_pan_id == pan_id` / `dst_pan_id == BROADCAST` (on dst_pan_id only)."""
    F = ctx.F
    b = ctx.method(IFI, 'process_ethernet')
    sites = _sites(ctx, b, ['process_arp', 'process_ipv4', 'process_ipv6'])
    ctx.need(len(sites) >= 3, "process_ethernet calls process_arp/process_ipv4/process_ipv6")
    dst = [f"C:{ctx.F.method(ETH, 'dst_addr').key}"] if ctx.F.method(ETH, 'dst_addr') else None
    ctx.need(dst, "wire::ethernet::Frame::dst_addr")
    A = 'wire::ethernet::Address'
    pe = p_any(p_call(mpred(F, A, 'is_broadcast'), True, dst), p_call(mpred(F, A, 'is_multicast'), True, dst),
               p_rel('eq', dst, [f"F:{IFI}.hardware_addr"]))
    ctx.need(len(guard_edges(F, b, pe)) >= 3, "three destination-address guards in process_ethernet")
    for s, n in sites:
        bad = unguarded(F, b, [s], pe)
        if bad:
            ctx.bad(f"process_ethernet|{n}", f"{n} reachable without the Ethernet destination filter", body=b, bb=s, path=bad[0][1])
        else:
            ctx.ok(('eth', n), sample=dict(fn='process_ethernet', site=n, guards='is_broadcast|is_multicast|dst==hardware_addr'))
    b = ctx.method(IFI, 'process_ieee802154')
    sites = _sites(ctx, b, ['process_sixlowpan'])
    ctx.need(sites, "process_ieee802154 calls process_sixlowpan")
    dp = [f"F:{I154R}.dst_pan_id"]
    only = dp + [f"F:{IFI}.pan_id"]

    def pan_pred(f):
        if f[0] == 'bool' and f[2] is False:
            n = strip(f[1])
            return n[0] == 'call' and n[1].endswith('::is_some') and f"F:{IFI}.pan_id" in leafs(n)
        if f[0] == 'rel' and f[1] == 'Eq':
            la, lb = leafs(f[2]), leafs(f[3])
            fl = {x for x in la | lb if x.startswith('F:')}
            if not (f"F:{I154R}.dst_pan_id" in fl and f"F:{I154R}.src_pan_id" not in fl):
                return False
            return (f"F:{IFI}.pan_id" in fl) or any('BROADCAST' in x for x in la | lb if x.startswith('N:'))
        return False
    ctx.need(len(guard_edges(F, b, pan_pred)) >= 3, "PAN id guards in process_ieee802154")
    for s, n in sites:
        bad = unguarded(F, b, [s], pan_pred)
        if bad:
            ctx.bad(f"process_ieee802154|{n}", "process_sixlowpan reachable without the destination-PAN filter "
                    "(pan_id unset / dst_pan_id == pan_id / dst_pan_id == broadcast)", body=b, bb=s, path=bad[0][1])
        else:
            ctx.ok(('pan', n), sample=dict(fn='process_ieee802154', site=n, guards='dst_pan_id'))


def _ip_rule(ctx, fn, repr_adt, sites_names, dst_guards, src_guards, exceptions=()):
    F = ctx.F
    b = ctx.method(IFI, fn)
    sites = _sites(ctx, b, sites_names)
    ctx.need(len(sites) >= len(sites_names) - len(exceptions), f"{fn} dispatches to {sites_names}")
    dleaf = [f"F:{repr_adt}.dst_addr"]
    sleaf = [f"F:{repr_adt}.src_addr"]
    pd = p_any(*[p_call(mpred(F, adt, meth), True, dleaf, forbid=sleaf) for (adt, meth) in dst_guards])
    ps = p_any(*[p_call(mpred(F, adt, meth), True, sleaf, forbid=dleaf) for (adt, meth) in src_guards])
    ctx.need(guard_edges(F, b, pd) or pass_edges(F, b, pd), f"destination-address guards in {fn}")
    if not (guard_edges(F, b, ps) or pass_edges(F, b, ps)):
        ctx.bad(f"{fn}|no-source-sanity-filter", f"{fn} has no test `{'/'.join(m for _, m in src_guards)}` of the source address left: packets from a non-unicast source (multicast, broadcast, "
                "unspecified) reach protocol processing and are answered - a reply addressed to the unspecified address trips dispatch_ip's assertion", body=b)
        return
    for s, n in sites:
        bad = unguarded(F, b, [s], pd)
        if bad:
            ctx.bad(f"{fn}|{n}|dst", f"{n} reachable from {fn} without a destination-address filter "
                    f"({'/'.join(m for _, m in dst_guards)} on dst_addr)", body=b, bb=s, path=bad[0][1])
        else:
            ctx.ok((fn, n, 'dst'), sample=dict(fn=fn, site=n, guard='dst filter'))
        bad = unguarded(F, b, [s], ps)
        if bad:
            ctx.bad(f"{fn}|{n}|src", f"{n} reachable from {fn} without the source-address sanity filter "
                    f"({'/'.join(m for _, m in src_guards)} on src_addr)", body=b, bb=s, path=bad[0][1])
        else:
            ctx.ok((fn, n, 'src'), sample=dict(fn=fn, site=n, guard='src filter'))


@rule('R11.2', ['C11'], floor=12, clause='IP destination and source filters cut every path from process_ipv4 / process_ipv6 to upper-layer processing')
def r11_2(ctx):
    """T1: process_icmpv4/igmp/udp/tcp and the proto-unreachable reply only via has_ip_addr |
    has_multicast_group | is_broadcast_v4 (on dst_addr) and via is_unicast_v4 | is_unspecified (on
    src_addr); IPv6: process_nxt_hdr only via has_ip_addr | has_multicast_group | is_loopback on
    dst_addr and x_is_unicast on src_addr. (DHCP and raw-socket taps precede the filter by design.)"""
    A4 = 'core::net::Ipv4Addr'
    _ip_rule(ctx, 'process_ipv4', V4R, ['process_icmpv4', 'process_igmp', 'process_udp', 'process_tcp', 'icmpv4_reply'],
             [(IFI, 'has_ip_addr'), (IFI, 'has_multicast_group'), (IFI, 'is_broadcast_v4')],
             [(IFI, 'is_unicast_v4'), ('__ext__', 'is_unspecified')])
    # process_hopbyhop can answer with an ICMPv6 Parameter Problem: it is protocol processing like process_nxt_hdr
    _ip_rule(ctx, 'process_ipv6', V6R, ['process_nxt_hdr', 'process_hopbyhop'],
             [(IFI, 'has_ip_addr'), (IFI, 'has_multicast_group'), ('__ext__', 'is_loopback')],
             [('__ext__', 'x_is_unicast')])


SOCKS = [
    # (socket adt, process method, accepts method)
    ('socket::tcp::Socket', 'process', 'accepts'),
    ('socket::udp::Socket', 'process', 'accepts'),
    ('socket::dns::Socket', 'process', 'accepts'),
    ('socket::icmp::Socket', 'process_v4', 'accepts_v4'),
    ('socket::icmp::Socket', 'process_v6', 'accepts_v6'),
    ('socket::raw::Socket', 'process', 'accepts'),
]


def dominating_variants(F, body, site):
    """names of enum variants V (any local enum) such that the site is only reachable through an
    `is V` discriminant edge - a stable label for 'which match arm is this'"""
    by = {}
    for bi, bl in enumerate(body.blocks):
        if bl['cl'] or bl['t'][0] != 'switch':
            continue
        for tb, lab, f in cond_facts(F, body, bi):
            if f[0] == 'is' and f[3] and f[3] in F.adts:
                by.setdefault(f[2], []).append((bi, tb, lab))
    out = []
    for v, es in sorted(by.items()):
        if not cut_sites(body, [site], es):
            out.append(v)
    return out


def iface_bodies(F):
    """all bodies (incl. closures) that belong to iface::* code"""
    return [b for k, b in F.bodies.items() if (b.file or '').startswith('src/iface/')]


@rule('R11.3', ['C11', 'C09'], floor=6, clause='a socket\'s process() is only called behind the true edge of its accepts() on the same packet (DHCP: behind its port guards)')
def r11_3(ctx):
    """T1, call sites enumerated over all iface code: every call of X::process* is dominated by the
    true outcome of X::accepts*."""
    F = ctx.F
    found = 0
    for adt, pm, am in SOCKS:
        pmb = F.method(adt, pm)
        amb = F.method(adt, am)
        ctx.need(pmb is not None and amb is not None, f"{adt}::{pm} / {am}")
        for b in F.bodies.values():
            sites = [x[0] for x in b.calls() if b.callee_name(x[1]) == pmb.key]
            if not sites:
                continue
            if not (b.file or '').startswith('src/iface/'):
                ctx.bad(f"{b.key}|{adt}::{pm}", f"{adt}::{pm} called outside the interface ingress code ({b.key})", body=b, bb=sites[0])
                continue
            g = bool_call_edges(F, b, lambda n, k=amb.key: n == k, True)
            for s in sites:
                found += 1
                bad = cut_sites(b, [s], g)
                fnm = b.key.rsplit('::', 1)[-1]
                if bad:
                    ctx.bad(f"{fnm}|{adt}::{pm}", f"{adt}::{pm} called in {fnm} without passing {am}() == true", body=b, bb=s, path=bad[0][1])
                else:
                    ctx.ok((fnm, adt, pm), sample=dict(fn=fnm, call=f"{adt}::{pm}", guard=am))
    # DHCP: ports
    D = 'socket::dhcpv4::Socket'
    pmb = F.method(D, 'process')
    ctx.need(pmb is not None, "socket::dhcpv4::Socket::process")
    for b in F.bodies.values():
        sites = [x[0] for x in b.calls() if b.callee_name(x[1]) == pmb.key]
        for s in sites:
            fnm = b.key.rsplit('::', 1)[-1]
            g1 = rel_edges(F, b, 'eq', [f"F:{D}.server_port"], [])
            g2 = rel_edges(F, b, 'eq', [f"F:{D}.client_port"], [])
            ok = g1 and g2 and not cut_sites(b, [s], g1) and not cut_sites(b, [s], g2)
            if ok:
                ctx.ok((fnm, D, 'process'), sample=dict(fn=fnm, call='dhcpv4::process', guard='src_port==server_port && dst_port==client_port'))
            else:
                ctx.bad(f"{fnm}|{D}::process", "dhcpv4::Socket::process called without both port guards", body=b, bb=s)


ERR4 = ['DstUnreachable', 'TimeExceeded']
ERR6 = ['DstUnreachable', 'PktTooBig', 'TimeExceeded', 'ParamProblem']


@rule('R11.4', ['C11', 'C10'], floor=6, clause='ICMP errors and TCP resets are only constructed behind unicast-source and unicast-destination guards on the received packet')
def r11_4(ctx):
    """T1: (a) icmpv4_reply builds a packet only behind is_unicast_v4(src) and, except for echo replies,
    is_unicast_v4(dst); (b) every ICMPv4/ICMPv6 error representation built in iface code is handed to
    icmpv4_reply/icmpv6_reply in the same body; (c) each ICMPv6 error site is behind a
    not-multicast test of the received destination, locally or in icmpv6_reply; (d) process_tcp reaches
    the RST construction and the socket dispatch only behind a unicast-destination guard."""
    F = ctx.F
    b = ctx.method(IFI, 'icmpv4_reply')
    P = 'iface::packet::Packet'
    news = [x[0] for x in b.calls() if (b.callee_name(x[1]) or '').endswith('Packet::<\'p>::new_ipv4') or (b.callee_name(x[1]) or '').endswith('::new_ipv4')]
    ctx.need(news, "Packet::new_ipv4 in icmpv4_reply")
    gs = pure_bool_call_edges(F, b, mpred(F, IFI, 'is_unicast_v4'), True, [f"F:{V4R}.src_addr"], forbid=[f"F:{V4R}.dst_addr"])
    gd = pure_bool_call_edges(F, b, mpred(F, IFI, 'is_unicast_v4'), True, [f"F:{V4R}.dst_addr"], forbid=[f"F:{V4R}.src_addr"])
    ge = variant_edges(F, b, ['A:3'], ['EchoReply'])
    for s in news:
        bad = cut_sites(b, [s], gs)
        if bad:
            ctx.bad("icmpv4_reply|src", "icmpv4_reply builds a reply without the unicast-source guard", body=b, bb=s, path=bad[0][1])
        else:
            ctx.ok(('icmpv4_reply', 'src', s))
        bad = cut_sites(b, [s], gd + ge)
        if bad:
            ctx.bad("icmpv4_reply|dst", "icmpv4_reply builds a non-echo reply for a non-unicast destination", body=b, bb=s, path=bad[0][1])
        else:
            ctx.ok(('icmpv4_reply', 'dst', s), sample=dict(fn='icmpv4_reply', guard='is_unicast_v4(dst) | EchoReply'))
    # (b),(c) error construction sites
    r4 = F.method(IFI, 'icmpv4_reply')
    r6 = ctx.method(IFI, 'icmpv6_reply')
    for body in iface_bodies(F):
        fnm = body.key.rsplit('::', 1)[-1] if body.kind != 'closure' else body.key.split('::')[-2] + '::closure'
        for (adt, errs, rep, ver) in (('wire::icmpv4::Repr', ERR4, r4, 4), ('wire::icmpv6::Repr', ERR6, r6, 6)):
            for bi, si, var in agg_sites(body, adt, errs):
                rs = [x[0] for x in body.calls() if body.callee_name(x[1]) == rep.key]
                if not rs:
                    ctx.bad(f"{fnm}|{adt}::{var}|no-reply-ctor", f"ICMP error {var} built in {fnm} but not sent through {rep.key.rsplit('::',1)[-1]}",
                            body=body, bb=bi)
                    continue
                if ver == 4:
                    ctx.ok((fnm, var, 'v4'), sample=dict(fn=fnm, error=var, via='icmpv4_reply (guarded constructor)'))
                    continue
                # ICMPv6: need a not-multicast(dst) guard before the site
                dl = [f"F:{V6R}.dst_addr"]
                g = pure_bool_call_edges(F, body, mpred(F, '__ext__', 'is_multicast'), False, dl, forbid=[f"F:{V6R}.src_addr"])
                g += pure_bool_call_edges(F, body, mpred(F, '__ext__', 'x_is_unicast'), True, dl, forbid=[f"F:{V6R}.src_addr"])
                # closures: upvar-captured repr has U: leaves instead
                g += pure_bool_call_edges(F, body, mpred(F, '__ext__', 'is_multicast'), False, ['U:ipv6_repr'])
                bad = cut_sites(body, [bi], g)
                if bad and body.kind == 'closure':
                    # lift to the call sites of the closure in its parent: each must be guarded there
                    parent = F.body(body.meta.get('root'))
                    pcs = [x for x in parent.calls() if parent.callee_name(x[1]) == body.key] if parent else []
                    if pcs:
                        pg = pure_bool_call_edges(F, parent, mpred(F, '__ext__', 'is_multicast'), False, dl, forbid=[f"F:{V6R}.src_addr"])
                        pfn = parent.key.rsplit('::', 1)[-1]
                        for x in pcs:
                            lab = '+'.join(dominating_variants(F, parent, x[0])) or 'any'
                            pb = cut_sites(parent, [x[0]], pg)
                            if pb:
                                ctx.bad(f"{pfn}|icmpv6::{var}|multicast-dst|{lab}",
                                        f"ICMPv6 error {var} in {pfn} (arm {lab}) can be generated for a packet sent to a multicast destination",
                                        body=parent, bb=x[0], path=pb[0][1])
                            else:
                                ctx.ok((pfn, var, 'v6', lab), sample=dict(fn=pfn, arm=lab, error=var, guard='!dst.is_multicast()'))
                        continue
                if bad:
                    ctx.bad(f"{fnm}|icmpv6::{var}|multicast-dst", f"ICMPv6 error {var} in {fnm} can be generated for a packet sent to a multicast destination "
                            "(no `!dst_addr.is_multicast()` guard here or in icmpv6_reply)", body=body, bb=bi, path=bad[0][1])
                else:
                    ctx.ok((fnm, var, 'v6'), sample=dict(fn=fnm, error=var, guard='!dst.is_multicast()'))
    # (d) process_tcp
    pt = ctx.method(IFI, 'process_tcp')
    T = 'socket::tcp::Socket'
    rst = [x[0] for x in pt.calls() if pt.callee_name(x[1]) == F.method(T, 'rst_reply').key]
    proc = [x[0] for x in pt.calls() if pt.callee_name(x[1]) == F.method(T, 'process').key]
    ctx.need(rst and proc, "process_tcp calls tcp::Socket::rst_reply and ::process")
    IR = 'wire::ip::Repr'
    dcall = [f"C:{F.method(IR, 'dst_addr').key}"]

    def _dst_call(f):
        if f[0] != 'bool':
            return None
        n = strip(f[1])
        if n[0] != 'call':
            return None
        ls = set()
        for a in n[2]:
            ls |= leafs(a)
        if not set(dcall) <= ls:
            return None
        return n[1], f[2], ls

    def dst_unicast(f):
        x = _dst_call(f)
        if x is None:
            return False
        nm, truth, ls = x
        if truth is True and (nm.endswith('::is_unicast') or nm.endswith('x_is_unicast') or nm.endswith('is_unicast_v4')):
            return True
        return truth is False and nm.endswith('is_multicast')

    def dst_not_broadcast(f):
        x = _dst_call(f)
        if x is None:
            return False
        nm, truth, ls = x
        if truth is False and (nm.endswith('is_broadcast_v4') or nm.endswith('::is_broadcast')):
            return True
        if truth is True and nm.endswith('is_unicast_v4'):
            return True
        # IPv6 has no broadcast: a unicast test on the Ipv6 variant of the address settles it
        return truth is True and nm.endswith('x_is_unicast') and 'D:Ipv6' in ls
    gu = guard_edges(F, pt, dst_unicast)
    gb = guard_edges(F, pt, dst_not_broadcast)
    gu = derived_guard_edges(pt, gu, pred=dst_unicast)
    gb = derived_guard_edges(pt, gb, pred=dst_not_broadcast)
    for s, what in [(x, 'rst_reply') for x in rst] + [(x, 'process') for x in proc]:
        for g, cls in ((gu, 'not-multicast'), (gb, 'not-broadcast')):
            bad = cut_sites(pt, [s], g) if g else [(s, pt.path_to(pt.reachable(), s))]
            if bad:
                ctx.bad(f"process_tcp|{what}|dst-{cls}",
                        ("a TCP RST can be generated in reply to" if what == 'rst_reply' else "a socket can change state on") +
                        f" a segment addressed to a broadcast/multicast destination (process_tcp lacks the {cls} destination guard)",
                        body=pt, bb=s, path=bad[0][1])
            else:
                ctx.ok(('process_tcp', what, cls), sample=dict(fn='process_tcp', site=what, guard='dst ' + cls))


@rule('R11.5', ['C11'], floor=3, clause='no RST in reply to a RST; automatic ICMP replies only to echo requests')
def r11_5(ctx):
    F = ctx.F
    pt = ctx.method(IFI, 'process_tcp')
    T = 'socket::tcp::Socket'
    rst = [x[0] for x in pt.calls() if pt.callee_name(x[1]) == F.method(T, 'rst_reply').key]
    g = rel_edges(F, pt, 'ne', [f"F:{TCPR}.control"], ["V:wire::tcp::Control::Rst"])
    ctx.need(g, "control != Rst test in process_tcp")
    for s in rst:
        bad = cut_sites(pt, [s], g)
        if bad:
            ctx.bad("process_tcp|rst_reply|rst", "a TCP RST can be answered with a RST", body=pt, bb=s, path=bad[0][1])
        else:
            ctx.ok(('process_tcp', 'rst-not-to-rst'), sample=dict(fn='process_tcp', guard='control != Rst'))
    # tcp::Socket::process: rst_reply sites only behind control != Rst as well
    p = ctx.method(T, 'process')
    sites = [x[0] for x in p.calls() if p.callee_name(x[1]) == F.method(T, 'rst_reply').key]
    ctx.need(sites, "rst_reply sites in tcp::Socket::process")
    from ..fdai import FDAI
    r = FDAI(F).run(p, {fkey(TCPR, 'control', 4): frozenset(['Rst'])})
    feas = feasible_sites(p, sites, r.edge_ok())
    if feas:
        ctx.bad("tcp::process|rst_reply|rst", "tcp::Socket::process can answer a RST segment with a RST", body=p, bb=feas[0])
    else:
        ctx.ok(('tcp::process', 'rst-not-to-rst', len(sites)), sample=dict(fn='tcp::Socket::process', partition='control=Rst', rst_reply_sites_feasible=0))
    for fn, adt, rep in (('process_icmpv4', 'wire::icmpv4::Repr', 'icmpv4_reply'), ('process_icmpv6', 'wire::icmpv6::Repr', 'icmpv6_reply')):
        b = ctx.method(IFI, fn)
        sites = [x[0] for x in mcalls(F, b, IFI, rep)]
        ctx.need(sites, f"{fn} calls {rep}")
        def is_echo(f, adt=adt):
            return f[0] == 'is' and f[3] == adt and f[2] == 'EchoRequest'
        g = guard_edges(F, b, is_echo)
        for s in sites:
            bad = cut_sites(b, [s], g)
            if bad:
                ctx.bad(f"{fn}|{rep}", f"{fn} can send an automatic ICMP reply to something other than an echo request "
                        "(an ICMP error would be answered)", body=b, bb=s, path=bad[0][1])
            else:
                ctx.ok((fn, rep), sample=dict(fn=fn, guard='EchoRequest arm'))


@rule('R11.11', ['C11'], floor=1, clause='a loopback destination is no exemption from the destination filter for packets that arrive on a device: process_ipv6 reaches protocol processing only for an address the interface owns or a group it has joined (::1 counts when it is one of the interface\'s addresses, as 127.0.0.1 does for IPv4)')
def r11_11(ctx):
    F = ctx.F
    b = ctx.method(IFI, 'process_ipv6')
    sites = _sites(ctx, b, ['process_nxt_hdr'])
    ctx.need(sites, "process_nxt_hdr in process_ipv6")
    dleaf = [f"F:{V6R}.dst_addr"]
    sleaf = [f"F:{V6R}.src_addr"]
    own = p_any(*[p_call(mpred(F, adt, meth), True, dleaf, forbid=sleaf) for (adt, meth) in [(IFI, 'has_ip_addr'), (IFI, 'has_multicast_group')]])
    ctx.need(guard_edges(F, b, own) or pass_edges(F, b, own), "has_ip_addr / has_multicast_group tests in process_ipv6")
    lo = p_call(mpred(F, '__ext__', 'is_loopback'), True, dleaf, forbid=sleaf)
    for s, n in sites:
        bad = unguarded(F, b, [s], own)
        if not bad:
            ctx.ok(('process_ipv6', n, 'owned destination'), sample=dict(fn='process_ipv6', site=n, guard='has_ip_addr | has_multicast_group'))
            continue
        via_lo = not unguarded(F, b, [s], p_any(own, lo))
        if via_lo:
            ctx.bad("process_ipv6|loopback-destination-accepted-unowned", "process_ipv6 accepts a packet for ::1 from any device although the interface does not own ::1: a TCP SYN to [::1]:port arriving on "
                    "Ethernet / IEEE 802.15.4 moves a listening socket to SYN-RECEIVED (and is answered from ::1)", body=b, bb=s, path=bad[0][1])
        else:
            ctx.bad(f"process_ipv6|{n}|unowned-destination", f"{n} reachable from process_ipv6 for a destination that is neither an address of the interface nor a joined group", body=b, bb=s, path=bad[0][1])
