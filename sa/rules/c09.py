"""C09 / C10 / C03 - datagram sockets, frame well-formedness, ingress robustness (structural clauses)."""
from ..framework import rule
from ..core import *
from ..lib import *
from ..wirelib import ret_origin, wire_views, buffer_accesses, const_of
from ..loops import strict_parsers, loops
from .c04 import const_int
from .c07 import check_loops
from .c14 import store_origin, untuple

IF = 'iface::interface::Interface'
IFI = 'iface::interface::InterfaceInner'
PB = 'storage::packet_buffer::PacketBuffer'
DGRAM = ['socket::udp::Socket', 'socket::icmp::Socket', 'socket::raw::Socket']


@rule('R09.1', ['C09', 'C16'], floor=6, clause='datagram sockets take a packet off the tx queue only through dequeue_with, and the closure returns exactly what emit returned (a failed emit leaves the datagram queued)')
def r09_1(ctx):
    F = ctx.F
    dw = F.method(PB, 'dequeue_with')
    consumers = {F.method(PB, m).key for m in ('dequeue', 'dequeue_with', 'reset') if F.method(PB, m)}
    for adt in DGRAM:
        d = ctx.method(adt, 'dispatch')
        short = adt.split('::')[1]
        uses = [d.callee_name(c) for _, c, *_ in d.calls() if d.callee_name(c) in consumers]
        if uses == [dw.key]:
            ctx.ok((short, 'dequeue_with'))
        else:
            ctx.bad(f"{short}::dispatch|consume", f"{short}::dispatch consumes its tx queue through {[u.rsplit('::',1)[-1] for u in uses]} (expected dequeue_with only)", body=d)
        cls = [c for c in F.closures_of(d.key)]
        done = False
        for cb in cls:
            emits = [x for x in cb.calls() if isinstance(x[1], dict) and (x[1].get('fn') or '').endswith(('FnOnce::call_once', 'FnMut::call_mut', 'Fn::call'))
                     and x[2] and is_place_op(x[2][0])]
            emits = [x for x in emits if any(l.startswith('U:emit') for l in leafs(F.origin.operand(cb, x[2][0], x[0], len(cb.blocks[x[0]]['s']))))]
            if not emits:
                continue
            done = True
            for x in emits:
                # the call's destination is the closure's return place, or flows unchanged into it
                r = ret_origin(F, cb)
                hit = False
                for a in alts(simplify(r)):
                    if a[0] == 'call' and a[1].endswith(('call_once', 'call_mut', '::call')):
                        hit = True
                if hit:
                    ctx.ok((short, 'emit-result-returned', x[0]), sample=dict(socket=short, closure='returns emit(..)'))
                else:
                    ctx.bad(f"{short}::dispatch|emit-result-dropped", f"{short}::dispatch closure does not return the result of emit(): a datagram whose "
                            "transmission failed (unresolved neighbor, full device) is dequeued and lost", body=cb, bb=x[0])
                # no other non-Ok constant return on paths after emit: every return reachable after the emit is the emit result
            # constant returns must be Ok(()) (a deliberate drop), never Err
        if not done:
            ctx.bad(f"{short}::dispatch|no-emit", f"{short}::dispatch closure never calls emit", body=d)


@rule('R09.4', ['C09', 'C11'], floor=2, clause='a UDP datagram is delivered to at most one socket (the first that accepts it)')
def r09_4(ctx):
    F = ctx.F
    b = ctx.method(IFI, 'process_udp')
    for adt in ('socket::udp::Socket', 'socket::dns::Socket'):
        pm = F.method(adt, 'process')
        sites = [x for x in b.calls() if b.callee_name(x[1]) == pm.key]
        ctx.need(sites, f"{adt}::process call in process_udp")
        ls = loops(b)
        for x in sites:
            # after the process call no loop header (next socket) is reachable
            st = x[4]
            seen = b.reachable(start=st)
            again = [y[0] for y in b.calls() if b.callee_name(y[1]) == pm.key and y[0] in seen]
            if again:
                ctx.bad(f"process_udp|{adt}|delivered-twice", f"after delivering a datagram to one {adt} the socket loop continues (duplicate delivery)",
                        body=b, bb=x[0])
            else:
                ctx.ok(('process_udp', adt, 'first-only'), sample=dict(fn='process_udp', socket=adt, after_process='return'))


@rule('R09.5', ['C09'], floor=4, clause='a user buffer that is too small yields Truncated before anything is copied')
def r09_5(ctx):
    F = ctx.F
    n = 0
    for adt in DGRAM:
        for fn in ('recv_slice', 'peek_slice'):
            b = F.method(adt, fn)
            if b is None:
                continue
            copies = [x[0] for x in b.calls() if (b.callee_name(x[1]) or '').endswith('copy_from_slice')]
            if not copies:
                continue
            n += 1
            short = adt.split('::')[1]
            fits = lambda f: f[0] == 'rel' and f[1] in ('Ge',) and 'A:2' in leafs(f[2]) and not ('A:2' in leafs(f[3]))
            bad = unguarded(F, b, copies, fits)
            if bad:
                ctx.bad(f"{short}::{fn}|silent-truncation", f"{short}::{fn} copies into the user buffer without the `data.len() >= packet.len()` check "
                        "(silently shortened datagram)", body=b, bb=bad[0][0], path=bad[0][1])
            else:
                ctx.ok((short, fn), sample=dict(socket=short, fn=fn, guard='!(data.len() < buffer.len()) else Err(Truncated)'))
    ctx.need(n >= 4, "recv_slice/peek_slice implementations")


@rule('R09.6', ['C09'], floor=3, clause='received UDP metadata carries the packet\'s own source endpoint and destination address')
def r09_6(ctx):
    F = ctx.F
    b = ctx.method('socket::udp::Socket', 'process')
    UM = 'socket::udp::UdpMetadata'
    found = False
    for bi, si, var in agg_sites(b, UM):
        found = True
        s = b.blocks[bi]['s'][si]
        names = s[2][1]['fnames']
        ep = F.origin.operand(b, s[2][2][names.index('endpoint')], bi, si)
        la = F.origin.operand(b, s[2][2][names.index('local_address')], bi, si)
        le, ll = leafs(ep), leafs(la)
        extra_e = [l for l in le if (l.startswith('F:') and l != 'F:wire::udp::Repr.src_port') or (l.startswith('C:') and not l.endswith('Repr::src_addr'))]
        if any(l.endswith('Repr::src_addr') for l in le if l.startswith('C:')) and 'F:wire::udp::Repr.src_port' in le and not extra_e:
            ctx.ok(('meta', 'endpoint'), sample=dict(endpoint='(ip_repr.src_addr(), repr.src_port)'))
        else:
            ctx.bad("udp::process|meta|endpoint", f"UdpMetadata.endpoint = {show(ep)[:80]} is not the packet's source address/port", body=b, bb=bi)
        extra = [l for l in ll if l.startswith('F:') or (l.startswith('C:') and not l.endswith('Repr::dst_addr'))]
        if any(l.endswith('Repr::dst_addr') for l in ll if l.startswith('C:')) and not extra:
            ctx.ok(('meta', 'local_address'))
        else:
            ctx.bad("udp::process|meta|local_address", f"UdpMetadata.local_address = {show(la)[:80]} is not the packet's destination address", body=b, bb=bi)
    ctx.need(found, "UdpMetadata construction in udp::process")
    # payload copied whole: enqueue(size = payload.len()) then copy_from_slice(payload)
    enq = [x for x in b.calls() if (b.callee_name(x[1]) or '').endswith('PacketBuffer::<\'a, H>::enqueue')]
    if enq:
        o = simplify(F.origin.operand(b, enq[0][2][1], enq[0][0], len(b.blocks[enq[0][0]]['s'])))
        if (o[0] == 'len' or is_call(o, '::len')) and 'A:6' in leafs(o):
            ctx.ok(('udp::process', 'whole-payload'))
        else:
            ctx.bad("udp::process|size", f"rx enqueue size {show(o)[:60]} is not payload.len()", body=b, bb=enq[0][0])


@rule('R09.7', ['C09', 'C03'], floor=1, clause='IpVersion::of_packet is total (no unchecked index on a possibly empty buffer)')
def r09_7(ctx):
    F = ctx.F
    b = ctx.method('wire::ip::Version', 'of_packet')
    bounds = [bi for bi, bl in enumerate(b.blocks) if not bl['cl'] and bl['t'][0] == 'assert' and bl['t'][3].get('k') == 'bounds']
    if bounds:
        callers = sorted(F.callers(b.key))
        ctx.bad("of_packet|unchecked-index", f"IpVersion::of_packet indexes its argument without a length check; callers: {[c.rsplit('::',2)[-2:] for c in callers][:4]} "
                "(a zero-length raw datagram or frame panics)", body=b, bb=bounds[0])
    else:
        ctx.ok(('of_packet', 'total'), sample=dict(fn='IpVersion::of_packet', index='via first()/len check'))


# ------------------------------------------------------------------------------------------------
# C10
# ------------------------------------------------------------------------------------------------

@rule('R10.1', ['C10', 'C12', 'C09', 'C03'], floor=3, clause='the length handed to the device is the buffer_len of what is emitted; the unfragmented path is only taken when the datagram (header included) fits the IP MTU; the fragmentation buffer check uses the full datagram length and admits a datagram that exactly fills it')
def r10_1(ctx):
    F = ctx.F
    b = ctx.method(IFI, 'dispatch_ip')
    IR = 'wire::ip::Repr'
    bl_key = F.method(IR, 'buffer_len').key
    mtu = [m.key for m in F.methods('phy::DeviceCapabilities') if m.key.endswith('::ip_mtu')]
    ctx.need(mtu, "DeviceCapabilities::ip_mtu")

    def total_vs_mtu(f):
        if f[0] != 'rel':
            return False
        la, lb = leafs(f[2]), leafs(f[3])
        return f[1] in ('Le',) and f"C:{bl_key}" in la and f"C:{mtu[0]}" in lb
    consumes = [x for x in b.calls() if (b.callee_name(x[1]) or x[1].get('fn') or '').endswith('TxToken::consume')]
    ctx.need(len(consumes) >= 2, "consume sites in dispatch_ip")
    n_unfrag = 0
    for x in consumes:
        ln = simplify(F.origin.operand(b, x[2][1], x[0], len(b.blocks[x[0]]['s'])))
        ls = leafs(ln)
        if any(l.endswith('max_ipv4_fragment_size') for l in ls if l.startswith('C:')):
            ctx.ok(('consume', 'first-fragment', x[0]), sample=dict(site='first fragment', len=show(ln)[:60]))
            continue
        n_unfrag += 1
        if f"C:{bl_key}" in ls:
            ctx.ok(('consume', 'len=buffer_len', x[0]), sample=dict(site='whole datagram', len=show(ln)[:60]))
        else:
            ctx.bad("dispatch_ip|consume-len", f"frame length {show(ln)[:80]} is not derived from ip_repr.buffer_len()", body=b, bb=x[0])
        bad = unguarded(F, b, [x[0]], total_vs_mtu)
        if bad:
            ctx.bad("dispatch_ip|oversize-unfragmented", "dispatch_ip can hand an unfragmented datagram to the device without `total length <= ip_mtu()` "
                    "(frames larger than the MTU)", body=b, bb=x[0], path=bad[0][1])
        else:
            ctx.ok(('consume', 'fits-mtu', x[0]), sample=dict(guard='ip_repr.buffer_len() <= ip_mtu()'))
    ctx.need(n_unfrag >= 2, "unfragmented IPv4 and IPv6 transmit sites")
    # fragmentation buffer admission
    FR = 'iface::fragmentation::Fragmenter'
    facts = []
    for bi, blk in enumerate(b.blocks):
        if blk['cl'] or blk['t'][0] != 'switch':
            continue
        for tb, lab, f in cond_facts(F, b, bi):
            if f[0] != 'rel':
                continue
            if f"F:{FR}.buffer" in leafs(f[3]) and f"F:{FR}.buffer" not in leafs(f[2]):
                f = ('rel', {'Lt': 'Gt', 'Gt': 'Lt', 'Le': 'Ge', 'Ge': 'Le'}.get(f[1], f[1]), f[3], f[2])
            if f"F:{FR}.buffer" in leafs(f[2]) and f[1] in ('Lt', 'Le'):
                facts.append((bi, f))
    ctx.need(facts, "fragmentation buffer size test in dispatch_ip")
    for bi, f in facts:
        if f[1] != 'Lt':
            ctx.bad("dispatch_ip|frag-buffer|strictness", "a datagram that exactly fills the fragmentation buffer is refused (`<=` instead of `<`) and silently dropped",
                    body=b, bb=bi)
        elif f"C:{bl_key}" not in leafs(f[3]):
            ctx.bad("dispatch_ip|frag-buffer|length", f"fragmentation buffer is compared with {show(f[3])[:60]} instead of the full datagram length "
                    "(header not counted: overrun of the buffer / panic for lengths in the gap)", body=b, bb=bi)
        else:
            ctx.ok(('frag-buffer', 'admission'), sample=dict(test='frag.buffer.len() < ip_repr.buffer_len() => drop'))


@rule('R10.3', ['C10', 'C11'], floor=2, clause='a reply whose source is the destination of the received packet is only built when that destination is one of the interface\'s unicast addresses')
def r10_3(ctx):
    """T1: icmpv4_reply (src = received dst) behind is_unicast_v4(dst) - the subnet-broadcast aware test;
    icmpv6_reply uses the received destination only behind x_is_unicast, else a source chosen by
    get_source_address_ipv6; tcp replies (reply/rst_reply via process_tcp) behind the destination guards of
    R11.4."""
    F = ctx.F
    V4R = 'wire::ipv4::Repr'
    b = ctx.method(IFI, 'icmpv4_reply')
    sites = []
    for bi, si, var in agg_sites(b, V4R):
        s = b.blocks[bi]['s'][si]
        names = s[2][1]['fnames']
        src = simplify(F.origin.operand(b, s[2][2][names.index('src_addr')], bi, si))
        if is_field(src, V4R, 'dst_addr'):
            sites.append(bi)
    ctx.need(sites, "reply with src = received dst in icmpv4_reply")
    g = p_call(mpred(F, IFI, 'is_unicast_v4'), True, [f"F:{V4R}.dst_addr"], forbid=[f"F:{V4R}.src_addr"])
    bad = unguarded(F, b, sites, g)
    if bad:
        ctx.bad("icmpv4_reply|src-not-unicast", "icmpv4_reply uses the received destination as source without is_unicast_v4() (a subnet broadcast "
                "address would become the source of the reply)", body=b, bb=bad[0][0], path=bad[0][1])
    else:
        ctx.ok(('icmpv4_reply', 'src'), sample=dict(fn='icmpv4_reply', guard='is_unicast_v4(dst_addr)'))
    V6R = 'wire::ipv6::Repr'
    b = ctx.method(IFI, 'icmpv6_reply')
    for bi, si, var in agg_sites(b, V6R):
        s = b.blocks[bi]['s'][si]
        names = s[2][1]['fnames']
        src = simplify(F.origin.operand(b, s[2][2][names.index('src_addr')], bi, si))
        okv = True
        for a in alts(src):
            if is_field(a, V6R, 'dst_addr'):
                continue   # must then be behind x_is_unicast: checked below
            if is_call(a, 'get_source_address_ipv6'):
                continue
            okv = False
        ux = p_call(mpred(F, '__ext__', 'x_is_unicast'), True, [f"F:{V6R}.dst_addr"])
        # the definition that copies dst_addr into the source must sit behind x_is_unicast
        if okv and guard_edges(F, b, ux):
            ctx.ok(('icmpv6_reply', 'src'), sample=dict(fn='icmpv6_reply', src='dst if unicast else get_source_address_ipv6()'))
        else:
            ctx.bad("icmpv6_reply|src", f"icmpv6_reply source {show(src)[:80]} is not (received dst if unicast | chosen own address)", body=b, bb=bi)


@rule('R10.4', ['C10', 'C06'], floor=1, clause='the TCP option area is always terminated/filled: what the options do not use is overwritten by the end-of-list fill')
def r10_4(ctx):
    F = ctx.F
    b = ctx.method('wire::tcp::TcpOption', 'emit')
    # EndOfList arm: every byte of the remaining buffer is written (loop over iter_mut / fill)
    ok_fill = False
    for h, nodes, srcs in loops(b):
        from ..loops import iterator_driven
        it, ty = iterator_driven(F, b, h, nodes)
        if it and ty.startswith('std::slice::IterMut<'):
            ok_fill = True
    for x in b.calls():
        if (b.callee_name(x[1]) or '').endswith('::fill'):
            ok_fill = True
    if ok_fill:
        ctx.ok(('TcpOption::emit', 'eol-fills-rest'), sample=dict(fn='TcpOption::emit', end_of_list='writes every remaining option byte'))
    else:
        ctx.bad("TcpOption::emit|eol-partial", "TcpOption::emit(EndOfList) does not overwrite the whole remaining option area: padding bytes keep "
                "stale buffer content (emission depends on prior buffer contents, checksum covers garbage)", body=b)
    e = ctx.method('wire::tcp::Repr', 'emit')
    calls = [e.callee_name(c) or '' for _, c, *_ in e.calls()]
    if any(c == b.key for c in calls):
        ctx.ok(('Repr::emit', 'uses-TcpOption::emit'))
    else:
        ctx.bad("tcp::Repr::emit|options", "tcp::Repr::emit does not emit options through TcpOption::emit", body=e)


# ------------------------------------------------------------------------------------------------
# C03
# ------------------------------------------------------------------------------------------------

@rule('R03.1', ['C03'], floor=1, clause='an empty frame is dropped before the IP version nibble is inspected')
def r03_1(ctx):
    F = ctx.F
    b = ctx.method(IF, 'socket_ingress')
    bodies = [b] + F.closures_of(b.key)
    found = False
    for cb in bodies:
        sites = []
        for nm in ('process_ethernet', 'process_ip', 'process_ieee802154'):
            sites += [x[0] for x in mcalls(F, cb, IFI, nm)]
        if not sites:
            continue
        found = True
        g = p_call(lambda n: n.endswith('::is_empty'), False)
        bad = unguarded(F, cb, sites, g)
        if bad:
            ctx.bad("socket_ingress|empty-frame", "frame processing is reachable for an empty frame", body=cb, bb=bad[0][0], path=bad[0][1])
        else:
            ctx.ok(('ingress', 'non-empty'), sample=dict(fn='socket_ingress', guard='!frame.is_empty()'))
    ctx.need(found, "process_* calls in socket_ingress")


@rule('R03.2', ['C03'], floor=20, clause='no parse result derived from a received frame is unwrapped on the ingress path')
def r03_2(ctx):
    """T11->gate: in every body reachable from socket_ingress that lives in src/iface, no
    Result::unwrap/expect or Option::unwrap/expect whose receiver's origin contains a call into wire::*
    parsing (new_checked / parse / check_len)."""
    F = ctx.F
    root = ctx.method(IF, 'socket_ingress')
    reach = F.reachable_from([root.key])
    n = 0
    for k in sorted(reach):
        b = F.bodies.get(k)
        if b is None or not (b.file or '').startswith('src/iface/'):
            continue
        n += 1
        for x in b.calls():
            nm = b.callee_name(x[1]) or ''
            if nm.rsplit('::', 1)[-1] in ('unwrap', 'expect') and ('Result' in nm or 'Option' in nm):
                o = F.origin.operand(b, x[2][0], x[0], len(b.blocks[x[0]]['s']))
                ls = [l for l in leafs(o) if l.startswith('C:wire::') and l.rsplit('::', 1)[-1] in ('new_checked', 'parse', 'check_len')]
                if ls:
                    fnm = k.rsplit('::', 1)[-1]
                    ctx.bad(f"{fnm}|unwrap|{ls[0][2:].split('wire::')[-1]}", f"{k} unwraps the result of {ls[0][2:]} on the ingress path (attacker-controlled bytes can panic the interface)",
                            body=b, bb=x[0])
        ctx.ok(('ingress-body', k))
    ctx.need(n >= 20, "iface bodies reachable from socket_ingress")


@rule('R03.4', ['C03', 'C20'], floor=5, clause='attacker-derived subtractions in the 6LoWPAN ingress path are dominated by a comparison of the same two quantities')
def r03_4(ctx):
    """T1: every `a - b` (checked subtraction) in sixlowpan_to_ipv6 / decompress_udp /
    decompress_ext_hdr / process_sixlowpan_fragment whose two operands are both non-constant is behind a
    guard relating the same operands (a >= b), else a crafted frame underflows (panic in debug builds,
    huge length in release)."""
    F = ctx.F
    names = ['sixlowpan_to_ipv6', 'decompress_udp', 'decompress_ext_hdr', 'process_sixlowpan_fragment', 'process_sixlowpan']
    # (a) the announced datagram size is lower-bounded before anything is decompressed into the slot
    pf = ctx.method(IFI, 'process_sixlowpan_fragment')
    bodies = [pf] + F.closures_of(pf.key)
    tgt = ctx.method(IFI, 'sixlowpan_to_ipv6')
    sites = [(cb, x[0]) for cb in bodies for x in cb.calls() if cb.callee_name(x[1]) == tgt.key]
    ctx.need(sites, "sixlowpan_to_ipv6 call in process_sixlowpan_fragment")
    addw = [x[0] for x in pf.calls() if (pf.callee_name(x[1]) or '').endswith('::add_with')]
    ctx.need(addw, "add_with call in process_sixlowpan_fragment")

    def size_ge_40(f):
        if f[0] != 'rel' or f[1] not in ('Ge', 'Gt'):
            return False
        k = const_int(simplify(f[3]))
        return k is not None and (k >= 40 if f[1] == 'Ge' else k >= 39) and any(l.endswith('::datagram_size') for l in leafs(f[2]))
    bad = unguarded(F, pf, addw, size_ge_40)
    if bad:
        ctx.bad("process_sixlowpan_fragment|datagram_size-unbounded", "a FRAG1 announcing a datagram smaller than an IPv6 header reaches decompression "
                "(split_at_mut(40) / `- 40` panic)", body=pf, bb=bad[0][0], path=bad[0][1])
    else:
        ctx.ok(('process_sixlowpan_fragment', 'datagram_size>=40'), sample=dict(fn='process_sixlowpan_fragment', guard='datagram_size() >= 40'))
    # (b) variable - variable on frame-derived data
    nb = 0
    for k, b in sorted(F.bodies.items()):
        fnm = k.rsplit('::', 1)[-1]
        if fnm not in names or not (b.file or '').startswith('src/iface/'):
            continue
        nb += 1
        ctx.ok((fnm, 'scanned'))
        for bi, bl in enumerate(b.blocks):
            if bl['cl']:
                continue
            t = bl['t']
            if t[0] == 'assert' and t[3].get('k') == 'overflow' and t[3].get('op') == 'Sub':
                si = len(bl['s'])
                a = simplify(F.origin.operand(b, t[3]['a'], bi, si))
                c = simplify(F.origin.operand(b, t[3]['b'], bi, si))
                if const_int(a) is not None or const_int(c) is not None:
                    continue      # lower bounds against constants: (a) and the numeric clause that is not decided
                if not (_frame_derived(a) or _frame_derived(c)):
                    continue
                la, lc = a, c

                def ge(f, la=la, lc=lc):
                    if f[0] != 'rel':
                        return False
                    x, y = simplify(f[2]), simplify(f[3])
                    if x == la and (y == lc or _contains(y, lc)) and f[1] in ('Ge', 'Gt'):
                        return True
                    if y == la and (x == lc or _contains(x, lc)) and f[1] in ('Le', 'Lt'):
                        return True
                    return False
                bad = unguarded(F, b, [bi], ge)
                sig = f"{show(a)[:30]} - {show(c)[:30]}"
                if bad:
                    ctx.bad(f"{fnm}|unguarded-sub|{_sig(a)}-{_sig(c)}", f"{fnm}: `{sig}` on frame-derived values has no dominating `>=` guard "
                            "(a crafted 6LoWPAN frame makes it underflow)", body=b, bb=bi, line=t[5])
                else:
                    ctx.ok((fnm, 'sub', _sig(a), _sig(c)), sample=dict(fn=fnm, subtraction=sig, guard='dominating >= comparison'))
    ctx.need(nb >= 4, "6LoWPAN ingress bodies")


def _frame_derived(n):
    ls = leafs(n)
    return any(l.startswith('A:') for l in ls) or any(l.startswith('C:wire::') for l in ls)


def _contains(n, sub):
    found = []

    def f(x):
        if x == sub:
            found.append(1)
    walk(n, f)
    return bool(found)


def _sig(n):
    ls = sorted(l for l in leafs(n) if l[:2] in ('A:', 'C:', 'F:'))
    return '+'.join(x.rsplit('::', 1)[-1].rsplit('.', 1)[-1] for x in ls)[:40] or show(n)[:20]



WRITE_ONLY_USERS = ('::emit', '::emit_header', '::fill_checksum', 'call_once', 'call_mut', '::unwrap', '::payload_mut')


def _canon_slice(n):
    n = strip(simplify(n))
    while n[0] in ('ref', 'deref') or (n[0] == 'cast'):
        n = strip(n[1])
    return n


@rule('R03.5', ['C03', 'C07'], floor=25, clause='a view created unchecked on the ingress path is either only written, or read through a Repr::parse that validates the length (check_len) before touching any field, or through an accessor whose reach an explicit length test of the wrapped slice covers')
def r03_5(ctx):
    """icmp::Socket::accepts_* wraps the datagram quoted inside an ICMP error with new_unchecked and relies
    on udp/tcp Repr::parse to reject short quotes.  Every such reader must start with check_len."""
    F = ctx.F
    views = wire_views(F)
    root = ctx.method(IF, 'socket_ingress')
    reach = F.reachable_from([root.key])
    n = 0
    readers = {}
    for k in sorted(reach):
        b = F.bodies.get(k)
        if b is None or not (b.file or '').startswith(('src/iface/', 'src/socket/')):
            continue
        for x in b.calls():
            nm = b.callee_name(x[1]) or ''
            if not (nm.endswith('::new_unchecked') and nm.startswith('wire::')):
                continue
            n += 1
            for y in b.calls():
                un = b.callee_name(y[1]) or y[1].get('fn') or ''
                if y[0] == x[0]:
                    continue
                hit = False
                for a in y[2]:
                    if isinstance(a, list) and a[0] in ('c', 'm'):
                        o = F.origin.operand(b, a, y[0], len(b.blocks[y[0]]['s']))
                        if ('C:' + nm) in leafs(o):
                            hit = True
                if not hit:
                    continue
                last = un.rsplit('::', 1)[-1]
                if un.endswith(WRITE_ONLY_USERS) or last.startswith(('set_', 'clear_')):
                    continue
                if last == 'parse' and un.startswith('wire::'):
                    readers.setdefault(un, []).append((k, y[0]))
                    continue
                fnm = k.rsplit('::', 1)[-1]
                # a single accessor behind an explicit length test of the wrapped slice that covers its reach
                ab = F.bodies.get(un)
                vadt_ = ab.meta.get('impl_self') if ab is not None else None
                accs = buffer_accesses(F, ab, vadt_) if ab is not None and vadt_ in views else None
                reach_ = max([a['const'] for a in accs], default=None) if accs and all(a['const'] is not None for a in accs) else None
                src_ = _canon_slice(F.origin.operand(b, x[2][0], x[0], len(b.blocks[x[0]]['s']))) if x[2] else None
                if reach_ is not None and src_ is not None:
                    def covers(f, src_=src_, reach_=reach_):
                        if f[0] != 'rel':
                            return False
                        for a_, c_, ops in ((f[2], f[3], {'Ge': 0, 'Gt': 1}), (f[3], f[2], {'Le': 0, 'Lt': 1})):
                            a_ = strip(simplify(a_))
                            inner = a_[1] if a_[0] == 'len' else (a_[2][0] if a_[0] == 'call' and a_[1].endswith('::len') and a_[2] else None)
                            cc = const_of(simplify(c_))
                            if inner is not None and cc is not None and f[1] in ops and _canon_slice(inner) == src_ and cc + ops[f[1]] >= reach_:
                                return True
                        return False
                    if not unguarded(F, b, [y[0]], covers):
                        ctx.ok(('unchecked-view', k, un, y[0], 'length-tested'), sample=dict(fn=fnm, reads=un.rsplit('::', 1)[-1], octets=reach_, behind=f"len >= {reach_}"))
                        continue
                ctx.bad(f"{fnm}|unchecked-view-read|{last}", f"{k} reads an unchecked {nm.split('wire::')[-1].split('::new_')[0]} view through {un} "
                        "(attacker-controlled bytes, no length validation)", body=b, bb=y[0])
            ctx.ok(('unchecked-view', k, nm, x[0]))
    ctx.need(n >= 25, f"new_unchecked sites on the ingress path (found {n})")
    if not readers:
        ctx.note("no Repr::parse reader of an unchecked view on the ingress path")
    for pk, users in sorted(readers.items()):
        pb = F.bodies.get(pk)
        if pb is None:
            ctx.bad(f"{pk}|missing", f"{pk} not found", body=None)
            continue
        vadt = [l.get('adt') for l in pb.locals[1:pb.nargs + 1] if l.get('adt') in views]
        acc = [x[0] for x in pb.calls() if any((pb.callee_name(x[1]) or '').startswith(v + '::') for v in vadt)
               and not (pb.callee_name(x[1]) or '').endswith('::check_len')]
        cl = [x for x in pb.calls() if (pb.callee_name(x[1]) or '').endswith('::check_len') and any((pb.callee_name(x[1]) or '').startswith(v + '::') for v in vadt)]
        short = pk.split('wire::')[-1]
        if not cl:
            ctx.bad(f"{short}|no-check_len", f"{pk} is used on unchecked views ({users[0][0].rsplit('::', 1)[-1]}) but does not call check_len: "
                    "a truncated quoted datagram panics the interface", body=pb)
            continue
        okp = lambda f: f[0] == 'is' and f[2] in ('Continue', 'Ok') and any(l.endswith('::check_len') for l in leafs(f[1]) if l.startswith('C:'))
        bad = unguarded(F, pb, acc, okp)
        if bad:
            ctx.bad(f"{short}|accessor-before-check_len", f"{pk} touches a field before / without the check_len result being Ok", body=pb, bb=bad[0][0], path=bad[0][1])
        else:
            ctx.ok((short, 'check_len-first'), sample=dict(parser=short, used_by=users[0][0].rsplit('::', 1)[-1]))


@rule('R03.6', ['C03'], floor=3, clause='SLAAC builds a CIDR (which asserts prefix_len <= 128) only from prefix information that passed is_valid_prefix_info(), and that test bounds the prefix length')
def r03_6(ctx):
    F = ctx.F
    SL = 'iface::slaac::Slaac'
    pa = ctx.method(SL, 'process_advertisement')
    pp = ctx.method(SL, 'process_prefix')
    sites = [x[0] for x in pa.calls() if pa.callee_name(x[1]) == pp.key]
    ctx.need(sites, "process_prefix call in Slaac::process_advertisement")
    valid = lambda f: f[0] == 'bool' and f[2] is True and is_call(strip(f[1]), 'is_valid_prefix_info')
    bad = unguarded(F, pa, sites, valid)
    if bad:
        ctx.bad("Slaac::process_advertisement|unvalidated-prefix", "a router advertisement's prefix information reaches process_prefix (Ipv6Cidr::new asserts "
                "prefix_len <= 128) without is_valid_prefix_info()", body=pa, bb=bad[0][0], path=bad[0][1])
    else:
        ctx.ok(('slaac', 'validated-prefix'), sample=dict(fn='Slaac::process_advertisement', guard='prefix.is_valid_prefix_info()'))
    callers = [c for c in F.callers(pp.key) if c != pa.key and not c.endswith('::test') and '::test::' not in c and '::tests::' not in c]
    if callers:
        ctx.bad("Slaac::process_prefix|other-callers", f"process_prefix is also called from {callers[:3]}", body=pp)
    v = ctx.method('wire::ndiscoption::PrefixInformation', 'is_valid_prefix_info')
    # every path on which is_valid_prefix_info yields true passes `prefix_len <= 128`
    trues = []
    for bi, bl in enumerate(v.blocks):
        if bl['cl']:
            continue
        for s in bl['s']:
            if s[0] == 'a' and s[1] == [0, []]:
                o = s[2]
                if not (o[0] == 'use' and o[1][0] == 'k' and o[1][2] is False):
                    trues.append(bi)
        if bl['t'][0] == 'call' and bl['t'][3] == [0, []]:
            trues.append(bi)      # the last conjunct is returned directly
    le128 = lambda f: f[0] == 'rel' and ((f[1] in ('Le', 'Lt') and any(l.endswith('.prefix_len') for l in leafs(f[2])) and (const_int(simplify(f[3])) or 999) <= (128 if f[1] == 'Le' else 129))
                                         or (f[1] in ('Ge', 'Gt') and any(l.endswith('.prefix_len') for l in leafs(f[3])) and (const_int(simplify(f[2])) or 999) <= (128 if f[1] == 'Ge' else 129)))
    ctx.need(trues, "result stores in is_valid_prefix_info")
    bad = unguarded(F, v, trues, le128)
    if bad:
        ctx.bad("is_valid_prefix_info|prefix_len-unbounded", "is_valid_prefix_info() can return true for a prefix length above 128: SLAAC then panics in "
                "Ipv6Cidr::new on a crafted router advertisement", body=v, bb=bad[0][0])
    else:
        ctx.ok(('is_valid_prefix_info', 'prefix_len<=128'), sample=dict(fn='is_valid_prefix_info', clause='prefix_len <= 128'))
    notmc = lambda f: f[0] == 'bool' and f[2] is False and is_call(strip(f[1]), 'is_multicast')
    bad = unguarded(F, v, trues, notmc)
    if bad:
        ctx.bad("is_valid_prefix_info|multicast-prefix", "is_valid_prefix_info() can return true for a multicast prefix: SLAAC then configures a "
                "multicast interface address and Interface::poll panics in its address check", body=v, bb=bad[0][0])
    else:
        ctx.ok(('is_valid_prefix_info', 'not-multicast'), sample=dict(fn='is_valid_prefix_info', clause='!prefix.is_multicast()'))


@rule('R09.8', ['C09'], floor=3, clause='closing a UDP socket clears its endpoint and resets both packet queues: a datagram accepted under one binding is never transmitted under another (or from port 0)')
def r09_8(ctx):
    F = ctx.F
    U = 'socket::udp::Socket'
    b = ctx.method(U, 'close')
    rs = F.method(PB, 'reset')
    got = set()
    for x in b.calls():
        if b.callee_name(x[1]) == rs.key:
            o = F.origin.operand(b, x[2][0], x[0], len(b.blocks[x[0]]['s']))
            for l in leafs(o):
                if l.startswith(f"F:{U}."):
                    got.add(l.rsplit('.', 1)[-1])
    for fld in ('tx_buffer', 'rx_buffer'):
        if fld in got:
            ctx.ok(('udp::close', fld), sample=dict(fn='udp::Socket::close', resets=fld))
        else:
            ctx.bad(f"udp::close|{fld}-not-reset", f"udp::Socket::close() does not reset {fld}: "
                    + ("queued datagrams are later sent from port 0 or from the next binding's port" if fld == 'tx_buffer' else "datagrams received under the old binding are delivered to the new one"),
                    body=b)
    ws = [w for w in F.field_writes() if w['fn'] == b.key and w['adt'] == U and w['field'] == 'endpoint']
    if ws:
        ctx.ok(('udp::close', 'endpoint'))
    else:
        ctx.bad("udp::close|endpoint-kept", "udp::Socket::close() keeps the bound endpoint", body=b)
