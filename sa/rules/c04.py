"""C04 / C01 - TCP receive path structural clauses."""
from ..framework import rule
from ..core import *
from ..lib import *
from ..fdai import FDAI

S = 'socket::tcp::Socket'
R = 'wire::tcp::Repr'
RB = 'storage::ring_buffer::RingBuffer'


def is_rcv_nxt(n):
    """remote_seq_no + rx_buffer.len()"""
    n = strip(n)
    if not is_call(n, '::add', nargs=2):
        return False
    a, b = call_args(n)
    return is_field(a, S, 'remote_seq_no') and is_call(b, '::len', nargs=1) and is_field(call_args(b)[0], S, 'rx_buffer')


def is_seg_start(n):
    return is_field(n, R, 'seq_number')


def is_seg_end(n):
    n = strip(n)
    if not is_call(n, '::add', nargs=2):
        return False
    a, b = call_args(n)
    bs = strip(b)
    return is_field(a, R, 'seq_number') and (bs[0] == 'len' or is_call(bs, '::len')) and \
        f"F:{R}.payload" in leafs(bs)


def is_window_end(n):
    """last_ack + (remote_last_win << remote_win_shift)   |   window_start (no ack sent yet)"""
    ok_some = False
    for a in alts(n):
        if is_rcv_nxt(a):
            continue
        if not is_call(a, '::add', nargs=2):
            return False
        x, y = call_args(a)
        ys = strip(y)
        if not is_field(x, S, 'remote_last_ack'):
            return False
        if not (ys[0] == 'bin' and ys[1] == 'Shl' and is_field(ys[2], S, 'remote_last_win') and is_field(ys[3], S, 'remote_win_shift')):
            return False
        ok_some = True
    return ok_some


@rule('R04.1', ['C04', 'C01'], floor=2, clause='every acknowledgment number the socket emits is RCV.NXT = remote_seq_no + rx_buffer.len()')
def r04_1(ctx):
    """T5: the ack_number of the TcpRepr built in dispatch / ack_reply is None or Some(remote_seq_no +
    rx_buffer.len()); rst_reply acknowledges seq + segment_len of the offending segment (RFC 9293)."""
    F = ctx.F
    for fn in ('dispatch', 'ack_reply'):
        b = ctx.method(S, fn)
        n = 0
        # every construction / store of the ack_number field of a wire::tcp::Repr in this body
        for bi, bl in enumerate(b.blocks):
            if bl['cl']:
                continue
            for si, s in enumerate(bl['s']):
                if s[0] != 'a':
                    continue
                vals = []
                if s[2][0] == 'agg' and s[2][1]['k'] == 'adt' and s[2][1]['adt'] == R:
                    idx = s[2][1]['fnames'].index('ack_number')
                    vals.append(F.origin.operand(b, s[2][2][idx], bi, si))
                else:
                    np_ = b.norm(s[1])
                    if np_[1] and np_[1][-1][0] == 'f' and np_[1][-1][1] == 'ack_number' and np_[1][-1][2] == R:
                        vals.append(F.origin.rvalue(b, s[2], bi, si, 0, None))
                for v in vals:
                    for a in alts(simplify(v)):
                        a = strip(a)
                        n += 1
                        if a[0] == 'variant' and a[1].endswith('Option::None'):
                            ctx.ok((fn, 'ack', 'None'))
                        elif a[0] == 'agg' and a[1].endswith('Option::Some') and is_rcv_nxt(a[2][0]):
                            ctx.ok((fn, 'ack', 'rcv_nxt'), sample=dict(fn=fn, ack_number=show(a)[:80]))
                        else:
                            ctx.bad(f"{fn}|ack_number", f"tcp::Socket::{fn} emits ack_number = {show(a)[:100]} which is not "
                                    "remote_seq_no + rx_buffer.len()", body=b, bb=bi, line=s[3])
        ctx.need(n >= 1, f"ack_number construction in {fn}")


@rule('R04.2', ['C04', 'C01'], floor=5, clause='received payload is trimmed to [max(RCV.NXT, SEG.SEQ), min(window_end, SEG.END)) and placed at offset max(..) - RCV.NXT, identically in the assembler and the rx ring; window_end = last acked + last advertised window')
def r04_2(ctx):
    """T5 on tcp::Socket::process: origin trees of the operands of Assembler::add_then_remove_front,
    RingBuffer::write_unallocated and enqueue_unallocated."""
    F = ctx.F
    b = ctx.method(S, 'process')
    og = F.origin
    wu = [x for x in b.calls() if (b.callee_name(x[1]) or '').endswith('::write_unallocated')]
    at = [x for x in b.calls() if (b.callee_name(x[1]) or '').endswith('Assembler::add_then_remove_front')]
    eu = [x for x in b.calls() if (b.callee_name(x[1]) or '').endswith('::enqueue_unallocated')]
    ctx.need(len(wu) == 1 and len(at) == 1 and len(eu) == 1, "one write_unallocated / add_then_remove_front / enqueue_unallocated in tcp::process")
    def arg(x, i):
        return og.operand(b, x[2][i], x[0], len(b.blocks[x[0]]['s']))
    off_w, data_w = simplify(arg(wu[0], 1)), simplify(arg(wu[0], 2))
    off_a, size_a = simplify(arg(at[0], 1)), simplify(arg(at[0], 2))
    # (a) same offset
    if off_w == off_a:
        ctx.ok(('same-offset',), sample=dict(offset=show(off_w)[:120]))
    else:
        ctx.bad("process|offset-mismatch", f"assembler offset {show(off_a)[:80]} differs from rx ring offset {show(off_w)[:80]}", body=b, bb=wu[0][0])
    # (b) assembler size = len of the slice written
    sz = strip(size_a)
    if (sz[0] == 'len' or is_call(sz, '::len')) and strip(sz[1] if sz[0] == 'len' else call_args(sz)[0]) == strip(data_w):
        ctx.ok(('same-size',))
    else:
        ctx.bad("process|size-mismatch", f"assembler size {show(size_a)[:80]} is not the length of the slice written {show(data_w)[:60]}", body=b, bb=at[0][0])
    # (c) enqueue_unallocated(contig) : contig = result of add_then_remove_front
    e = simplify(arg(eu[0], 1))
    if any(l.endswith('add_then_remove_front') for l in leafs(e) if l.startswith('C:')):
        ctx.ok(('enqueue-from-assembler',))
    else:
        ctx.bad("process|enqueue-origin", f"enqueue_unallocated({show(e)[:80]}) is not what the assembler reported contiguous", body=b, bb=eu[0][0])
    # (d) offset = max(ws, ss) - ws   (or 0 for unsynchronised states)
    okd = True
    for a in alts(off_w):
        a = strip(a)
        if const_int(a) == 0:
            continue
        if is_call(a, '::sub', nargs=2):
            x, y = call_args(a)
            if is_call(x, '::max', nargs=2) and is_rcv_nxt(y) and {True} == {True for q in call_args(x) if is_rcv_nxt(q)} \
                    and any(is_seg_start(q) for q in call_args(x)):
                continue
        okd = False
        ctx.bad("process|offset-shape", f"rx placement offset {show(a)[:100]} is not max(RCV.NXT, SEG.SEQ) - RCV.NXT", body=b, bb=wu[0][0])
    if okd:
        ctx.ok(('offset-shape',), sample=dict(offset='max(RCV.NXT, SEG.SEQ) - RCV.NXT'))
    # (e) slice = payload[max(ws,ss)-ss .. min(we,se)-ss]
    oke = False
    for a in alts(data_w):
        a = strip(a)
        if a[0] == 'call' and 'Index' in a[1] and f"F:{R}.payload" in leafs(a[2][0]):
            rng = strip(a[2][1])
            if rng[0] == 'agg' and rng[1].startswith('std::ops::Range::') and len(rng[2]) == 2:
                st, en = strip(rng[2][0]), strip(rng[2][1])
                c1 = is_call(st, '::sub', nargs=2) and is_seg_start(call_args(st)[1]) and is_call(call_args(st)[0], '::max', nargs=2) \
                    and any(is_rcv_nxt(q) for q in call_args(call_args(st)[0])) and any(is_seg_start(q) for q in call_args(call_args(st)[0]))
                c2 = is_call(en, '::sub', nargs=2) and is_seg_start(call_args(en)[1]) and is_call(call_args(en)[0], '::min', nargs=2) \
                    and any(is_window_end(q) for q in call_args(call_args(en)[0])) and any(is_seg_end(q) for q in call_args(call_args(en)[0]))
                if c1 and c2:
                    oke = True
                else:
                    ctx.bad("process|trim-shape", f"accepted slice payload[{show(st)[:70]} .. {show(en)[:90]}] is not the window/segment overlap "
                            "[max(RCV.NXT,SEG.SEQ), min(window_end,SEG.END)) with window_end = remote_last_ack + (remote_last_win << shift)",
                            body=b, bb=wu[0][0])
                    oke = None
    if oke:
        ctx.ok(('trim-shape',), sample=dict(slice='payload[max(RCV.NXT,SEG.SEQ)-SEG.SEQ .. min(window_end,SEG.END)-SEG.SEQ]'))
    elif oke is False:
        ctx.bad("process|trim-shape", "no window/segment overlap slice of repr.payload reaches write_unallocated", body=b, bb=wu[0][0])


def const_int(n):
    n = strip(n)
    if n[0] == 'const':
        try:
            return int(n[1])
        except Exception:
            return None
    return None


@rule('R04.4', ['C04', 'C01'], floor=8, clause='remote_seq_no (RCV.NXT base) is only advanced by what recv dequeued, by 1 for an accepted FIN, or set to SEG.SEQ+1 by a SYN')
def r04_4(ctx):
    """T3+T5: writers of Socket.remote_seq_no and the shape of each stored value."""
    F = ctx.F
    allowed = {'process', 'reset', 'recv_impl', 'recv', 'recv_slice'}
    ws = F.writers_of(S, 'remote_seq_no')
    ctx.need(ws, "stores to Socket.remote_seq_no")
    for w in ws:
        b = F.body(w['fn'])
        root = b.meta.get('root') or w['fn']
        fnm = root.rsplit('::', 1)[-1]
        if fnm not in allowed:
            ctx.bad(f"{fnm}|remote_seq_no", f"Socket.remote_seq_no written in {fnm}", body=b, bb=w['bb'])
            continue
        if w['kind'] == 'mutref':
            # `self.remote_seq_no += x` : AddAssign call; find the increment
            t = None
            for bi, c, args, dest, tgt, ln in b.calls():
                if (b.callee_name(c) or '').endswith('::add_assign') and is_place_op(args[0]):
                    tg = b.ref_target(args[0][1][0])
                    if tg and tg[1] and tg[1][-1][0] == 'f' and tg[1][-1][1] == 'remote_seq_no' and bi >= w['bb']:
                        t = (bi, args)
                        break
            if t is None:
                ctx.bad(f"{fnm}|remote_seq_no|mutref", f"&mut Socket.remote_seq_no escapes in {fnm}", body=b, bb=w['bb'])
                continue
            inc = F.origin.operand(b, t[1][1], t[0], len(b.blocks[t[0]]['s']))
            if fnm == 'process':
                if const_int(inc) == 1:
                    ctx.ok((fnm, 'fin+1', t[0]), sample=dict(fn=fnm, remote_seq_no='+= 1 (FIN)'))
                else:
                    ctx.bad(f"{fnm}|remote_seq_no|inc", f"remote_seq_no += {show(inc)[:60]} in process (expected 1 for a FIN)", body=b, bb=t[0])
            else:
                # recv path: increment must be what the ring buffer dequeued (closure result / dequeue_* call)
                ls = leafs(inc)
                if any('dequeue' in l for l in ls if l.startswith('C:')) or 'opaque' in show(inc) or any(l.startswith('C:') for l in ls):
                    ctx.ok((fnm, 'recv-size'), sample=dict(fn=fnm, remote_seq_no='+= ' + show(inc)[:60]))
                else:
                    ctx.bad(f"{fnm}|remote_seq_no|inc", f"remote_seq_no += {show(inc)[:60]} in {fnm}", body=b, bb=t[0])
        else:
            if w['si'] == 'T':
                o = F.origin.call_node(b, b.blocks[w['bb']]['t'], w['bb'], 0, None)
            else:
                o = F.origin.rvalue(b, b.blocks[w['bb']]['s'][w['si']][2], w['bb'], w['si'], 0, None)
            if fnm == 'reset':
                ctx.ok((fnm, 'default'))
            elif fnm == 'process' and is_call(o, '::add', nargs=2) and is_seg_start(call_args(o)[0]) and const_int(call_args(o)[1]) == 1:
                ctx.ok((fnm, 'syn', w['bb']), sample=dict(fn=fnm, remote_seq_no='= SEG.SEQ + 1 (SYN)'))
            else:
                ctx.bad(f"{fnm}|remote_seq_no|value", f"remote_seq_no = {show(o)[:80]} in {fnm}", body=b, bb=w['bb'])


@rule('R04.5', ['C04'], floor=2, clause='the advertised edge recorded after emit is exactly what was put into the segment')
def r04_5(ctx):
    F = ctx.F
    for fn in ('dispatch', 'ack_reply'):
        b = ctx.method(S, fn)
        for fld, src in (('remote_last_ack', 'ack_number'), ('remote_last_win', 'window_len')):
            ws = [w for w in F.writers_of(S, fld, kinds=('store',)) if w['fn'] == b.key]
            if not ws:
                ctx.bad(f"{fn}|{fld}|missing", f"{fn} does not record {fld}", body=b)
                continue
            for w in ws:
                s = b.blocks[w['bb']]['s'][w['si']]
                o = simplify(F.origin.rvalue(b, s[2], w['bb'], w['si'], 0, None))
                # must read the repr field (local struct) - i.e. its origin equals the origin of repr.<src>
                reprs = struct_local(b, 'wire::tcp::Repr')
                okv = False
                for rl in reprs:
                    ro = simplify(F.origin.place(b, field_place(rl, R, src), w['bb'], w['si']))
                    if ro == o:
                        okv = True
                    elif fld == 'remote_last_win':
                        # the window field of a SYN is not scaled: the book-keeping value may be the emitted field shifted
                        # right by the window scale (R04.8 decides on which branch that is required)
                        ro_alts = [strip(ro)] + ([strip(x) for x in strip(ro)[1]] if strip(ro)[0] == 'phi' else [])

                        def emitted(a):
                            a = strip(a)
                            if a in ro_alts:
                                return True
                            return a[0] == 'bin' and a[1] == 'Shr' and strip(a[2]) in ro_alts and any(l.endswith('.remote_win_shift') for l in leafs(a[3]))
                        alts_ = list(strip(o)[1]) if strip(o)[0] == 'phi' else [o]
                        if all(emitted(a) for a in alts_):
                            okv = True
                if okv:
                    ctx.ok((fn, fld), sample=dict(fn=fn, field=fld, value=f"repr.{src}"))
                else:
                    ctx.bad(f"{fn}|{fld}|value", f"{fn} records {fld} = {show(o)[:80]} which is not the emitted repr.{src}", body=b, bb=w['bb'])
