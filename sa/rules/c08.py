"""C08 - Internet checksums emitted valid and enforced (structural clauses)."""
from ..framework import rule
from ..core import *
from ..lib import *
from ..wirelib import *

IFI = 'iface::interface::InterfaceInner'
CK = 'phy::Checksum'
# (view type, repr type, caps field, needs pseudo header)
PROTOS = [
    ('wire::ipv4::Packet', 'wire::ipv4::Repr', 'ipv4', False),
    ('wire::udp::Packet', 'wire::udp::Repr', 'udp', True),
    ('wire::tcp::Packet', 'wire::tcp::Repr', 'tcp', True),
    ('wire::icmpv4::Packet', 'wire::icmpv4::Repr', 'icmpv4', False),
    ('wire::icmpv6::Packet', 'wire::icmpv6::Repr', 'icmpv6', True),
]


def mut_methods(F, adt):
    """inherent methods of adt taking &mut self"""
    return {m.key for m in F.methods(adt) if m.meta.get('impl_trait') is None and m.nargs >= 1
            and m.locals[1]['ty'].startswith('&mut')}


def writer_sites(F, b, view, exclude=()):
    """blocks calling something that can write the packet: a &mut-self method of the view, or any call
    that is handed a `&mut <view>` / `&mut [u8]` derived from it"""
    mm = mut_methods(F, view)
    short = view.rsplit('::', 1)[0]
    out = []
    for bi, c, args, dest, tgt, ln in b.calls():
        n = b.callee_name(c) or ''
        if n in exclude:
            continue
        if n in mm:
            out.append((bi, n.rsplit('::', 1)[-1]))
            continue
        for a in args:
            if is_place_op(a) and a[1][1] == []:
                ty = b.locals[a[1][0]]['ty']
                if ty.startswith('&mut ' + view) or (ty.startswith('&mut [u8]') and _derived_from_view(F, b, a, bi, view)):
                    out.append((bi, n.rsplit('::', 1)[-1] + '(&mut packet)'))
                    break
    return out


def _derived_from_view(F, b, a, bi, view):
    o = F.origin.operand(b, a, bi, len(b.blocks[bi]['s']))
    mm = mut_methods(F, view)
    return any(l.startswith('C:') and l[2:] in mm for l in leafs(o))


def tx_pred(F, field, truth):
    txm = F.method(CK, 'tx')
    return p_call(lambda n: txm is not None and n == txm.key, truth, [f"F:phy::ChecksumCapabilities.{field}"])


EMITTERS = [
    # (adt, method, view, caps field)
    ('wire::ipv4::Repr', 'emit', 'wire::ipv4::Packet', 'ipv4'),
    ('wire::udp::Repr', 'emit', 'wire::udp::Packet', 'udp'),
    ('wire::tcp::Repr', 'emit', 'wire::tcp::Packet', 'tcp'),
    ('wire::icmpv4::Repr', 'emit', 'wire::icmpv4::Packet', 'icmpv4'),
    ('wire::icmpv6::Repr', 'emit', 'wire::icmpv6::Packet', 'icmpv6'),
]


@rule('R08.1', ['C08', 'C10'], floor=20, clause='every emitter computes the checksum last: fill_checksum behind caps.tx() (or zeroes it behind !tx()), and nothing writes the packet afterwards; header mutations after emit are followed by a re-fill')
def r08_1(ctx):
    """T2: in Repr::emit of IPv4/UDP/TCP/ICMPv4/ICMPv6 every path to return passes fill_checksum (behind
    the true edge of caps.<proto>.tx()) or set_checksum (behind its false edge); after a fill_checksum
    call no call that can write the packet is reachable.  In every other body that calls header setters
    of such a view (fragment emitters), each setter is followed on all paths by fill_checksum or by the
    !tx() edge."""
    F = ctx.F
    for adt, meth, view, fld in EMITTERS:
        b = ctx.method(adt, meth)
        fc = F.method(view, 'fill_checksum')
        sc = F.method(view, 'set_checksum')
        ctx.need(fc is not None and sc is not None, f"{view}::fill_checksum / set_checksum")
        fcs = [x[0] for x in b.calls() if b.callee_name(x[1]) == fc.key]
        scs = [x[0] for x in b.calls() if b.callee_name(x[1]) == sc.key]
        short = adt.split('::')[1]
        if not fcs:
            ctx.bad(f"{adt}::{meth}|no-fill", f"{short}::Repr::{meth} never calls fill_checksum", body=b)
            continue
        # (1) every path to return passes fill_checksum or set_checksum
        seen = b.reachable(cut_blocks=set(fcs) | set(scs))
        rets = [r for r in b.return_blocks() if r in seen]
        if rets:
            ctx.bad(f"{adt}::{meth}|path-without-checksum", f"{short}::Repr::{meth} can return without writing the checksum field "
                    "(neither fill_checksum nor set_checksum on that path: stale buffer content stays in the field)",
                    body=b, bb=rets[0], path=b.path_to(seen, rets[0]))
        else:
            ctx.ok((adt, meth, 'always-written'), sample=dict(emitter=f"{short}::Repr::{meth}", checksum='written on every path'))
        # (2) fill behind tx() true; set_checksum sites behind tx() false
        for s in fcs:
            bad = unguarded(F, b, [s], tx_pred(F, fld, True))
            if bad:
                ctx.bad(f"{adt}::{meth}|fill-not-behind-tx", f"{short}: fill_checksum not behind caps.{fld}.tx()", body=b, bb=s, path=bad[0][1])
            else:
                ctx.ok((adt, meth, 'fill-behind-tx'))
        # (3) nothing writes the packet after fill_checksum
        ws = writer_sites(F, b, view, exclude={fc.key})
        for s in fcs:
            after = b.reachable(start=b.blocks[s]['t'][4]) if b.blocks[s]['t'][4] is not None else {}
            late = [(w, nm) for (w, nm) in ws if w in after and w != s]
            if late:
                ctx.bad(f"{adt}::{meth}|write-after-fill|{late[0][1]}", f"{short}::Repr::{meth} calls {late[0][1]} after fill_checksum "
                        "(the emitted checksum no longer covers the final bytes)", body=b, bb=late[0][0])
            else:
                ctx.ok((adt, meth, 'fill-last'), sample=dict(emitter=f"{short}::Repr::{meth}", writers_before_fill=len(ws), after_fill=0))
    # (4) other bodies mutating checksummed headers
    for view, fld in (('wire::ipv4::Packet', 'ipv4'), ('wire::udp::Packet', 'udp'), ('wire::tcp::Packet', 'tcp'),
                      ('wire::icmpv4::Packet', 'icmpv4'), ('wire::icmpv6::Packet', 'icmpv6')):
        fc = F.method(view, 'fill_checksum')
        sc = F.method(view, 'set_checksum')
        setters = {k for k in mut_methods(F, view) if k.rsplit('::', 1)[-1].startswith('set_') and k != sc.key}
        for k, b in sorted(F.bodies.items()):
            if (b.file or '').startswith('src/wire/') or (b.meta.get('impl_self') or '') == view:
                continue
            sites = [(x[0], b.callee_name(x[1])) for x in b.calls() if b.callee_name(x[1]) in setters]
            if not sites:
                continue
            fnm = k.split('>::')[-1] if '>::' in k else k.rsplit('::', 2)[-2] + '::' + k.rsplit('::', 1)[-1]
            notx = set(guard_edges(F, b, tx_pred(F, fld, False)))
            for s, nm in sites:
                blockers = {x[0] for x in b.calls() if b.callee_name(x[1]) == fc.key}
                tgt = b.blocks[s]['t'][4]
                seen = b.reachable(cut_blocks=blockers, cut_edges=notx, start=tgt) if tgt is not None else {}
                rets = [r for r in b.return_blocks() if r in seen]
                if rets:
                    ctx.bad(f"{fnm}|{nm.rsplit('::',1)[-1]}|no-refill", f"{fnm} changes a checksummed header field ({nm.rsplit('::',1)[-1]}) and can "
                            f"return without re-running fill_checksum (stale {fld} checksum on the wire)", body=b, bb=s,
                            path=[s] + b.path_to(seen, rets[0]))
                else:
                    ctx.ok((fnm, nm.rsplit('::', 1)[-1], 'refill'), sample=dict(fn=fnm, setter=nm.rsplit('::', 1)[-1], then='fill_checksum | !tx()'))


@rule('R08.1c', ['C08'], floor=10, clause='fill_checksum zeroes the field first, sums the packet (with the pseudo-header of its own addresses and length for UDP/TCP/ICMPv6) and stores the complement')
def r08_1c(ctx):
    F = ctx.F
    for view, repr_, fld, pseudo in PROTOS:
        b = ctx.method(view, 'fill_checksum')
        sc = F.method(view, 'set_checksum')
        scs = [x for x in b.calls() if b.callee_name(x[1]) == sc.key]
        short = view.split('::')[1]
        if len(scs) < 2:
            ctx.bad(f"{view}|fill|two-stores", f"{short}::fill_checksum must store 0 first and the sum last", body=b)
            continue
        # first store: constant 0 and precedes every checksum::data call
        zero = [x for x in scs if x[2][1][0] == 'k' and x[2][1][2] == 0]
        datas = [x[0] for x in b.calls() if (b.callee_name(x[1]) or '').endswith('checksum::data')]
        if not zero or not datas:
            ctx.bad(f"{view}|fill|zero-first", f"{short}::fill_checksum does not zero the field / sum the data", body=b)
            continue
        seen = b.reachable(cut_blocks={zero[0][0]}) if zero[0][0] != 0 else {}
        if any(d in seen for d in datas):
            ctx.bad(f"{view}|fill|zero-first", f"{short}::fill_checksum sums the packet before zeroing the checksum field", body=b, bb=datas[0])
        else:
            ctx.ok((view, 'zero-first'))
        last = [x for x in scs if x not in zero]
        o = F.origin.operand(b, last[-1][2][1], last[-1][0], len(b.blocks[last[-1][0]]['s'])) if last else ('opaque', '')
        n = strip(o)
        ls = leafs(o)
        alts = list(n[1]) if n[0] == 'phi' else [n]
        good = all((strip(a)[0] == 'un' and strip(a)[1] == 'Not' and any(l.endswith('checksum::data') for l in leafs(a) if l.startswith('C:')))
                   or const_of(a) == 0xffff for a in alts) and any(strip(a)[0] == 'un' for a in alts)
        if good:
            ctx.ok((view, 'complement'), sample=dict(view=short, stored=show(o)[:120]))
        else:
            ctx.bad(f"{view}|fill|complement", f"{short}::fill_checksum stores {show(o)[:80]} (expected !sum)", body=b)
        if pseudo:
            ph = [l for l in ls if l.startswith('C:') and 'pseudo_header' in l]
            if ph and {'A:2', 'A:3'} <= ls:
                ctx.ok((view, 'pseudo'), sample=dict(view=short, pseudo_header=ph[0][2:], addresses='own parameters'))
            else:
                ctx.bad(f"{view}|fill|pseudo-header", f"{short}::fill_checksum does not include the pseudo-header of its address arguments", body=b)


@rule('R08.2', ['C08'], floor=5, clause='every accepting path of the five parsers passes the checksum verification or the rx-offloaded edge; only UDP over IPv4 may skip it for a zero checksum')
def r08_2(ctx):
    """T1 + callee summary: in Repr::parse of IPv4/UDP/TCP/ICMPv4/ICMPv6 the Ok return is unreachable once
    the edges {caps.<proto>.rx() == false, verify_checksum() == true} are removed (UDP additionally:
    the IPv4 zero-checksum arm).  verify_checksum itself: every `true` return passes checksum::data."""
    F = ctx.F
    rxm = F.method(CK, 'rx')
    for view, repr_, fld, pseudo in PROTOS:
        b = ctx.method(repr_, 'parse')
        vc = ctx.method(view, 'verify_checksum')
        short = view.split('::')[1]
        p_rx = p_call(lambda n: n == rxm.key, False, [f"F:phy::ChecksumCapabilities.{fld}"])
        p_vc = p_call(lambda n, k=vc.key: n == k, True)
        preds = [p_rx, p_vc]
        if fld == 'udp':
            # the RFC 768 exception: both addresses IPv4 and checksum()==0
            cks = F.method(view, 'checksum')
            preds.append(p_rel('eq', [f"C:{cks.key}"], ['K:0']))
        sites = ok_sites(b)
        ctx.need(sites, f"{repr_}::parse Ok return")
        bad = unguarded(F, b, sites, p_any(*preds))
        if bad:
            ctx.bad(f"{repr_}::parse|unverified", f"{short}::Repr::parse can accept a packet without verifying its checksum "
                    f"(caps.{fld}.rx() true and no verify_checksum on that path)", body=b, bb=bad[0][0], path=bad[0][1])
        else:
            ctx.ok((repr_, 'parse'), sample=dict(parser=f"{short}::Repr::parse", accepts_only_via='!rx() | verify_checksum()'))
        if fld == 'udp':
            # the zero-checksum arm must additionally be behind both addresses being Ipv4
            g0 = pass_edges(F, b, preds[2])
            if 'Ipv6' not in F.variants('wire::ip::Address'):
                g0 = []      # IPv4-only build: there is no other family the exception could extend to
                ctx.note(f"cfg {ctx.cfg}: single address family, zero-checksum family restriction is vacuous")
            for e in g0:
                pv4 = p_is('wire::ip::Address', ['Ipv4'], positive=True)
                if unguarded(F, b, [e[1]], pv4):
                    ctx.bad("udp::Repr::parse|zero-any-family", "UDP zero-checksum exception is not restricted to IPv4 addresses", body=b, bb=e[0])
                else:
                    ctx.ok((repr_, 'zero-only-ipv4'))
        # verify_checksum: true only through a real sum (constant-false cfg!(fuzzing) folded by rustc)
        datas = {x[0] for x in vc.calls() if (vc.callee_name(x[1]) or '').endswith('checksum::data')}
        true_ret = []
        for bi, bl in enumerate(vc.blocks):
            if bl['cl']:
                continue
            for s in bl['s']:
                if s[0] == 'a' and s[1] == [0, []] and s[2][0] == 'use' and s[2][1][0] == 'k' and s[2][1][2] is True:
                    true_ret.append(bi)
        seen = vc.reachable()
        feas_true = [t for t in true_ret if t in seen and not _behind_const_false(F, vc, t)]
        if feas_true:
            what = _why_true(F, vc, feas_true[0])
            ctx.bad(f"{view}::verify_checksum|shortcut|{'checksum==0' if 'checksum(' in what and 'Eq 0' in what else what}", f"{short}::verify_checksum returns true without summing the packet when {what}",
                    body=vc, bb=feas_true[0])
        else:
            ctx.ok((view, 'verify-sums'), sample=dict(view=short, verify_checksum='true only as the result of checksum::data/combine'))


def _behind_const_false(F, b, site):
    """site only reachable through an edge of a switch on a constant that takes the other branch
    (cfg!(fuzzing) lowers to `const false`)"""
    cut = set()
    for bi, bl in enumerate(b.blocks):
        t = bl['t']
        if bl['cl'] or t[0] != 'switch':
            continue
        if t[1][0] == 'k':
            v = t[1][2]
        elif t[1][1][1] == []:
            # a temporary assigned a literal in the same block
            v = None
            for s in bl['s']:
                if s[0] == 'a' and s[1] == [t[1][1][0], []] and s[2][0] == 'use' and s[2][1][0] == 'k':
                    v = s[2][1][2]
            if v is None:
                continue
        else:
            continue
        val = int(v) if isinstance(v, (bool, int)) else None
        if val is None:
            continue
        for tb, lab in b.succ_edges(bi):
            taken = (lab[1] == val) or (lab[1] == 'else' and val not in [x[0] for x in t[2]])
            if not taken:
                cut.add((bi, tb, lab))
    seen = b.reachable(cut_edges=cut)
    return site not in seen


def _why_true(F, b, site):
    labs = []
    for bi, bl in enumerate(b.blocks):
        if bl['cl'] or bl['t'][0] != 'switch':
            continue
        for tb, lab, f in cond_facts(F, b, bi):
            if f[0] == 'rel' and not cut_sites(b, [site], [(bi, tb, lab)]):
                labs.append(f"{show(f[2])[:30]} {f[1]} {show(f[3])[:20]}")
    return '; '.join(labs) or 'some condition'


@rule('R08.3', ['C08', 'C01'], floor=8, clause='every checksum-verifying parser reached from interface ingress is given the device\'s real checksum capabilities')
def r08_3(ctx):
    """T5: the ChecksumCapabilities argument of every `*Repr::parse` call in src/iface originates from
    InterfaceInner.caps.checksum (never ChecksumCapabilities::ignored()/default())."""
    F = ctx.F
    n = 0
    for k, b in sorted(F.bodies.items()):
        if not (b.file or '').startswith('src/iface/') or '/tests/' in (b.file or ''):
            continue
        for bi, c, args, dest, tgt, ln in b.calls():
            nm = b.callee_name(c) or ''
            cb = F.bodies.get(nm)
            if cb is None or not nm.endswith('::parse') or not (cb.file or '').startswith('src/wire/'):
                continue
            idx = [i for i in range(1, cb.nargs + 1) if 'ChecksumCapabilities' in cb.locals[i]['ty']]
            if not idx:
                continue
            a = args[idx[0] - 1]
            o = F.origin.operand(b, a, bi, len(b.blocks[bi]['s']))
            ls = leafs(o)
            fnm = k.split('>::')[-1] if '>::' in k else k.rsplit('::', 1)[-1]
            callee = nm.split('wire::')[-1]
            n += 1
            if 'F:phy::DeviceCapabilities.checksum' in ls and not any('ChecksumCapabilities::ignored' in l or 'Default' in l for l in ls):
                ctx.ok((fnm, callee), sample=dict(fn=fnm, parser=callee, caps='self.caps.checksum'))
            else:
                ctx.bad(f"{fnm}|{callee}|caps", f"{fnm} calls {callee} with checksum capabilities {show(o)[:60]} instead of the device's "
                        "(received checksum is not enforced on this path)", body=b, bb=bi)
    ctx.need(n >= 6, "parse calls with checksum caps in iface")
