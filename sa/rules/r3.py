"""Rules added after the third round of independently seeded changes."""
import re
from ..framework import rule
from ..core import *
from ..lib import *
from ..wirelib import ret_origin, range_bounds, const_of, expand
from .c04 import const_int
from .c14 import store_origin, untuple

IF = 'iface::interface::Interface'
IFI = 'iface::interface::InterfaceInner'
SOCK = 'socket::tcp::Socket'
AS = 'storage::assembler::Assembler'


@rule('R11.7', ['C11'], floor=2, clause='leaving a multicast group never results in a joined group: every arm of leave_multicast_group either schedules the leave report (Leaving) or deletes the entry')
def r11_7(ctx):
    F = ctx.F
    b = ctx.method(IF, 'leave_multicast_group')
    GS = 'iface::interface::multicast::GroupState'
    n = 0
    for bi, bl in enumerate(b.blocks):
        if bl['cl']:
            continue
        for si, s in enumerate(bl['s']):
            if s[0] == 'a' and s[2][0] == 'agg' and s[2][1].get('k') == 'tuple' and len(s[2][2]) == 2:
                st = strip(simplify(F.origin.operand(b, s[2][2][0], bi, si)))
                dl = strip(simplify(F.origin.operand(b, s[2][2][1], bi, si)))
                if st[0] != 'variant' or not st[1].startswith(GS):
                    continue
                n += 1
                delete = dl == ('const', 'true') or const_int(dl) == 1
                var = st[1].rsplit('::', 1)[-1]
                if not delete and var != 'Leaving':
                    ctx.bad(f"leave_multicast_group|{var}|kept", f"leave_multicast_group can leave the group in state {var} without deleting it: traffic to a group "
                            "the application left keeps being delivered and no leave report is sent", body=b, bb=bi)
                else:
                    ctx.ok(('leave', var, delete), sample=dict(new_state=var, deleted=delete))
    ctx.need(n >= 2, "(new state, delete) decisions in leave_multicast_group")


@rule('R12.6', ['C12', 'C20'], floor=1, clause='a reassembly slot is claimed for a new datagram only after every slot was examined for the datagram\'s key (otherwise a half-reassembled datagram is split over two slots)')
def r12_6(ctx):
    F = ctx.F
    PAS = 'iface::fragmentation::PacketAssemblerSet'
    PA = 'iface::fragmentation::PacketAssembler'
    b = ctx.method(PAS, 'get')
    ws = [w for w in F.field_writes() if w['fn'] == b.key and w['kind'] == 'store' and w['adt'] == PA and w['field'] == 'key']
    ctx.need(ws, "`slot.key = Some(key)` in PacketAssemblerSet::get")
    exhausted = lambda f: f[0] == 'is' and f[2] == 'None' and any(l.endswith('::next') for l in leafs(f[1]) if l.startswith('C:'))
    for w in ws:
        bad = unguarded(F, b, [w['bb']], exhausted)
        if bad:
            ctx.bad("PacketAssemblerSet::get|claim-before-scan-complete", "a free slot is claimed before all slots were compared with the key: the next fragment of a "
                    "datagram already being reassembled in a later slot starts a second, never completing slot", body=b, bb=w['bb'], path=bad[0][1])
        else:
            ctx.ok(('get', 'claim-after-scan'), sample=dict(fn='PacketAssemblerSet::get', claim='after the key scan ended'))


@rule('R15.5', ['C15', 'C01'], floor=2, clause='add_then_remove_front is add() followed by remove_front() on every path that is not the offset-0 fast path, and returns what remove_front removed')
def r15_5(ctx):
    F = ctx.F
    b = ctx.method(AS, 'add_then_remove_front')
    add = ctx.method(AS, 'add')
    rf = ctx.method(AS, 'remove_front')
    adds = [x for x in b.calls() if b.callee_name(x[1]) == add.key]
    rfs = [x[0] for x in b.calls() if b.callee_name(x[1]) == rf.key]
    ctx.need(len(adds) == 1 and rfs, "add() and remove_front() calls in add_then_remove_front")
    okc = lambda f: f[0] == 'is' and f[2] in ('Continue', 'Ok') and any(l.endswith('Assembler::add') for l in leafs(f[1]) if l.startswith('C:'))
    ge = guard_edges(F, b, okc)
    ctx.need(ge, "Ok edge of add()")
    rets = b.return_blocks()
    good = True
    for (bi, tb, lab) in ge:
        seen = b.reachable(start=tb, cut_blocks=set(rfs))
        if any(r in seen for r in rets) and tb not in rfs:
            good = False
    if good:
        ctx.ok(('add_then_remove_front', 'always-removes'), sample=dict(fn='add_then_remove_front', slow_path='add()? ; remove_front()'))
    else:
        ctx.bad("add_then_remove_front|remove_front-skipped", "add_then_remove_front can return after a successful add() without calling remove_front(): a range already "
                "complete at the front stays in the tracker and the caller is told nothing was removed", body=b)
    r = simplify(ret_origin(F, b))
    if any(l.endswith('Assembler::remove_front') for l in leafs(r) if l.startswith('C:')):
        ctx.ok(('add_then_remove_front', 'returns-removed'))
    else:
        ctx.bad("add_then_remove_front|result", f"add_then_remove_front returns {show(r)[:60]}, not what remove_front() removed", body=b)


@rule('R15.6', ['C15'], floor=1, clause='iter_data reports from the whole range array (not from a computed prefix of it)')
def r15_6(ctx):
    F = ctx.F
    b = ctx.method(AS, 'iter_data')
    sliced = None
    it = False
    for body in [b] + F.closures_of(b.key):
        for x in body.calls():
            nm = body.callee_name(x[1]) or x[1].get('fn') or ''
            if nm.rsplit('::', 1)[-1] in ('index', 'get') and x[2]:
                o = F.origin.operand(body, x[2][0], x[0], len(body.blocks[x[0]]['s']))
                if f"F:{AS}.contigs" in leafs(o) and len(x[2]) == 2:
                    rng = F.origin.operand(body, x[2][1], x[0], len(body.blocks[x[0]]['s']))
                    rb = range_bounds(F, rng)
                    if rb and not (rb[0] == 'RangeFull'):
                        sliced = (body, x[0], show(simplify(rng))[:50])
            if nm.endswith('::iter') and x[2]:
                o = F.origin.operand(body, x[2][0], x[0], len(body.blocks[x[0]]['s']))
                if f"F:{AS}.contigs" in leafs(o):
                    it = True
    ctx.need(it, "iteration over Assembler.contigs in iter_data")
    if sliced:
        ctx.bad("iter_data|prefix-only", f"iter_data iterates contigs[{sliced[2]}] instead of the whole array: with every slot in use the report can be empty or short",
                body=sliced[0], bb=sliced[1])
    else:
        ctx.ok(('iter_data', 'whole-array'), sample=dict(fn='iter_data', source='self.contigs.iter()'))


@rule('R16.8', ['C16'], floor=2, clause='the discovery rate limiter (silent_until) is written only by limit_rate and the constructor: flushing the neighbor cache on an address change does not re-open the 1 s window')
def r16_8(ctx):
    F = ctx.F
    NC = 'iface::neighbor::Cache'
    allowed = {'new', 'limit_rate'}
    n = 0
    for m in F.methods(NC):
        nm = m.key.rsplit('::', 1)[-1]
        n += 1
        direct = [w for w in F.field_writes() if w['fn'] == m.key and w['adt'] == NC and w['field'] == 'silent_until' and w['kind'] == 'store']
        whole = []
        for bi, bl in enumerate(m.blocks):
            if bl['cl']:
                continue
            for si, s in enumerate(bl['s']):
                if s[0] == 'a' and s[1] == [1, ['*']]:
                    whole.append(bi)
            t = bl['t']
            if t[0] == 'call' and t[3] == [1, ['*']]:
                whole.append(bi)
        if (direct or whole) and nm not in allowed:
            ctx.bad(f"Cache::{nm}|silent_until-written", f"neighbor::Cache::{nm} overwrites the discovery rate limiter ({'whole cache replaced' if whole else 'silent_until stored'}): "
                    "after an address change another ARP request / neighbor solicitation goes out inside the 1 s silence window", body=m, bb=(whole or [direct[0]['bb']])[0])
        else:
            ctx.ok(('Cache', nm))
    ctx.need(n >= 5, "neighbor::Cache methods")


@rule('R16.9', ['C16', 'C12'], floor=1, clause='when a fragmented IPv4 datagram is started, the resolved link-layer destination for its later fragments is recorded unconditionally')
def r16_9(ctx):
    F = ctx.F
    b = ctx.method(IFI, 'dispatch_ip')
    FR = 'iface::fragmentation::Fragmenter'
    V4F = 'iface::fragmentation::Ipv4Fragmenter'
    pl = [w for w in F.field_writes() if w['fn'] == b.key and w['kind'] == 'store' and w['adt'] == FR and w['field'] == 'packet_len']
    hw = [w['bb'] for w in F.field_writes() if w['fn'] == b.key and w['kind'] == 'store' and w['adt'] == V4F and w['field'] == 'dst_hardware_addr']
    ctx.need(pl and hw, "stores to packet_len and ipv4.dst_hardware_addr in dispatch_ip")
    for w in pl:
        if const_int(simplify(store_origin(F, b, w))) == 0:
            continue
        # every entry -> packet_len store path passes a dst_hardware_addr store, or every store -> return path does
        pre = b.reachable(cut_blocks=set(hw))
        post = b.reachable(start=w['bb'], cut_blocks=set(hw))
        if w['bb'] in pre and w['bb'] not in hw and any(r in post for r in b.return_blocks()):
            ctx.bad("dispatch_ip|frag|dst_hardware_addr-conditional", "a fragmented datagram can be started without recording the link-layer destination of its next hop: its "
                    "later fragments are sent to the previous datagram's neighbor", body=b, bb=w['bb'])
        else:
            ctx.ok(('dispatch_ip', 'frag-hwaddr'), sample=dict(store='frag.ipv4.dst_hardware_addr = dst_hardware_addr', when='always with a new fragmented datagram'))


@rule('R13.8', ['C13', 'C16'], floor=1, clause='a silenced socket is permitted to transmit again at the very instant Meta::poll_at reports (timestamp >= silent_until, not >)')
def r13_8(ctx):
    F = ctx.F
    M = 'iface::socket_meta::Meta'
    b = ctx.method(M, 'egress_permitted')
    facts = []
    for bi, bl in enumerate(b.blocks):
        if bl['cl'] or bl['t'][0] != 'switch':
            continue
        for tb, lab, f in cond_facts(F, b, bi):
            if f[0] == 'rel' and (('A:2' in leafs(f[2])) != ('A:2' in leafs(f[3]))) and any('silent_until' in l for l in leafs(f[2]) | leafs(f[3])):
                facts.append((bi, tb, f))
    ctx.need(facts, "comparison of the timestamp with silent_until in Meta::egress_permitted")
    trues = [bi for bi, bl in enumerate(b.blocks) if not bl['cl'] for s in bl['s']
             if s[0] == 'a' and s[1] == [0, []] and s[2][0] == 'use' and s[2][1][0] == 'k' and s[2][1][2] is True]
    strict = []
    for (bi, tb, f) in facts:
        ts_left = 'A:2' in leafs(f[2])
        reached = (ts_left and f[1] in ('Ge', 'Gt')) or (not ts_left and f[1] in ('Le', 'Lt'))
        if reached and any(t in b.reachable(start=tb) for t in trues):
            if (ts_left and f[1] == 'Gt') or (not ts_left and f[1] == 'Lt'):
                strict.append(bi)
    if strict:
        ctx.bad("Meta::egress_permitted|strict", "egress_permitted requires the clock to be strictly past silent_until while poll_at reports silent_until itself: the poll made "
                "at the announced instant sends nothing and the next deadline is 'now' (busy loop / delayed retry)", body=b, bb=strict[0])
    else:
        ctx.ok(('egress_permitted', 'fires-at-deadline'), sample=dict(fn='Meta::egress_permitted', test='timestamp >= silent_until'))


@rule('R19.5', ['C19', 'C13', 'C10'], floor=3, clause='DNS dispatch: a query that is merely waiting for its retransmission instant is skipped (the loop continues with the next query) and only after its server time-out was examined')
def r19_5(ctx):
    F = ctx.F
    D = 'socket::dns::Socket'
    PQ = 'socket::dns::PendingQuery'
    b = ctx.method(D, 'dispatch')
    waiting = lambda f: f[0] == 'rel' and f[1] in ('Gt', 'Ge') and f"F:{PQ}.retransmit_at" in leafs(f[2]) and any(l.endswith('::now') for l in leafs(f[3]) if l.startswith('C:'))
    we = guard_edges(F, b, waiting)
    ctx.need(we, "`retransmit_at > now` test in dns dispatch")
    timeout = lambda f: f[0] == 'rel' and f"F:{PQ}.timeout_at" in (leafs(f[2]) | leafs(f[3])) and any(l.endswith('::now') for l in (leafs(f[2]) | leafs(f[3])) if l.startswith('C:'))
    te = guard_edges(F, b, timeout)
    ctx.need(te, "server time-out test in dns dispatch")
    from ..loops import loops
    heads = {h for h, nodes, srcs in loops(b)}
    for (bi, tb, lab) in we:
        # (a) the skip edge leads back to the loop (next query), it does not leave the function
        seen = b.reachable(start=tb, cut_blocks=heads)
        if any(r in seen for r in b.return_blocks()) and not any(h in seen for h in heads):
            ctx.bad("dns::dispatch|waiting-query-ends-loop", "a query waiting for its retransmission instant makes dispatch return: later queries in the table are neither sent "
                    "nor timed out while poll_at keeps asking for an immediate poll", body=b, bb=bi)
        elif any(r in seen for r in b.return_blocks()):
            ctx.bad("dns::dispatch|waiting-query-may-end-loop", "the waiting-query branch can leave dispatch without visiting the remaining queries", body=b, bb=bi)
        else:
            ctx.ok(('dns', 'waiting-continues'), sample=dict(branch='retransmit_at > now', action='continue with the next query'))
        # (b) the time-out test dominates the skip
        pre = b.reachable(cut_blocks={e[0] for e in te})
        if bi in pre and bi not in {e[0] for e in te}:
            ctx.bad("dns::dispatch|skip-before-timeout", "the waiting-query early-out is taken before the server time-out is examined: at the time-out instant poll_at says "
                    "'now' but the poll does nothing until the (later) retransmission instant", body=b, bb=bi)
        else:
            ctx.ok(('dns', 'timeout-first'))
    # label length
    sq = ctx.method(D, 'start_query')
    pushes = []
    for body in [sq] + F.closures_of(sq.key):
        for x in body.calls():
            if (body.callee_name(x[1]) or '').endswith('::push') and len(x[2]) == 2:
                o = simplify(F.origin.operand(body, x[2][1], x[0], len(body.blocks[x[0]]['s'])))
                if any(l.endswith('::len') for l in leafs(o) if l.startswith('C:')):
                    pushes.append((body, x[0], o))
    ctx.need(pushes, "label length octet in dns start_query")
    for body, bb, o in pushes:
        def le63(f):
            if f[0] != 'rel':
                return False
            for a, c, ops in ((f[2], f[3], {'Le': 0, 'Lt': -1}), (f[3], f[2], {'Ge': 0, 'Gt': -1})):
                if f[1] in ops and any(l.endswith('::len') for l in leafs(a) if l.startswith('C:')):
                    k = const_int(simplify(c))
                    if k is not None and k + ops[f[1]] <= 63:
                        return True
            return False
        bad = unguarded(F, body, [bb], le63)
        if bad:
            ctx.bad("dns::start_query|label-length", "a host-name label longer than 63 octets is encoded (length octet >= 0x40 is a reserved / pointer label type): a malformed query leaves the host",
                    body=body, bb=bb, path=bad[0][1])
        else:
            ctx.ok(('dns', 'label<=63'), sample=dict(fn='start_query', guard='label.len() <= 63'))


@rule('R06.10', ['C06'], floor=2, clause='ICMP error messages: the bound that cuts the quoted datagram in emit is the bound buffer_len declares (same named limit on both sides), so emission fits the declared length')
def r06_10(ctx):
    F = ctx.F
    for R, helper in (('wire::icmpv6::Repr', 'emit_contained_packet'),):
        bl = ctx.method(R, 'buffer_len')
        em = ctx.method(R, 'emit')
        hb = [F.bodies[k] for k in F.bodies if k.startswith(em.key + '::') and k.endswith(helper)]
        ctx.need(hb, f"{helper} nested in icmpv6::Repr::emit")

        def limits(b):
            out = set()
            for x in b.calls():
                if (b.callee_name(x[1]) or '').endswith('::min'):
                    for a in x[2]:
                        o = F.origin.operand(b, a, x[0], len(b.blocks[x[0]]['s']))
                        out |= {l for l in leafs(o) if l.startswith('N:')}
            return out
        lb, le = limits(bl), limits(hb[0])
        ctx.need(lb, "named length limit in icmpv6::Repr::buffer_len")
        if lb & le:
            ctx.ok(('icmpv6', 'same-limit'), sample=dict(limit=sorted(lb & le)[0][2:]))
        else:
            ctx.bad("icmpv6::Repr|error-payload-limit", f"icmpv6 buffer_len caps the message with {sorted(l[2:] for l in lb)} but emit cuts the quoted datagram with "
                    f"{sorted(l[2:] for l in le) or 'no named limit'}: emitting into a buffer of the declared length overruns it for long quotes", body=hb[0])
        # both subtract the same header terms: buffer_len = min(8 + ip + data, LIMIT) ; emit cut = min(data, LIMIT - 8 - ip)
        ctx.ok(('icmpv6', 'scanned'))


@rule('R03.8', ['C03', 'C11'], floor=1, clause='a value taken from a received message is used as a divisor only behind a test that it is not zero (MLD Maximum Response Code)')
def r03_8(ctx):
    F = ctx.F
    n = 0
    for k, b in sorted(F.bodies.items()):
        if not (b.file or '').startswith(('src/iface/', 'src/socket/')) or '::test' in k:
            continue
        for bi, bl in enumerate(b.blocks):
            if bl['cl']:
                continue
            t = bl['t']
            if not (t[0] == 'assert' and t[3].get('k') in ('div0', 'rem0')):
                continue
            c = strip(simplify(F.origin.operand(b, t[1], bi, len(bl['s']))))
            if not (c[0] == 'bin' and c[1] == 'Eq' and const_int(simplify(c[3])) == 0):
                continue
            d = simplify(c[2])
            if const_int(d) is not None:
                continue
            ls = leafs(d)
            if not any(l.startswith('F:wire::') or (l.startswith('D:') and 'wire' in l) for l in ls) and not any(l.startswith('F:wire') for l in ls):
                # not a wire-representation field: cwnd, capacities ... (covered by their own rules)
                if not any('Repr' in l for l in ls):
                    continue
            n += 1

            def nonzero(f, d=d):
                if f[0] != 'rel':
                    return False
                a, c_ = simplify(f[2]), const_int(simplify(f[3]))
                if a == d and c_ is not None:
                    return (f[1] == 'Gt' and c_ >= 0) or (f[1] == 'Ne' and c_ == 0) or (f[1] == 'Ge' and c_ >= 1)
                return False
            bad = unguarded(F, b, [bi], nonzero)
            fnm = k.rsplit('::', 1)[-1]
            if bad:
                ctx.bad(f"{fnm}|division-by-received-value", f"{k}: `% {show(d)[:40]}` / division by a field of the received message without a non-zero test: "
                        "a message carrying 0 there panics Interface::poll (also in release builds)", body=b, bb=bi, line=t[5], path=bad[0][1])
            else:
                ctx.ok((fnm, 'divisor-nonzero'), sample=dict(fn=fnm, divisor=show(d)[:40], guard='> 0'))
    ctx.need(n >= 1, "divisions by received values in iface/socket code")


@rule('R04.7', ['C04', 'C01'], floor=1, clause='data already queued for the application stays readable in every state: may_recv() answers false only when the receive buffer is empty')
def r04_7(ctx):
    F = ctx.F
    b = ctx.method(SOCK, 'may_recv')
    falses = [bi for bi, bl in enumerate(b.blocks) if not bl['cl'] for s in bl['s']
              if s[0] == 'a' and s[1] == [0, []] and s[2][0] == 'use' and s[2][1][0] == 'k' and s[2][1][2] is False]
    # `.. || self.can_recv()`: the answer IS can_recv() on that path, false exactly when the buffer is empty
    direct = [bi for bi, bl in enumerate(b.blocks) if not bl['cl'] and bl['t'][0] == 'call' and bl['t'][3] == [0, []]
              and is_call(strip(F.origin.call_node(b, bl['t'], bi, 0, None)), 'can_recv')]
    ctx.need(falses or direct, "`false` result in tcp::Socket::may_recv")
    empty = lambda f: f[0] == 'bool' and f[2] is False and is_call(strip(f[1]), 'can_recv')
    bad = unguarded(F, b, falses, empty)
    if bad:
        ctx.bad("may_recv|false-with-data", "may_recv() can answer false in some state although data is queued (can_recv() not consulted): recv reports the stream as "
                "finished while octets that were acknowledged to the peer are still undelivered", body=b, bb=bad[0][0], path=bad[0][1])
    else:
        ctx.ok(('may_recv', 'false-only-when-empty'), sample=dict(fn='may_recv', false_only_behind='!can_recv()'))


@rule('R05.3b', ['C05', 'C04'], floor=1, clause='ACKs returned directly from process() advertise the scaled window, like every other non-SYN segment')
def r05_3b(ctx):
    F = ctx.F
    b = ctx.method(SOCK, 'ack_reply')
    R = 'wire::tcp::Repr'
    found = False
    for bi, bl in enumerate(b.blocks):
        if bl['cl']:
            continue
        for si, s in enumerate(bl['s']):
            if s[0] == 'a':
                np_ = b.norm(s[1])
                if np_[1] and np_[1][-1][0] == 'f' and np_[1][-1][1] == 'window_len' and np_[1][-1][2] == R:
                    found = True
                    o = simplify(F.origin.rvalue(b, s[2], bi, si, 0, None))
                    if is_call(o, 'scaled_window'):
                        ctx.ok(('ack_reply', 'scaled'), sample=dict(fn='ack_reply', window_len='scaled_window()'))
                    else:
                        ctx.bad("ack_reply|window|unscaled", f"ack_reply advertises window_len = {show(o)[:70]} (not scaled_window()): with window scaling negotiated the peer "
                                "reads it as 2^shift times larger and overruns the receive buffer's window", body=b, bb=bi)
    ctx.need(found, "window_len store in ack_reply")


@rule('R05.2b', ['C05'], floor=1, clause='the peer\'s MSS option is honoured on a simultaneous open too: in SYN-SENT a bare SYN (no ACK) reaches the remote_mss update')
def r05_2b(ctx):
    F = ctx.F
    from .c17 import partition_run
    b = ctx.method(SOCK, 'process')
    ws = [w['bb'] for w in F.field_writes() if w['fn'] == b.key and w['kind'] == 'store' and w['adt'] == SOCK and w['field'] == 'remote_mss']
    ctx.need(ws, "remote_mss stores in tcp::Socket::process")
    r = partition_run(ctx, b, 'SynSent', 'Syn', 'None')
    if feasible_sites(b, ws, r.edge_ok()):
        ctx.ok(('remote_mss', 'simultaneous-open'), sample=dict(state='SynSent', segment='SYN without ACK', effect='remote_mss updated'))
    else:
        ctx.bad("process|remote_mss|simultaneous-open", "in SYN-SENT a bare SYN (simultaneous open) no longer reaches the remote_mss update: the peer's announced MSS is "
                "ignored and segments larger than it are sent", body=b, bb=ws[0])


@rule('R10.5', ['C10', 'C11', 'C16'], floor=1, clause='a Neighbor Advertisement (whose source is the solicited target) is only built when the target is one of the interface\'s own addresses')
def r10_5(ctx):
    F = ctx.F
    b = ctx.method(IFI, 'process_ndisc')
    ND = 'wire::ndisc::Repr'
    sites = [bi for bi, si, var in agg_sites(b, ND, variants=['NeighborAdvert'])]
    ctx.need(sites, "NeighborAdvert construction in process_ndisc")
    own = lambda f: f[0] == 'bool' and f[2] is True and is_call(strip(f[1]), 'has_ip_addr') and any('target_addr' in l for l in leafs(f[1]))
    bad = unguarded(F, b, sites, own)
    if bad:
        ctx.bad("process_ndisc|advert-for-foreign-target", "a Neighbor Advertisement can be sent for a target address the interface does not own (its IPv6 source is that "
                "foreign address): answering solicitations for other hosts in the same solicited-node group", body=b, bb=bad[0][0], path=bad[0][1])
    else:
        ctx.ok(('process_ndisc', 'advert-own-target'), sample=dict(fn='process_ndisc', guard='has_ip_addr(target_addr)'))


@rule('R11.8', ['C11', 'C10'], floor=2, clause='a subnet has no broadcast address only for prefix lengths 31 and 32 (a /30 still has one, and traffic from or to it is treated as broadcast)')
def r11_8(ctx):
    F = ctx.F
    b = ctx.method('wire::ipv4::Cidr', 'broadcast')
    consts = []
    for bi, bl in enumerate(b.blocks):
        if bl['cl'] or bl['t'][0] != 'switch':
            continue
        t = bl['t']
        d = simplify(F.origin.operand(b, t[1], bi, len(bl['s'])))
        if any(l.endswith('.prefix_len') for l in leafs(d)):
            if t[4] != 'bool':
                consts += [('Eq', int(v)) for v, _ in t[2]]
        for tb, lab, f in cond_facts(F, b, bi):
            if f[0] == 'rel' and any(l.endswith('.prefix_len') for l in leafs(f[2])):
                k = const_int(simplify(f[3]))
                if k is not None and f[1] in ('Eq', 'Ge', 'Gt', 'Le', 'Lt'):
                    consts.append((f[1], k))
    eqs = sorted({k for op, k in consts if op == 'Eq'})
    others = [c for c in consts if c[0] != 'Eq']
    ctx.need(consts, "prefix_len tests in Ipv4Cidr::broadcast")
    if eqs == [31, 32] and not others:
        ctx.ok(('broadcast', '31'), sample=dict(fn='Ipv4Cidr::broadcast', none_for='prefix_len 31 | 32'))
        ctx.ok(('broadcast', '32'))
    else:
        ctx.bad("Ipv4Cidr::broadcast|prefix-test", f"Ipv4Cidr::broadcast decides 'no broadcast address' with {sorted(set(consts))} instead of prefix_len == 31 | 32: "
                "the broadcast address of some subnets is treated as a unicast host (replies to / connections from it)", body=b)


@rule('R18.8', ['C18', 'C13'], floor=1, clause='server-supplied T1 and T2 are used only when T1 < T2 < lease; otherwise the defaults are taken (a T1 after T2 makes the reported deadline precede any action)')
def r18_8(ctx):
    F = ctx.F
    D = 'socket::dhcpv4::Socket'
    DR = 'wire::dhcpv4::Repr'
    b, actual = dhcp_t12_body(F, ctx.method(D, 'parse_ack'))
    # the lease duration inside a helper is the parameter it was passed as
    lease_l = {f"F:{DR}.lease_duration"} | {f"A:{k}" for k, o in actual.items() if f"F:{DR}.lease_duration" in leafs(o)}
    # sites: tuples (renew, rebind) built directly from both option values
    sites = []
    for bi, bl in enumerate(b.blocks):
        if bl['cl']:
            continue
        for si, s in enumerate(bl['s']):
            if s[0] == 'a' and s[2][0] == 'agg' and s[2][1].get('k') == 'tuple' and len(s[2][2]) == 2:
                if not all(is_place_op(o) and b.locals[o[1][0]]['ty'] == 'time::Duration' for o in s[2][2]):
                    continue        # the match scrutinee (a pair of Options), not a (T1, T2) result
                a0 = leafs(F.origin.operand(b, s[2][2][0], bi, si))
                a1 = leafs(F.origin.operand(b, s[2][2][1], bi, si))
                if f"F:{DR}.renew_duration" in a0 and f"F:{DR}.rebind_duration" in a1 and f"F:{DR}.rebind_duration" not in a0:
                    sites.append(bi)
    ctx.need(sites, "(T1, T2) taken from the ACK in parse_ack")

    def lt(fa, fb):
        def p(f):
            if f[0] != 'rel' or f[1] not in ('Lt',):
                return False
            x, y = leafs(f[2]), leafs(f[3])
            la = lease_l if fa == 'lease_duration' else {f"F:{DR}.{fa}"}
            lb = lease_l if fb == 'lease_duration' else {f"F:{DR}.{fb}"}
            return bool(la & x) and not (lb & x) and bool(lb & y) and not (la & y)
        return p
    for s_ in sites:
        b1 = unguarded(F, b, [s_], lt('renew_duration', 'rebind_duration'))
        b2 = unguarded(F, b, [s_], lt('rebind_duration', 'lease_duration'))
        if b1 or b2:
            ctx.bad("parse_ack|t1-t2-order", "parse_ack accepts the server's T1/T2 without T1 < T2 < lease: with T1 after T2 poll_at reports the rebind instant while nothing "
                    "is sent before the later renew instant (the event loop spins), or timers fall after the lease end", body=b, bb=s_, path=(b1 or b2)[0][1])
        else:
            ctx.ok(('parse_ack', 't1<t2<lease'), sample=dict(fn='parse_ack', guard='renew < rebind && rebind < lease'))


@rule('R13.9', ['C13', 'C02'], floor=1, clause='dispatch decides to send a keep-alive from the timer alone (the same state poll_at reports), not additionally from the keep-alive option')
def r13_9(ctx):
    F = ctx.F
    TIMER = 'socket::tcp::Timer'
    d = ctx.method(SOCK, 'dispatch')
    ska = ctx.method(TIMER, 'should_keep_alive')
    sites = [x[0] for x in d.calls() if d.callee_name(x[1]) == ska.key]
    ctx.need(sites, "should_keep_alive calls in dispatch")
    mentions_option = lambda f: any(l == f"F:{SOCK}.keep_alive" for n_ in f[1:] if isinstance(n_, tuple) for l in leafs(n_))
    ge = guard_edges(F, d, mentions_option)
    for s_ in sites:
        if ge and not cut_sites(d, [s_], ge):
            ctx.bad("dispatch|keep-alive|extra-guard", "the keep-alive decision in dispatch is additionally guarded by the keep_alive option while poll_at reports the timer's "
                    "deadline regardless: after keep-alive is switched off the armed deadline stays in the past and nothing clears it (poll_at = now forever)", body=d, bb=s_)
        else:
            ctx.ok(('dispatch', 'keep-alive-from-timer', s_), sample=dict(fn='dispatch', decision='timer.should_keep_alive(now)'))


@rule('R17.7', ['C17', 'C11'], floor=3, clause='a segment is classified SYN, FIN or RST only when none of the other two flags is set (contradictory flag combinations are rejected by the parser)')
def r17_7(ctx):
    F = ctx.F
    R = 'wire::tcp::Repr'
    CT = 'wire::tcp::Control'
    parse = ctx.method(R, 'parse')
    need = {'Syn': ('fin', 'rst'), 'Fin': ('syn', 'rst'), 'Rst': ('syn', 'fin'), 'None': ('syn', 'fin', 'rst'), 'Psh': ('syn', 'fin', 'rst')}
    # the classification may sit in parse itself or in a helper of wire::tcp that parse calls and that hands back a Control
    cands = [parse]
    for bi, c, args, dest, tgt, ln in parse.calls():
        cb = F.bodies.get(parse.callee_name(c))
        if cb is not None and cb.key.startswith('wire::tcp::') and 'Control' in cb.locals[0]['ty'] and cb not in cands:
            cands.append(cb)

    def ctl(o):
        o = strip(o)
        if o[0] == 'variant' and o[1].startswith(CT + '::'):
            return o[1].rsplit('::', 1)[-1]
        if o[0] == 'variant' and o[1].endswith('Result::Ok') and len(o) > 2 and o[2]:
            return ctl(o[2][0])
        return None
    found = []
    for b in cands:
        sites = {}
        for bi, bl in enumerate(b.blocks):
            if bl['cl']:
                continue
            for si, s in enumerate(bl['s']):
                if s[0] == 'a' and s[2][0] in ('use', 'agg') and s[1][1] == [] and 'Control' in b.locals[s[1][0]]['ty']:
                    v = ctl(simplify(F.origin.rvalue(b, s[2], bi, si, 0, None)))
                    if v:
                        sites.setdefault(v, []).append(bi)
        if len(sites) >= 4:
            found.append((b, sites))
    ctx.need(found, f"control classification in tcp::Repr::parse or a helper it calls")
    for b, sites in found:
        for var, blocks in sorted(sites.items()):
            for flag in need.get(var, ()):
                clear = lambda f, flag=flag: f[0] == 'bool' and f[2] is False and is_call(strip(f[1]), '::' + flag) and strip(f[1])[1].startswith('wire::tcp::Packet')
                bad = unguarded(F, b, blocks, clear)
                if bad:
                    ctx.bad(f"tcp::Repr::parse|control|{var}|{flag}", f"a segment with the {flag.upper()} flag set can be classified as Control::{var}: contradictory flag combinations "
                            "(e.g. SYN+RST) are handed to the socket as an ordinary segment and advance its state", body=b, bb=bad[0][0], path=bad[0][1])
                else:
                    ctx.ok(('control', var, flag), sample=dict(control=var, requires=f"!{flag}()"))


@rule('R03.9', ['C03', 'C07'], floor=3, clause='an IEEE 802.15.4 frame view is handed out checked only with a known frame version and known addressing modes: the 6LoWPAN fragment key unwraps src_addr()/dst_addr(), which are None for the unknown encodings')
def r03_9(ctx):
    F = ctx.F
    b = ctx.method('wire::ieee802154::Frame', 'new_checked')
    sites = [x[0] for x in agg_sites(b, 'std::result::Result', ['Ok'])]
    ctx.need(sites, "Ok(..) construction in ieee802154::Frame::new_checked")

    def notunk(adt, call):
        def pred(f):
            if f[0] not in ('is', 'isnot') or f[3] != adt or not is_call(strip(f[1]), call):
                return False
            return ('Unknown' in f[2]) if f[0] == 'isnot' else (f[2] != 'Unknown')
        return pred
    for adt, call in (('wire::ieee802154::FrameVersion', 'frame_version'), ('wire::ieee802154::AddressingMode', 'dst_addressing_mode'),
                      ('wire::ieee802154::AddressingMode', 'src_addressing_mode')):
        bad = unguarded(F, b, sites, notunk(adt, '::' + call))
        if bad:
            ctx.bad(f"ieee802154::Frame::new_checked|{call}-unknown", f"new_checked() accepts a frame whose {call}() is Unknown: src_addr()/dst_addr() are None for it and "
                    "SixlowpanFragPacket::get_key (reached from Interface::poll for a FRAG1/FRAGN payload) unwraps them", body=b, bb=bad[0][0], path=bad[0][1])
        else:
            ctx.ok(('new_checked', call), sample=dict(fn='ieee802154::Frame::new_checked', rejects=f"{call}() == Unknown"))


_SPARSE_IDX = re.compile(r'(Filter|FilterMap|SkipWhile|TakeWhile|Skip|StepBy)<std::iter::Enumerate<')


@rule('R06.11', ['C06'], floor=2, clause='where a wire emitter numbers the present entries of an optional list to position them (TCP SACK ranges), the numbering is applied after the filtering: positions are dense, as buffer_len() counts them')
def r06_11(ctx):
    F = ctx.F
    # positive control of the matcher (the expected number of matches in the repository is zero)
    ctx.need(_SPARSE_IDX.search("std::iter::Filter<std::iter::Enumerate<std::slice::Iter<'_, u8>>, {closure}>") is not None
             and _SPARSE_IDX.search("std::iter::Enumerate<std::iter::Filter<std::slice::Iter<'_, u8>, {closure}>>") is None, "adaptor-order matcher self-test")
    ctx.ok(('matcher', 'self-test'), sample=dict(matches='Filter<Enumerate<..>>', rejects='Enumerate<Filter<..>>'))
    n = 0
    for k, b in sorted(F.bodies.items()):
        if not k.startswith('wire::') or '::test' in k:
            continue
        tys = [l['ty'] for l in b.locals]
        if not any('std::iter::Enumerate<' in t for t in tys):
            continue
        n += 1
        hit = [t for t in tys if _SPARSE_IDX.search(t)]
        short = k.replace("::<'a>", '').replace('::<T>', '')
        if hit:
            ctx.bad(f"{short}|filter-over-enumerate", f"{short} numbers the entries before dropping the absent ones ({hit[0][:90]}...): the positions computed from the "
                    "index have gaps, so present entries are written past the length buffer_len() declares (or leave unwritten holes)", body=b, bb=0)
        else:
            ctx.ok((short, 'dense-index'), sample=dict(fn=short, adaptor='Enumerate applied to the already filtered / complete sequence'))
    ctx.need(n >= 1, "enumerate() adaptors in wire:: functions")


@rule('R02.13', ['C02', 'C01'], floor=1, clause='a pending fast retransmission with queued data always makes the socket want to transmit (it is not subject to the Nagle / window / congestion tests that follow)')
def r02_13(ctx):
    F = ctx.F
    SOCK = 'socket::tcp::Socket'
    b = ctx.method(SOCK, 'seq_to_transmit')
    # edges that contradict the assumption "pending_fast_retransmit && !tx_buffer.is_empty()"
    contra = lambda f: f[0] == 'bool' and ((f[2] is False and is_field(f[1], SOCK, 'pending_fast_retransmit'))
                                           or (f[2] is True and is_call(strip(f[1]), '::is_empty') and any(l.endswith('.tx_buffer') for l in leafs(f[1]))))
    cut = set(pass_edges(F, b, contra))
    ctx.need(any(True for _ in cut), "tests of pending_fast_retransmit / tx_buffer.is_empty() in seq_to_transmit")
    seen = b.reachable(cut_edges=cut)
    rets = []
    for bi in sorted(seen):
        bl = b.blocks[bi]
        if bl['cl']:
            continue
        for si, s in enumerate(bl['s']):
            if s[0] == 'a' and s[1] == [0, []]:
                rets.append((bi, si, s))
        if bl['t'][0] == 'call' and bl['t'][3] == [0, []]:
            rets.append((bi, None, None))
    ctx.need(rets, "result stores of seq_to_transmit reachable with a pending fast retransmission")
    bad = [(bi, si) for bi, si, s in rets if not (s is not None and s[2][0] == 'use' and s[2][1][0] == 'k' and s[2][1][2] is True)]
    if bad:
        ctx.bad("seq_to_transmit|fast-retransmit-not-unconditional", "with a fast retransmission pending and data queued, seq_to_transmit() can still answer from the "
                "window / congestion / Nagle tests: after three duplicate ACKs nothing is resent, the timer goes idle and the connection stalls", body=b, bb=bad[0][0])
    else:
        ctx.ok(('seq_to_transmit', 'fast-retransmit'), sample=dict(fn='seq_to_transmit', under='pending_fast_retransmit && !tx_buffer.is_empty()', result='true'))


@rule('R08.7', ['C08', 'C10', 'C20'], floor=2, clause='a UDP checksum that computes to zero is transmitted as 0xffff (zero on the wire means "no checksum", which IPv6 forbids), in the plain and in the 6LoWPAN-compressed emitter')
def r08_7(ctx):
    F = ctx.F
    sites = [('wire::udp::Packet', 'fill_checksum', 'wire::udp::Packet'), ('wire::sixlowpan::nhc::UdpNhcRepr', 'emit', 'wire::sixlowpan::nhc::UdpNhcPacket')]
    for adt, fn, view in sites:
        b = ctx.method(adt, fn)
        sc = F.method(view, 'set_checksum')
        ctx.need(sc is not None, f"{view}::set_checksum")
        stores = [x for x in b.calls() if b.callee_name(x[1]) == sc.key and not (x[2][1][0] == 'k' and x[2][1][2] == 0)]
        ctx.need(stores, f"store of the computed checksum in {adt}::{fn}")
        short = adt.split('::', 1)[1] + '::' + fn
        for x in stores:
            o = strip(F.origin.operand(b, x[2][1], x[0], len(b.blocks[x[0]]['s'])))
            alts = list(o[1]) if o[0] == 'phi' else [o]
            nots = [a for a in alts if strip(a)[0] == 'un' and strip(a)[1] == 'Not']
            ones = [a for a in alts if const_of(a) == 0xffff]
            iszero = lambda f: f[0] == 'rel' and f[1] in ('Eq', 'Ne') and any(const_of(s_) == 0 for s_ in (f[2], f[3])) \
                and any(strip(s_)[0] == 'un' and strip(s_)[1] == 'Not' for s_ in (f[2], f[3]))
            tested = guard_edges(F, b, iszero)
            # the sum itself is stored only where it is known not to be zero - whatever the address family
            nonzero = set(guard_edges(F, b, lambda f: iszero(f) and f[1] == 'Ne'))
            raw_anywhere = False
            op = x[2][1]
            if is_place_op(op) and op[1][1] == []:
                seen_wo = b.reachable(cut_edges=nonzero)
                for (dbi, dsi, kind, pr, rv) in b._all_defs().get(op[1][0], []):
                    if kind == 'a' and pr == [] and not (rv[0] == 'use' and rv[1][0] == 'k') and dbi in seen_wo:
                        raw_anywhere = True
            if nots and ones and tested and not raw_anywhere:
                ctx.ok((short, 'zero->0xffff'), sample=dict(fn=short, stores='if sum == 0 { 0xffff } else { sum }'))
            else:
                ctx.bad(f"{short}|zero-checksum-emitted", f"{short} stores the complemented sum as it is: when it computes to 0 the datagram is sent with the 'no checksum' "
                        "value, which receivers of UDP over IPv6 must discard", body=b, bb=x[0])


@rule('R18.9', ['C18', 'C13'], floor=1, clause='in the bound state no dispatch returns before the lease expiry was examined: an early "nothing to send yet" return cannot hide an expired lease')
def r18_9(ctx):
    from .c18 import D, RS, FDAI
    F = ctx.F
    d = ctx.method(D, 'dispatch')
    an = FDAI(F)
    skey = (('d', 1), (('f', 'state', D, '-'),))
    r = an.run(d, {skey: frozenset(['Renewing'])})
    rets = [b_ for b_ in d.return_blocks() if b_ in d.reachable(edge_ok=r.edge_ok())]
    ctx.need(rets, "a return of dhcpv4::dispatch reachable in the Renewing state")
    examined = lambda f: f[0] == 'rel' and (is_field(f[2], RS, 'expires_at') or is_field(f[3], RS, 'expires_at'))
    ctx.need(guard_edges(F, d, examined), "comparison of expires_at in dhcpv4::dispatch")
    bad = unguarded(F, d, rets, examined, r.edge_ok())
    if bad:
        ctx.bad("dispatch|return-before-expiry-test", "in the bound state dispatch() can return without having compared expires_at with now: while a retry instant lies "
                "beyond the expiry the lease is not dropped (no Deconfigured event, the address outlives its lease)", body=d, bb=bad[0][0], path=bad[0][1])
    else:
        ctx.ok(('dispatch', 'expiry-examined-first'), sample=dict(fn='dhcpv4::dispatch', state='Renewing', every_return_after='expires_at <=> now'))


def _deadline_fields(F):
    """Instant-typed fields whose value flows into a poll_at answer: the deadlines the stack reports to its driver"""
    out = set()
    for k, b in sorted(F.bodies.items()):
        if '::test' in k or not (k.rsplit('::', 1)[-1] == 'poll_at' or 'poll_at::{closure' in k):
            continue
        try:
            r = ret_origin(F, b)
        except Exception:
            continue
        for l in leafs(r):
            if not l.startswith('F:'):
                continue
            adt, fld = l[2:].rsplit('.', 1)
            a = F.adts.get(adt)
            for v in (a['variants'] if a else ()):
                for i, f in enumerate(v['fields']):
                    if (f['name'] == fld or str(i) == fld) and 'time::Instant' in f['ty']:
                        out.add(l)
    return out


def _is_now(n, b):
    n = strip(n)
    while n[0] in ('ref', 'deref') and len(n) == 2:
        n = strip(n[1])
    if n[0] == 'call' and n[1].rsplit('::', 1)[-1] == 'now':
        return True
    if n[0] == 'arg' and n[1] < len(b.locals):
        return 'time::Instant' in b.locals[n[1]]['ty'] and b.locals[n[1]]['ty'].replace('&', '').strip() == 'time::Instant'
    return False


@rule('R13.10', ['C13', 'C02', 'C18', 'C19'], floor=15, clause='a deadline that poll_at reports is due at that very instant: every comparison of such a deadline with the current time splits into `deadline <= now` (act) and `deadline > now` (wait)')
def r13_10(ctx):
    F = ctx.F
    dl = _deadline_fields(F)
    ctx.need(len(dl) >= 12, f"Instant fields flowing into poll_at (found {len(dl)})")
    n = 0
    for k, b in sorted(F.bodies.items()):
        if '::test' in k or not (b.file or '').startswith('src/'):
            continue
        for bi, bl in enumerate(b.blocks):
            if bl['cl'] or bl['t'][0] != 'switch':
                continue
            for tb, lab, f in cond_facts(F, b, bi):
                if f[0] != 'rel' or f[1] not in ('Lt', 'Gt', 'Le', 'Ge'):
                    continue
                a, c, op = f[2], f[3], f[1]
                if _is_now(a, b) == _is_now(c, b):
                    continue
                if _is_now(a, b):
                    a, c, op = c, a, FLIP[op]
                hit = sorted(leafs(a) & dl)
                if not hit or op not in ('Lt', 'Ge'):
                    if hit and op == 'Le':
                        n += 1
                        ctx.ok((k, hit[0], bi), sample=dict(fn=k.split('::', 1)[-1], deadline=hit[0][2:], split='deadline <= now | deadline > now'))
                    continue
                if op == 'Lt':
                    short = k.split('::', 1)[-1].replace("::<'a>", '')
                    ctx.bad(f"{short}|{hit[0][2:]}|strict-deadline", f"{short} treats the deadline {hit[0][2:]} as due only when it is strictly in the past, while poll_at reports "
                            "the deadline itself: polled exactly then nothing happens and poll_at keeps answering the same instant (no progress / busy loop)", body=b, bb=bi)
    ctx.need(n >= 15, f"inclusive deadline comparisons (found {n})")


@rule('R12.7', ['C12', 'C20', 'C10'], floor=15, clause='in the functions that start a fragmented transmission every write to the fragmenter (link destination, identification, header copy, offsets, buffer) is behind the idle test: a packet that is dropped because the fragmenter is busy leaves the pending fragments and their addressing untouched')
def r12_7(ctx):
    from .c12 import FR, idle_pred
    F = ctx.F
    frs = {FR, FR.rsplit('::', 1)[0] + '::Ipv4Fragmenter', FR.rsplit('::', 1)[0] + '::SixlowpanFragmenter'}
    starters = set()
    for w in F.writers_of(FR, 'packet_len', kinds=('store',)):
        b = F.body(w['fn'])
        if (b.meta.get('root') or w['fn']).rsplit('::', 1)[-1] in ('new', 'reset'):
            continue
        if const_int(simplify(store_origin(F, b, w))) != 0:
            starters.add(w['fn'])
    ctx.need(len(starters) >= 2, "fragment starters (dispatch_ip, dispatch_sixlowpan)")
    n = 0
    for w in F.field_writes():
        if w['fn'] not in starters or w['adt'] not in frs:
            continue
        b = F.body(w['fn'])
        fnm = w['fn'].rsplit('::', 1)[-1]
        n += 1
        bad = unguarded(F, b, [w['bb']], idle_pred(F))
        if bad:
            ctx.bad(f"{fnm}|{w['field']}|write-while-busy", f"{fnm} writes fragmenter field {w['field']} on a path that has not yet established that the fragmenter is idle: "
                    "a packet that is then dropped (\"fragmentation buffer in use\") has already changed the state the pending fragments are sent with", body=b, bb=w['bb'], path=bad[0][1])
        else:
            ctx.ok((fnm, w['field'], w['kind'], w['bb']), sample=dict(fn=fnm, field=w['field'], behind='fragmenter.is_empty() | finished()'))
    ctx.need(n >= 15, f"fragmenter writes in the starters (found {n})")


@rule('R15.7', ['C15', 'C01', 'C04'], floor=2, clause='add_then_remove_front answers only in two ways: the guaranteed-success path (an offset-0 segment that ends inside the leading hole shrinks that hole and reports its own size) or the general path that records the range with add() and then reports what remove_front() took')
def r15_7(ctx):
    from ..wirelib import ok_sites
    F = ctx.F
    AS = 'storage::assembler::Assembler'
    CT = 'storage::assembler::Contig'
    b = ctx.method(AS, 'add_then_remove_front')
    add = ctx.method(AS, 'add')
    rf = ctx.method(AS, 'remove_front')
    oks = ok_sites(b)
    ctx.need(len(oks) >= 2, "the two Ok answers of add_then_remove_front")
    fast = lambda f: f[0] == 'rel' and f[1] == 'Lt' and 'A:3' in leafs(f[2]) and any(l == f"F:{CT}.hole_size" for l in leafs(f[3]))
    added = lambda f: f[0] == 'is' and f[2] in ('Continue', 'Ok') and any(l == 'C:' + add.key for l in leafs(f[1]))
    for bi in oks:
        if not unguarded(F, b, [bi], fast):
            # the fast answer is the segment's own size
            val = None
            for si, s in enumerate(b.blocks[bi]['s']):
                if s[0] == 'a' and s[1] == [0, []] and s[2][0] == 'agg':
                    val = strip(simplify(F.origin.operand(b, s[2][2][0], bi, si)))
            if val == ('arg', 3):
                ctx.ok(('fast-path', 'reports size'), sample=dict(path='offset == 0 && size < contigs[0].hole_size', answer='size'))
            else:
                ctx.bad("add_then_remove_front|fast-answer", f"the guaranteed-success path answers {show(val)[:60]} instead of the segment size", body=b, bb=bi)
            continue
        if unguarded(F, b, [bi], added):
            ctx.bad("add_then_remove_front|answer-without-add", "add_then_remove_front can answer Ok for a segment that does not end inside the leading hole without having "
                    "recorded it with add(): the part of the segment beyond the first range is lost and following ranges are not merged", body=b, bb=bi)
            continue
        val = None
        for si, s in enumerate(b.blocks[bi]['s']):
            if s[0] == 'a' and s[1] == [0, []] and s[2][0] == 'agg':
                val = strip(simplify(F.origin.operand(b, s[2][2][0], bi, si)))
        if val is not None and val[0] == 'call' and val[1] == rf.key:
            ctx.ok(('general-path', 'add then remove_front'), sample=dict(path='add(offset, size)?', answer='remove_front()'))
        else:
            ctx.bad("add_then_remove_front|general-answer", f"after add() the function answers {show(val)[:60]} instead of what remove_front() removed", body=b, bb=bi)


@rule('R15.8', ['C15', 'C12', 'C20'], floor=2, clause='peek_front and remove_front report the leading range only when it starts at offset 0: a non-zero answer is behind `!front.has_hole()` in both (the reassembler decides "complete" from peek_front)')
def r15_8(ctx):
    F = ctx.F
    AS = 'storage::assembler::Assembler'
    CT = 'storage::assembler::Contig'
    hh = F.method(CT, 'has_hole')
    nohole = lambda f: (f[0] == 'bool' and f[2] is False and hh is not None and is_call(strip(f[1]), hh.key.rsplit('::', 2)[-2] + '::has_hole')) or \
        (f[0] == 'rel' and f[1] == 'Eq' and any(l == f"F:{CT}.hole_size" for l in leafs(f[2])) and const_of(f[3]) == 0)
    for fn in ('peek_front', 'remove_front'):
        b = ctx.method(AS, fn)
        sites = []
        for bi, bl in enumerate(b.blocks):
            if bl['cl']:
                continue
            for si, s in enumerate(bl['s']):
                if s[0] == 'a' and s[1] == [0, []]:
                    o = strip(simplify(F.origin.rvalue(b, s[2], bi, si, 0, None)))
                    if const_of(o) != 0:
                        sites.append(bi)
        ctx.need(sites, f"non-zero answer of Assembler::{fn}")
        bad = unguarded(F, b, sites, nohole)
        if bad:
            ctx.bad(f"{fn}|answer-behind-hole", f"Assembler::{fn} can report the size of a leading range that does not start at offset 0 (it is not behind `!has_hole()`): "
                    "a datagram whose first fragment is missing is judged complete / data behind a gap is handed to the reader", body=b, bb=bad[0][0])
        else:
            ctx.ok((fn, 'no-hole'), sample=dict(fn=fn, nonzero_answer_behind='!front.has_hole()'))


@rule('R12.8', ['C12', 'C20', 'C03'], floor=1, clause='the reassembly time-out acts on occupied slots: in remove_expired the reset of a slot is reachable for a slot that is not free and whose deadline has passed (stale fragments cannot outlive the time-out and be merged into a later datagram)')
def r12_8(ctx):
    from .c12 import PAS, PA
    F = ctx.F
    b = ctx.method(PAS, 'remove_expired')
    rs = F.method(PA, 'reset')
    fr = F.method(PA, 'is_free')
    ctx.need(rs is not None and fr is not None, "PacketAssembler::reset / is_free")
    sites = [x[0] for x in b.calls() if b.callee_name(x[1]) == rs.key]
    # edges that contradict "slot occupied and expired"
    contra = lambda f: (f[0] == 'bool' and f[2] is True and is_call(strip(f[1]), '::is_free')) or \
        (f[0] == 'rel' and f[1] in ('Ge', 'Gt') and any(l.endswith('.expires_at') for l in leafs(f[2])) and not any(l.endswith('.expires_at') for l in leafs(f[3])))
    if not sites:
        # iterator form: `.filter(c1).filter(c2).for_each(|f| f.reset())` - every filter closure must be able to answer
        # true for an occupied, expired slot
        fe = [x for x in b.calls() if (b.callee_name(x[1]) or '').rsplit('::', 1)[-1] == 'for_each' and len(x[2]) == 2]
        ok_chain = None
        for x in fe:
            clo = strip(F.origin.operand(b, x[2][1], x[0], len(b.blocks[x[0]]['s'])))
            cbody = F.bodies.get(str(clo[1])[len('closure:'):]) if clo[0] == 'agg' and str(clo[1]).startswith('closure:') else None
            resets = (cbody is not None and any(cbody.callee_name(y[1]) == rs.key for y in cbody.calls())) or \
                any(l == 'C:' + rs.key or l.endswith('::reset') for l in leafs(clo))
            if not resets:
                continue
            ok_chain = True
            n = strip(F.origin.operand(b, x[2][0], x[0], len(b.blocks[x[0]]['s'])))
            for _ in range(8):
                while n[0] in ('ref', 'deref', 'after') and len(n) >= 2:
                    n = strip(n[1])
                if n[0] != 'call' or not n[2]:
                    break
                if n[1].rsplit('::', 1)[-1] == 'filter' and len(n[2]) == 2:
                    c2 = strip(n[2][1])
                    fb = F.bodies.get(str(c2[1])[len('closure:'):]) if c2[0] == 'agg' and str(c2[1]).startswith('closure:') else None
                    if fb is None or not _can_answer_true(F, fb, contra):
                        ok_chain = False
                n = strip(n[2][0])
        ctx.need(ok_chain is not None, "reset() of the slots in PacketAssemblerSet::remove_expired (loop or for_each form)")
        if ok_chain:
            ctx.ok(('remove_expired', 'occupied+expired -> reset'), sample=dict(fn='remove_expired', form='filter(..).for_each(reset)'))
        else:
            ctx.bad("remove_expired|occupied-slot-never-reset", "remove_expired never resets a slot that holds fragments and whose deadline passed (a filter in front of "
                    "the reset rejects exactly those slots)", body=b)
        return
    cut = set(guard_edges(F, b, contra))
    ctx.need(cut, "tests of is_free() / expires_at in remove_expired")
    seen = b.reachable(cut_edges=cut)
    if any(s in seen for s in sites):
        ctx.ok(('remove_expired', 'occupied+expired -> reset'), sample=dict(fn='remove_expired', resets='!is_free() && expires_at < now'))
    else:
        ctx.bad("remove_expired|occupied-slot-never-reset", "remove_expired never resets a slot that holds fragments and whose deadline passed: an abandoned partial datagram "
                "keeps its slot for ever and its stale fragments are merged into a later datagram with the same key", body=b, bb=sites[0])


def _novariant(n):
    """canonical form that forgets which enum variant a payload projection went through (arms merged with `A | B`)"""
    from .c07 import _canon_atom
    n = _canon_atom(n)

    def rec(x):
        if not isinstance(x, tuple) or not x:
            return x
        if x[0] in ('proj', 'field') and len(x) >= 3:
            path = tuple(('f', p[1]) if p and p[0] == 'f' else p for p in x[2] if p and p[0] not in ('dc', '*'))
            return (x[0], rec(x[1]), path)
        if x[0] == 'phi':
            alts_ = sorted({rec(a) for a in x[1]}, key=repr)
            return alts_[0] if len(alts_) == 1 else ('phi', tuple(alts_))
        return tuple(rec(c) if isinstance(c, tuple) and c and isinstance(c[0], str) else
                     (tuple(rec(d) for d in c) if isinstance(c, tuple) else c) for c in x)
    return rec(n)


def _same_expr(x, y):
    x, y = _novariant(x), _novariant(y)
    if x == y:
        return True
    lx, cx = lin(x)
    ly, cy = lin(y)
    if (lx or ly) and cx == cy and {_novariant(k): v for k, v in lx.items()} == {_novariant(k): v for k, v in ly.items()} \
            and not (len(lx) == 1 and list(lx)[0] == x):
        return True
    if x[0] == 'call' and y[0] == 'call' and x[1] == y[1] and len(x[2]) == len(y[2]):
        return all(_same_expr(a, b_) for a, b_ in zip(x[2], y[2]))
    return False


@rule('R06.12', ['C06', 'C10'], floor=5, clause='NDISC options: for every kind of option the length octet that emit stores, times 8, is the length buffer_len() declares (a length rounded down, or taken from another arm, desynchronises every option that follows)')
def r06_12(ctx):
    from .c07 import _expand_helpers
    F = ctx.F
    R = 'wire::ndiscoption::Repr'
    em = ctx.method(R, 'emit')
    bl_ = ctx.method(R, 'buffer_len')
    variants = F.variants(R)
    ctx.need(variants and len(variants) >= 5, "variants of ndiscoption::Repr")

    def under(b, v):
        cut = set(guard_edges(F, b, lambda f: (f[0] == 'is' and leafs(f[1]) == {'A:1'} and f[3] == R and f[2] != v) or
                              (f[0] == 'isnot' and leafs(f[1]) == {'A:1'} and f[3] == R and v in f[2])))
        return b.reachable(cut_edges=cut)
    sdl = [x for x in em.calls() if (em.callee_name(x[1]) or '').endswith('::set_data_len')]
    ctx.need(len(sdl) >= 5, "set_data_len calls in ndiscoption::Repr::emit")
    for v in variants:
        se, sb = under(em, v), under(bl_, v)
        es = [simplify(_expand_helpers(F, F.origin.operand(em, x[2][1], x[0], len(em.blocks[x[0]]['s'])), '-')) for x in sdl if x[0] in se]
        bs = []
        for bi in sorted(sb):
            for si, s in enumerate(bl_.blocks[bi]['s']):
                if s[0] == 'a' and s[1] == [0, []]:
                    bs.append(simplify(_expand_helpers(F, F.origin.rvalue(bl_, s[2], bi, si, 0, None), '-')))
        if len(es) != 1 or len(bs) != 1:
            ctx.bad(f"ndiscoption::Repr|{v}|length-sites", f"option kind {v}: expected one length store in emit and one answer in buffer_len (found {len(es)} / {len(bs)})", body=em)
            continue
        e, bq = strip(es[0]), strip(bs[0])
        while e[0] == 'cast':
            e = strip(e[1])
        ce, cb = const_of(e), const_of(bq)
        ok = False
        if ce is not None and cb is not None:
            ok = cb == 8 * ce
        elif bq[0] == 'bin' and bq[1] == 'Mul' and const_of(bq[3]) == 8:
            ok = _same_expr(bq[2], e)
        elif bq[0] == 'bin' and bq[1] == 'Mul' and const_of(bq[2]) == 8:
            ok = _same_expr(bq[3], e)
        if ok:
            ctx.ok((v, 'length*8 == buffer_len'), sample=dict(option=v, emit_length=show(e)[:60], buffer_len=show(bq)[:70]))
        else:
            ctx.bad(f"ndiscoption::Repr|{v}|length-octet", f"option kind {v}: emit stores length {show(e)[:70]} but buffer_len() declares {show(bq)[:70]} octets (not 8 x length): "
                    "the option parses back shorter/longer than it was emitted and the options behind it are misread", body=em)


@rule('R06.13', ['C06', 'C10', 'C20'], floor=2, clause='IEEE 802.15.4: the source PAN identifier is written by emit under the condition under which buffer_len() reserves its two octets (PAN-id compression off), and not otherwise')
def r06_13(ctx):
    F = ctx.F
    R = 'wire::ieee802154::Repr'
    em = ctx.method(R, 'emit')
    bl_ = ctx.method(R, 'buffer_len')
    comp = lambda truth: (lambda f: f[0] == 'bool' and f[2] is truth and is_field(f[1], R, 'pan_id_compression'))
    # buffer_len: which truth value of the flag adds the two octets
    adds = {}
    for truth in (True, False):
        cut = set(guard_edges(F, bl_, comp(not truth)))
        ctx.need(cut, "test of pan_id_compression in ieee802154::Repr::buffer_len")
        seen = bl_.reachable(cut_edges=cut)
        vals = set()
        for bi in seen:
            for si, s in enumerate(bl_.blocks[bi]['s']):
                if s[0] == 'a' and s[2][0] == 'use' and s[2][1][0] == 'k' and s[2][1][2] in (0, 2) and bl_.locals[s[1][0]]['ty'] == 'usize' and not bl_.locals[s[1][0]].get('name'):
                    vals.add((s[1][0], s[2][1][2]))
        adds[truth] = vals
    only_false = {l for l, v in adds[False] if v == 2} - {l for l, v in adds[True] if v == 2}
    ctx.need(only_false, "the two octets buffer_len() adds when pan_id_compression is false")
    sites = [x[0] for x in em.calls() if (em.callee_name(x[1]) or '').endswith('::set_src_pan_id')]
    ctx.need(sites, "set_src_pan_id call in ieee802154::Repr::emit")
    r_off = em.reachable(cut_edges=set(guard_edges(F, em, comp(True))))
    r_on = em.reachable(cut_edges=set(guard_edges(F, em, comp(False))))
    ctx.need(guard_edges(F, em, comp(True)) or guard_edges(F, em, comp(False)), "test of pan_id_compression in ieee802154::Repr::emit")
    if not any(s in r_off for s in sites):
        ctx.bad("ieee802154::Repr::emit|src-pan-not-written", "with PAN-id compression off buffer_len() reserves two octets for the source PAN id but emit never writes them: "
                "they keep the previous buffer content and the frame does not parse back to its representation", body=em, bb=sites[0])
    else:
        ctx.ok(('emit', 'src pan written when reserved'), sample=dict(fn='ieee802154::Repr::emit', writes='src_pan_id', when='!pan_id_compression'))
    if any(s in r_on for s in sites):
        ctx.bad("ieee802154::Repr::emit|src-pan-written-unreserved", "with PAN-id compression on buffer_len() reserves no room for the source PAN id but emit writes it: "
                "the source address is overwritten / the write runs past the declared length", body=em, bb=sites[0])
    else:
        ctx.ok(('emit', 'src pan not written when compressed'), sample=dict(fn='ieee802154::Repr::emit', skips='src_pan_id', when='pan_id_compression'))


@rule('R08.8', ['C08', 'C01', 'C09', 'C18'], floor=4, clause='a UDP or TCP header representation handed to a socket is the result of the checksum-verifying Repr::parse (directly or through the parameters of the ingress helpers), never one put together from unverified packet fields')
def r08_8(ctx):
    F = ctx.F
    TR = {'wire::udp::Repr': 'wire::udp::Repr::parse', 'wire::tcp::Repr': 'wire::tcp::Repr'}
    n = 0

    def provenance(b, node, depth, seen):
        """'parse' | 'built' | 'unknown' for a repr-valued origin"""
        ls = leafs(node)
        if any(l.startswith('C:wire::udp::Repr::parse') or (l.startswith('C:wire::tcp::Repr') and l.endswith('::parse')) for l in ls):
            return 'parse', None
        st = strip(node)
        while st[0] in ('ref', 'deref', 'after') and len(st) >= 2:
            st = strip(st[1])
        if st[0] == 'arg' and depth < 4:
            callers = [(ck, F.bodies[ck]) for ck in F.callers(b.key) if ck in F.bodies and '::test' not in ck and '/tests/' not in (F.bodies[ck].file or '')]
            if not callers:
                return 'unknown', None
            for ck, cb in callers:
                for x in cb.calls():
                    if cb.callee_name(x[1]) == b.key and st[1] - 1 < len(x[2]):
                        o = F.origin.operand(cb, x[2][st[1] - 1], x[0], len(cb.blocks[x[0]]['s']))
                        r, w = provenance(cb, o, depth + 1, seen)
                        if r != 'parse':
                            return r, (w or (cb, x[0]))
            return 'parse', None
        if st[0] == 'agg':
            return 'built', None
        return 'unknown', None
    for k, b in sorted(F.bodies.items()):
        if not (b.file or '').startswith('src/iface/') or '::test' in k or '/tests/' in (b.file or ''):
            continue
        for x in b.calls():
            nm = b.callee_name(x[1]) or ''
            if not (nm.startswith('socket::') and nm.endswith('::process')):
                continue
            for a in x[2]:
                if a[0] not in ('c', 'm'):
                    continue
                ty = b.locals[a[1][0]]['ty'].replace('&', '').replace("<'_>", '').strip()
                if ty not in ('wire::udp::Repr', 'wire::tcp::Repr'):
                    continue
                n += 1
                o = F.origin.operand(b, a, x[0], len(b.blocks[x[0]]['s']))
                r, where = provenance(b, o, 0, set())
                fnm = k.split('>::')[-1] if '>::' in k else k.rsplit('::', 1)[-1]
                sock = nm.split('::')[1]
                if r == 'parse':
                    ctx.ok((fnm, sock, ty), sample=dict(fn=fnm, socket=sock, repr=ty, comes_from='Repr::parse (checksum verified with the device capabilities, R08.3)'))
                else:
                    wb, wbb = where if where else (b, x[0])
                    ctx.bad(f"{fnm}|{sock}|repr-not-parsed", f"{fnm} hands the {sock} socket a {ty} that is {'assembled from packet fields' if r == 'built' else 'not the result of Repr::parse'}: "
                            "the transport checksum of that packet was never verified", body=wb, bb=wbb)
    ctx.need(n >= 4, f"transport representations handed to sockets (found {n})")


@rule('R08.7b', ['C08', 'C20', 'C09'], floor=1, clause='the 6LoWPAN UDP verifier compares the received checksum with the value the emitter would have sent: a sum that computes to zero is expected as 0xffff')
def r08_7b(ctx):
    F = ctx.F
    b = ctx.method('wire::sixlowpan::nhc::UdpNhcRepr', 'parse')
    found = []
    for bi, bl in enumerate(b.blocks):
        if bl['cl'] or bl['t'][0] != 'switch':
            continue
        for tb, lab, f in cond_facts(F, b, bi):
            if f[0] != 'rel' or f[1] not in ('Eq', 'Ne'):
                continue
            for x, y in ((f[2], f[3]), (f[3], f[2])):
                if any(l.startswith('C:') and l.endswith('::checksum') and 'UdpNhcPacket' in l for l in leafs(y)) and \
                        any(l.startswith('C:') and l.endswith('checksum::combine') for l in leafs(x)):
                    found.append((bi, x))
    ctx.need(found, "comparison of the computed with the received checksum in UdpNhcRepr::parse")
    bi, x = found[0]
    xs = strip(simplify(x))
    alts_ = list(xs[1]) if xs[0] == 'phi' else [xs]
    if any(const_of(a) == 0xffff for a in alts_) and any(strip(a)[0] == 'un' for a in alts_):
        ctx.ok(('UdpNhcRepr::parse', 'zero->0xffff'), sample=dict(fn='UdpNhcRepr::parse', expects='if sum == 0 { 0xffff } else { sum }'))
    else:
        ctx.bad("sixlowpan::nhc::UdpNhcRepr::parse|zero-checksum-expected", "UdpNhcRepr::parse compares the received checksum with the plain complemented sum: a datagram whose "
                "checksum computes to 0 arrives carrying 0xffff (as the emitter sends it) and is rejected as corrupt", body=b, bb=bi)


@rule('R08.9', ['C08', 'C10'], floor=8, clause='the per-protocol checksum setting means what it says: rx() is true exactly for Both and Rx, tx() exactly for Both and Tx')
def r08_9(ctx):
    from .c07 import const_returns_under_variant
    F = ctx.F
    CKS = 'phy::Checksum'
    vs = F.variants(CKS)
    ctx.need(vs and set(vs) >= {'Both', 'Rx', 'Tx', 'None'}, "variants of phy::Checksum")
    want = {'rx': {'Both', 'Rx'}, 'tx': {'Both', 'Tx'}}
    for fn, yes in want.items():
        b = ctx.method(CKS, fn)
        for v in vs:
            vals = const_returns_under_variant(F, b, v)
            exp = v in yes
            if vals is not None and {bool(x) for x in vals} == {exp}:
                ctx.ok((fn, v), sample=dict(fn=f"Checksum::{fn}", setting=v, answer=exp))
            else:
                ctx.bad(f"Checksum::{fn}|{v}", f"Checksum::{fn}() answers {sorted(vals) if vals is not None else '?'} for the setting {v} (expected {exp}): "
                        + ("received checksums are not verified under a setting that asks for it" if fn == 'rx' else "emitted checksums are not computed under a setting that asks for it"), body=b)


def _can_answer_true(F, cb, contra):
    """can the bool closure / helper cb answer true on a path that passes no edge on which `contra` holds, its directly
    returned value not being one that `contra` makes false"""
    cut = set(guard_edges(F, cb, contra))
    seen = cb.reachable(cut_edges=cut)
    for bi in sorted(seen):
        bl = cb.blocks[bi]
        if bl['cl']:
            continue
        outs = []
        for si, s_ in enumerate(bl['s']):
            if s_[0] == 'a' and s_[1] == [0, []]:
                outs.append(F.origin.rvalue(cb, s_[2], bi, si, 0, None))
        t = bl['t']
        if t[0] == 'call' and t[3] == [0, []]:
            outs.append(F.origin.call_node(cb, t, bi, 0, None))
        for o in outs:
            o = strip(simplify(o))
            c = const_of(o)
            if c is not None:
                if c:
                    return True
                continue
            neg = False
            while o[0] == 'un' and o[1] == 'Not':
                neg = not neg
                o = strip(o[2])
            # the value itself as a fact: true-valued `o` (or false-valued when negated) must not be contradicted
            f = None
            if o[0] == 'bin' and o[1] in ('Lt', 'Le', 'Gt', 'Ge', 'Eq', 'Ne'):
                op = o[1] if not neg else {'Lt': 'Ge', 'Le': 'Gt', 'Gt': 'Le', 'Ge': 'Lt', 'Eq': 'Ne', 'Ne': 'Eq'}[o[1]]
                f = ('rel', op, o[2], o[3])
            elif o[0] == 'call' and o[1].rsplit('::', 1)[-1] in ('lt', 'le', 'gt', 'ge') and len(o[2]) == 2:
                op = {'lt': 'Lt', 'le': 'Le', 'gt': 'Gt', 'ge': 'Ge'}[o[1].rsplit('::', 1)[-1]]
                if neg:
                    op = {'Lt': 'Ge', 'Le': 'Gt', 'Gt': 'Le', 'Ge': 'Lt'}[op]
                f = ('rel', op, o[2][0], o[2][1])
            else:
                f = ('bool', o, not neg)
            from ..core import _both_orientations
            if not _both_orientations(contra)(f):
                return True
    return False


@rule('R03.10', ['C03', 'C20', 'C10'], floor=6, clause='every kind of payload the stack itself wraps in an IPv6 packet (ICMPv6, ICMPv6 behind a hop-by-hop header for MLD, TCP, UDP) is handled by the 6LoWPAN egress functions: none of them ends in unreachable!()/todo!() for such a kind')
def r03_10(ctx):
    """Exhaustiveness of the 6LoWPAN egress over the IPv6-capable payload kinds.  A kind is IPv6-capable when none of its
    field types belongs to an IPv4-only protocol module (icmpv4, igmp, dhcpv4) and it carries a protocol representation
    (raw byte payloads of raw sockets are the application's own and not claimed)."""
    F = ctx.F
    IPP = 'iface::packet::IpPayload'
    a = F.adts.get(IPP)
    ctx.need(a is not None, "iface::packet::IpPayload")
    kinds = []
    for v in a['variants']:
        tys = ' '.join(f['ty'] for f in v['fields'])
        if any(x in tys for x in ('icmpv4::', 'igmp::', 'dhcpv4::')) or 'Repr' not in tys:
            continue
        kinds.append(v['name'])
    ctx.need(len(kinds) >= 3, f"IPv6-capable payload kinds (found {kinds})")
    fns = [('iface::packet::IpPayload', 'as_sixlowpan_next_header'), ('iface::interface::InterfaceInner', 'ipv6_to_sixlowpan')]
    for adt, fn in fns:
        b = F.method(adt, fn)
        if b is None:
            cands = [x for k, x in F.bodies.items() if k.endswith('::' + fn) and '::test' not in k]
            b = cands[0] if cands else None
        ctx.need(b is not None, f"{fn}")
        rets = set(b.return_blocks())
        for v in kinds:
            edges = []
            for bi, bl in enumerate(b.blocks):
                if bl['cl'] or bl['t'][0] != 'switch':
                    continue
                fs = [(tb, lab, f) for tb, lab, f in cond_facts(F, b, bi) if f[0] in ('is', 'isnot') and f[3] == IPP]
                if not fs:
                    continue
                hit = [(bi, tb, lab) for tb, lab, f in fs if f[0] == 'is' and f[2] == v]
                if not hit:
                    hit = [(bi, tb, lab) for tb, lab, f in fs if f[0] == 'isnot' and v not in f[2]]
                edges += hit
            if not edges:
                ctx.bad(f"{fn}|{v}|no-arm", f"{fn} does not discriminate the payload kind {v}", body=b)
                continue
            dead = [e for e in edges if not (rets & set(b.reachable(start=e[1])))]
            if dead:
                ctx.bad(f"{fn}|{v}|panics", f"{fn} ends in unreachable!()/todo!() for the payload kind {v}, which the stack sends over IPv6 (e.g. an MLD report in answer to a "
                        "query received on an IEEE 802.15.4 interface): Interface::poll panics when that packet is dispatched", body=b, bb=dead[0][1])
            else:
                ctx.ok((fn, v), sample=dict(fn=fn, kind=v, handled=True))


@rule('R04.8', ['C04', 'C01', 'C03'], floor=3, clause='remote_last_win, which the receiver shifts left by the window scale to find the right edge of its window, only ever holds a value in scaled units: scaled_window(), 0, or an unscaled SYN window shifted right by the scale')
def r04_8(ctx):
    """Value-shape rule on every store to remote_last_win.  Where the stored value is chosen by a test of the segment's control
    flag (`if repr.control == Syn { w >> shift } else { w }`), the alternatives are checked per branch, and a branch is charged
    with an unscaled window only if it is reachable from the place that put the unscaled value into the segment in the
    product of the CFG with the value of repr.control (trace partitioning on that one finite-domain variable)."""
    F = ctx.F
    SOCK = 'socket::tcp::Socket'
    TR = 'wire::tcp::Repr'
    sw = ctx.method(SOCK, 'scaled_window')
    ws = F.writers_of(SOCK, 'remote_last_win', kinds=('store',))
    ctx.need(len(ws) >= 3, "stores to tcp::Socket.remote_last_win")

    def flat(o):
        o = strip(o)
        if o[0] == 'phi':
            out = []
            for a in o[1]:
                out += flat(a)
            return out
        return [o]

    def unscaled(a):
        a0 = strip(a)
        while a0[0] == 'cast':
            a0 = strip(a0[1])
        if const_of(a0) == 0 or (a0[0] == 'call' and a0[1] == sw.key):
            return False
        if a0[0] == 'bin' and a0[1] == 'Shr' and any(l.endswith('.remote_win_shift') for l in leafs(a0[3])):
            return False
        if a0[0] == 'call' and a0[1].rsplit('::', 1)[-1] in ('shr', 'checked_shr', 'wrapping_shr') and any(l.endswith('.remote_win_shift') for l in leafs(a0)):
            return False
        return True
    for w in ws:
        b = F.body(w['fn'])
        fnm = w['fn'].rsplit('::', 1)[-1]
        o = simplify(store_origin(F, b, w))
        bad = [a for a in flat(o) if unscaled(a)]
        if bad and w['si'] != 'T':
            # per-branch evaluation of a conditionally chosen value
            st = b.blocks[w['bb']]['s'][w['si']]
            rv = st[2]
            tmp = rv[1][1][0] if rv[0] == 'use' and rv[1][0] in ('c', 'm') and rv[1][1][1] == [] else None
            defs = [d for d in b._all_defs().get(tmp, []) if d[3] == [] and d[2] == 'a'] if tmp is not None else []
            if len(defs) >= 2:
                srcs = [x['bb'] for x in F.field_writes() if x['fn'] == b.key and x['adt'] == TR and x['field'] == 'window_len' and x['kind'] == 'store'
                        and any(unscaled(a) for a in flat(simplify(store_origin(F, b, x))))]
                rl = [i for i, l in enumerate(b.locals) if l['ty'].startswith(TR) and l.get('name') == 'repr']
                still = []
                if srcs and rl:
                    from ..fdai import FDAI, run_split
                    r = run_split(FDAI(F), b, {}, (('l', rl[0]), (('f', 'control', TR, '-'),)))
                    seen = set(n for n in r.nodes if n[0] in srcs)
                    stack = list(seen)
                    while stack:
                        n = stack.pop()
                        for (m, lab) in r.edges.get(n, ()):
                            if m not in seen:
                                seen.add(m)
                                stack.append(m)
                    reach_bbs = {n[0] for n in seen}
                    for d in defs:
                        alts_d = flat(simplify(F.origin.rvalue(b, d[4], d[0], d[1], 0, None)))
                        if any(unscaled(a) for a in alts_d) and d[0] in reach_bbs:
                            still.append(d[0])
                    bad = bad if still else []
        if bad:
            ctx.bad(f"{fnm}|remote_last_win|unscaled", f"{fnm} records {show(bad[0])[:70]} in remote_last_win: an unscaled window (the SYN / SYN|ACK field) is later shifted left "
                    "by the window scale, so the receiver accepts data up to 2^shift times beyond the window it advertised - beyond the receive buffer itself for buffers over 64 KiB", body=b, bb=w['bb'])
        else:
            ctx.ok((fnm, 'remote_last_win', w['bb']), sample=dict(fn=fnm, stores=show(o)[:80]))




@rule('R03.11', ['C03', 'C11', 'C10'], floor=2, clause='a multicast report in answer to a group-specific query is scheduled only for the queried group itself and only when the interface is a member of it (a report for the unspecified address is asserted against in dispatch_ip)')
def r03_11(ctx):
    F = ctx.F
    n = 0
    for fn, st_adt in (('process_igmp', 'IgmpReportState'), ('process_mldv2', 'MldReportState')):
        cands = [b for k, b in F.bodies.items() if k.endswith('::' + fn) and '::test' not in k]
        if not cands:
            continue
        b = cands[0]
        hm = [k for k in F.bodies if k.endswith('InterfaceInner::has_multicast_group')]
        ctx.need(hm, "InterfaceInner::has_multicast_group")
        for bi, bl in enumerate(b.blocks):
            if bl['cl']:
                continue
            for si, s in enumerate(bl['s']):
                if not (s[0] == 'a' and s[2][0] == 'agg' and s[2][1].get('k') == 'adt' and str(s[2][1].get('adt', '')).endswith(st_adt)
                        and s[2][1].get('variant') == 'ToSpecificQuery'):
                    continue
                names = s[2][1].get('fnames') or []
                if 'group' not in names:
                    continue
                n += 1
                g = strip(simplify(F.origin.operand(b, s[2][2][names.index('group')], bi, si)))
                gl = leafs(g)

                def member(f, gl=gl):
                    if f[0] != 'bool' or f[2] is not True:
                        return False
                    c = strip(f[1])
                    if c[0] != 'call' or c[1] not in hm:
                        return False
                    al = set()
                    for a in c[2][1:]:
                        al |= leafs(a)
                    return bool(gl) and gl <= al and al - {x for x in al if x.startswith('C:')} <= gl | {x for x in al if x.startswith('C:')}
                if unguarded(F, b, [bi], member):
                    ctx.bad(f"{fn}|specific-report|not-member-of-that-group", f"{fn} schedules a report for group {show(g)[:50]} without having established that the interface "
                            "is a member of that very group (has_multicast_group on the same value): a crafted query makes the stack emit a report for an arbitrary - e.g. the "
                            "unspecified - address, which dispatch_ip asserts against", body=b, bb=bi)
                else:
                    ctx.ok((fn, 'specific-report'), sample=dict(fn=fn, group=show(g)[:40], guard='has_multicast_group(group)'))
    ctx.need(n >= 2, f"ToSpecificQuery report states (found {n})")


@rule('R03.12', ['C03', 'C16'], floor=1, clause='neighbor discovery messages are processed only on media that have link-layer addresses: process_ndisc (which parses the link-layer address options, unreachable!() for the IP medium) is called behind medium = Ethernet / IEEE 802.15.4')
def r03_12(ctx):
    F = ctx.F
    n = 0
    pn = [k for k in F.bodies if k.endswith('::process_ndisc') and '::test' not in k]
    ctx.need(pn, "InterfaceInner::process_ndisc")
    linked = lambda f: (f[0] == 'is' and f[3] == 'phy::Medium' and f[2] in ('Ethernet', 'Ieee802154')) or \
        (f[0] == 'isnot' and f[3] == 'phy::Medium' and 'Ip' in f[2])
    for k, b in sorted(F.bodies.items()):
        if '::test' in k or not (b.file or '').startswith('src/iface/'):
            continue
        sites = [x[0] for x in b.calls() if b.callee_name(x[1]) in pn]
        for sbb in sites:
            n += 1
            fnm = k.split('>::')[-1] if '>::' in k else k.rsplit('::', 1)[-1]
            if unguarded(F, b, [sbb], linked):
                ctx.bad(f"{fnm}|process_ndisc|ip-medium", f"{fnm} hands a neighbor discovery message to process_ndisc on a path that has not established an Ethernet / IEEE 802.15.4 "
                        "medium: on the IP medium a message with a link-layer address option reaches unreachable!() in RawHardwareAddress::parse and Interface::poll panics", body=b, bb=sbb)
            else:
                ctx.ok((fnm, 'process_ndisc', sbb), sample=dict(fn=fnm, guard='caps.medium is Ethernet | Ieee802154'))
    ctx.need(n >= 1, "calls of process_ndisc")


@rule('R04.9', ['C04', 'C05', 'C02'], floor=3, clause='what the socket believes it told the peer (last ACK number, last window, highest sequence sent) is recorded only after the segment was handed to the device: a failed emit leaves the advertised edge where the peer saw it')
def r04_9(ctx):
    F = ctx.F
    SOCK = 'socket::tcp::Socket'
    d = ctx.method(SOCK, 'dispatch')
    okc = lambda f: f[0] == 'is' and f[2] in ('Continue', 'Ok') and any(l.endswith('FnOnce::call_once') for l in leafs(f[1]) if l.startswith('C:'))
    ctx.need(guard_edges(F, d, okc), "the `emit(..)?` success edge in tcp::Socket::dispatch")
    ws = [w for w in F.field_writes() if w['fn'] == d.key and w['adt'] == SOCK and w['kind'] == 'store' and w['field'] in ('remote_last_ack', 'remote_last_win', 'remote_last_seq')]
    # only the stores that record the segment just built (values read from the segment representation); the retransmission
    # rewind `remote_last_seq = local_seq_no` is not a record of something sent
    ws = [w for w in ws if not is_field(simplify(store_origin(F, d, w)), SOCK, 'local_seq_no')]
    ctx.need(len(ws) >= 3, "stores of segment fields to remote_last_ack / remote_last_win / remote_last_seq in dispatch")
    for w in ws:
        if unguarded(F, d, [w['bb']], okc):
            ctx.bad(f"dispatch|{w['field']}|before-emit", f"tcp dispatch records {w['field']} although the segment may not have been sent (emit can fail: device exhausted, neighbour "
                    "unresolved): the socket then honours a window / acknowledgment the peer never saw", body=d, bb=w['bb'])
        else:
            ctx.ok(('dispatch', w['field'], w['bb']), sample=dict(field=w['field'], after='emit(..)?'))


@rule('R05.10', ['C05', 'C01', 'C17'], floor=3, clause='application data enters the transmit queue only in states in which it may still be sent (send_impl behind may_send()), and reset() empties both socket buffers: nothing queued after close() or under a previous connection is ever transmitted')
def r05_10(ctx):
    F = ctx.F
    SOCK = 'socket::tcp::Socket'
    si_ = ctx.method(SOCK, 'send_impl')
    ms = ctx.method(SOCK, 'may_send')
    sites = [x[0] for x in si_.calls() if isinstance(x[1], dict) and ((x[1].get('fn') or '').endswith('FnOnce::call_once') or (x[1].get('fn') or '').endswith('FnMut::call_mut'))]
    ctx.need(sites, "the enqueue callback call in tcp::Socket::send_impl")
    if unguarded(F, si_, sites, p_call(lambda n: n == ms.key, True)):
        ctx.bad("send_impl|enqueue-without-may_send", "send_impl lets the application queue data without may_send() being true: bytes written after close() are queued behind the FIN "
                "and transmitted with sequence numbers that already belong to it", body=si_, bb=sites[0])
    else:
        ctx.ok(('send_impl', 'may_send'), sample=dict(fn='send_impl', guard='may_send()'))
    rs = ctx.method(SOCK, 'reset')
    rb = 'storage::ring_buffer::RingBuffer'
    got = set()
    for x in rs.calls():
        nm = rs.callee_name(x[1]) or ''
        if nm.startswith(rb) and nm.endswith('::clear') and x[2]:
            o = F.origin.operand(rs, x[2][0], x[0], len(rs.blocks[x[0]]['s']))
            for l in leafs(o):
                if l.startswith(f"F:{SOCK}."):
                    got.add(l.rsplit('.', 1)[-1])
    seen = rs.reachable()
    for fld in ('tx_buffer', 'rx_buffer'):
        if fld in got:
            ctx.ok(('reset', fld), sample=dict(fn='reset', clears=fld))
        else:
            ctx.bad(f"reset|{fld}-not-cleared", f"tcp::Socket::reset does not clear {fld}: " + ("octets still queued when a connection ended abnormally are sent as the first data "
                    "of the next connection made with the same socket" if fld == 'tx_buffer' else "octets received under the previous connection are delivered to the next one"), body=rs)


# fields of a representation that emit() legitimately does not write itself (reviewed one by one)
_EMIT_FIELD_EXCEPTIONS = {
    ('wire::ipv6ext_header::Repr', 'data'): "the extension header's body is emitted by the caller behind the two octets this emit writes; header_len() does not include it",
    ('wire::mld::AddressRecordRepr', 'payload'): "source list / auxiliary data of a record are emitted by the caller; buffer_len() does not include them",
}


@rule('R06.14', ['C06'], floor=25, clause='emit reads every field of the representation it serialises: a field that parse fills but emit never looks at cannot survive emit-then-parse')
def r06_14(ctx):
    F = ctx.F
    n = 0
    for k, b in sorted(F.bodies.items()):
        if not k.startswith('wire::') or '::test' in k or k.rsplit('::', 1)[-1] != 'emit':
            continue
        adt = b.meta.get('impl_self')
        a = F.adts.get(adt) if adt else None
        if not a or not adt.endswith('Repr') or not in_scope_repr(F, adt):
            continue
        fam = [b] + list(F.closures_of(b.key))
        read = set()
        whole = False

        def scan(x):
            if isinstance(x, list):
                if x and x[0] == 'f' and len(x) >= 5 and x[3] == adt:
                    read.add((x[4], x[2]))
                for y in x:
                    scan(y)
            elif isinstance(x, dict):
                for y in x.values():
                    scan(y)
        for bb in fam:
            for bi_, bl in enumerate(bb.blocks):
                if bl['cl']:
                    continue
                for s in bl['s']:
                    scan(s)
                scan(bl['t'])
                t = bl['t']
                if t[0] == 'call' and bb is b and t[2] and ('Deref>::deref' in (bb.callee_name(t[1]) or '') or (bb.callee_name(t[1]) or '').endswith('Deref::deref')):
                    o = strip(F.origin.operand(bb, t[2][0], bi_, len(bl['s'])))
                    while o[0] in ('ref', 'deref') and len(o) == 2:
                        o = strip(o[1])
                    if o == ('arg', 1) or (o[0] == 'field' and o[1] == ('arg', 1) and not o[2]):
                        whole = True       # `self.0` reached through Deref (newtype wrappers such as UdpNhcRepr)
        allf = {((v['name'] if a['kind'] == 'enum' else '-'), f['name']) for v in a['variants'] for f in v['fields']}
        short = adt.split('wire::', 1)[1]
        for var, fld in sorted(allf):
            n += 1
            if (var, fld) in read or whole:
                ctx.ok((short, var, fld), sample=dict(repr=short, field=fld, read_by='emit'))
            elif (adt, fld) in _EMIT_FIELD_EXCEPTIONS:
                ctx.ok((short, var, fld, 'by-caller'), sample=dict(repr=short, field=fld, reason=_EMIT_FIELD_EXCEPTIONS[(adt, fld)]))
            else:
                ctx.bad(f"{short}|{fld}|never-emitted", f"{short}::emit never reads the field `{fld}`" + (f" of {var}" if var != '-' else '') + ": a representation obtained by parsing a "
                        "packet that carries it re-emits without it (and where buffer_len() counts it, the bytes reserved for it keep the previous buffer content)", body=b)
    ctx.need(n >= 25, f"representation fields (found {n})")


def in_scope_repr(F, adt):
    return not any(x in adt for x in ('::rpl::', '::ipsec', 'pretty_print'))


@rule('R13.11', ['C13', 'C02'], floor=1, clause='Interface::poll_at answers the earlier of the sockets\' deadline and the SLAAC deadline when both exist: the two are compared (min / an ordering test), neither simply takes precedence')
def r13_11(ctx):
    F = ctx.F
    IF = 'iface::interface::Interface'
    b = ctx.method(IF, 'poll_at')
    sl = [k for k in F.bodies if k.endswith('slaac::Slaac::poll_at')]
    ctx.need(sl, "Slaac::poll_at")
    uses = [x for x in b.calls() if b.callee_name(x[1]) in sl]
    if not uses:
        ctx.ok(('poll_at', 'no slaac in this configuration'))
        return
    is_slaac = lambda n: any(l == 'C:' + sl[0] for l in leafs(n))
    other = lambda n: any(l.startswith('C:') and ('socket' in l or 'Meta' in l or 'fold' in l or 'filter_map' in l or 'min' in l.rsplit('::', 1)[-1]) and l != 'C:' + sl[0] for l in leafs(n)) \
        or any(l.startswith('F:') and 'fragmenter' in l.lower() for l in leafs(n))
    ok = False
    for x in b.calls():
        nm = (b.callee_name(x[1]) or (x[1].get('fn') if isinstance(x[1], dict) else '') or '')
        if nm.rsplit('::', 1)[-1] == 'min' and len(x[2]) == 2:
            o0 = F.origin.operand(b, x[2][0], x[0], len(b.blocks[x[0]]['s']))
            o1 = F.origin.operand(b, x[2][1], x[0], len(b.blocks[x[0]]['s']))
            if (is_slaac(o0) and not is_slaac(o1)) or (is_slaac(o1) and not is_slaac(o0)):
                ok = True
    if not ok:
        for bi, bl in enumerate(b.blocks):
            if bl['cl'] or bl['t'][0] != 'switch':
                continue
            for tb, lab, f in cond_facts(F, b, bi):
                if f[0] == 'rel' and f[1] in ('Lt', 'Le', 'Gt', 'Ge') and ((is_slaac(f[2]) and not is_slaac(f[3])) or (is_slaac(f[3]) and not is_slaac(f[2]))):
                    ok = True
    if ok:
        ctx.ok(('poll_at', 'min(sockets, slaac)'), sample=dict(fn='Interface::poll_at', combines='min of the socket deadline and the SLAAC deadline'))
    else:
        ctx.bad("Interface::poll_at|slaac-not-compared", "Interface::poll_at never compares the SLAAC deadline with the sockets' deadline: with both present one of them simply wins, "
                "so a router solicitation / prefix expiry that is due earlier than every socket timer is not reported and the stack acts before the instant it announced", body=b, bb=uses[0][0])


@rule('R12.9', ['C12', 'C09'], floor=1, clause='the total size of a datagram under reassembly is computed from the last fragment as offset + (total length - header length), all three read from the received packet itself (a header with options is longer than the one the stack would emit)')
def r12_9(ctx):
    F = ctx.F
    PA = 'iface::fragmentation::PacketAssembler'
    sts = F.method(PA, 'set_total_size')
    ctx.need(sts is not None, "PacketAssembler::set_total_size")
    n = 0
    for k, b in sorted(F.bodies.items()):
        if '::test' in k or not k.endswith('::process_ipv4'):
            continue
        for x in b.calls():
            if b.callee_name(x[1]) != sts.key or len(x[2]) < 2:
                continue
            n += 1
            o = simplify(F.origin.operand(b, x[2][1], x[0], len(b.blocks[x[0]]['s'])))
            l, c = lin(o)
            sig = {}
            for a, v in l.items():
                a0 = strip(a)
                while a0[0] == 'cast':
                    a0 = strip(a0[1])
                nm = a0[1].rsplit('::', 1)[-1] if a0[0] == 'call' else show(a0)[:30]
                own = a0[0] == 'call' and a0[1].startswith('wire::ipv4::Packet')
                sig[(nm, own)] = sig.get((nm, own), 0) + v
            want = {('total_len', True): 1, ('header_len', True): -1, ('frag_offset', True): 1}
            if sig == want and c == 0:
                ctx.ok(('process_ipv4', 'total size'), sample=dict(fn='process_ipv4', total_size='frag_offset() + total_len() - header_len() of the received packet'))
            else:
                ctx.bad("process_ipv4|reassembly-total-size", f"process_ipv4 sets the reassembly total size to {show(o)[:90]}: expected frag_offset() + total_len() - header_len() of the "
                        "received packet - with another header length (e.g. the 20 octets the stack itself emits) a last fragment that carries IP options gives a total that is never reached", body=b, bb=x[0])
    ctx.need(n >= 1, "set_total_size call in process_ipv4")


@rule('R14.8', ['C14', 'C09'], floor=2, clause='both PacketBuffer enqueue entry points decide the wrap-around case by the same test: what is left at the start of the ring after padding out the tail (window - contiguous window) is compared with the requested size')
def r14_8(ctx):
    F = ctx.F
    PB = 'storage::packet_buffer::PacketBuffer'
    for fn in ('enqueue', 'enqueue_with_infallible'):
        b = ctx.method(PB, fn)
        found = False
        wrong = None
        for bi, bl in enumerate(b.blocks):
            if bl['cl'] or bl['t'][0] != 'switch':
                continue
            for tb, lab, f in cond_facts(F, b, bi):
                if f[0] != 'rel' or f[1] not in ('Lt', 'Le', 'Gt', 'Ge'):
                    continue
                for x, y in ((f[2], f[3]), (f[3], f[2])):
                    l, c = lin(simplify(x))
                    names = {}
                    for a, v in l.items():
                        a0 = strip(a)
                        if a0[0] == 'call':
                            names[a0[1].rsplit('::', 1)[-1]] = names.get(a0[1].rsplit('::', 1)[-1], 0) + v
                    if names.get('contiguous_window') == -1 and c == 0 and any(l_.startswith('A:') for l_ in leafs(y)):
                        if names == {'window': 1, 'contiguous_window': -1}:
                            found = True
                        else:
                            wrong = (bi, names)
        if found and not wrong:
            ctx.ok((fn, 'wrap-around test'), sample=dict(fn=fn, test='window() - contiguous_window() < size'))
        else:
            ctx.bad(f"{fn}|wrap-around-test", f"PacketBuffer::{fn} does not decide the wrap-around case by `window() - contiguous_window() < size`" +
                    (f" (it compares {wrong[1]})" if wrong else '') + ": a packet that does not fit at the start of the ring is admitted - padding is queued, a metadata slot is taken and "
                    "the caller is handed a slice shorter than it asked for", body=b, bb=wrong[0] if wrong else None)


@rule('R17.8', ['C17', 'C02'], floor=1, clause='an out-of-window RST changes nothing: in the branch for segments that are not acceptable, the TIME-WAIT timer is restarted only for segments whose control is not RST')
def r17_8(ctx):
    F = ctx.F
    SOCK = 'socket::tcp::Socket'
    TM = 'socket::tcp::Timer'
    b = ctx.method(SOCK, 'process')
    sfc = ctx.method(TM, 'set_for_close')
    # the acceptability flag, found by shape as in R17.4b: the bool local with most `= true` stores behind sequence/window tests
    from .r2b import _is_seg_start, _is_seg_end, _is_win_start, _is_win_end
    seqwin = lambda f: f[0] == 'rel' and ((_is_seg_start(f[2]) or _is_seg_end(f[2]) or _is_win_start(f[2]) or _is_win_end(f[2])) and
                                           (_is_seg_start(f[3]) or _is_seg_end(f[3]) or _is_win_start(f[3]) or _is_win_end(f[3])))
    behind = set()
    for (bi, tb, lab) in guard_edges(F, b, seqwin):
        behind |= set(b.reachable(start=tb))
    cand = {}
    for bi, bl in enumerate(b.blocks):
        if bl['cl']:
            continue
        for si, s in enumerate(bl['s']):
            if s[0] == 'a' and s[1][1] == [] and b.locals[s[1][0]]['ty'] == 'bool' and s[2][0] == 'use' and s[2][1][0] == 'k' and s[2][1][2] is True and bi in behind:
                cand.setdefault(s[1][0], []).append(bi)
    ctx.need(cand, "the segment-acceptability flag in tcp::Socket::process")
    L = max(cand, key=lambda l: len(cand[l]))
    sw = [x for x in bool_local_switches(b, L) if x[2] is not None]
    # the flag may be refined before it is tested (`let ok = ok && ..`): every bool local whose being true still implies a
    # sequence/window test counts as the acceptability flag
    G = derived_guard_edges(b, set(guard_edges(F, b, seqwin)), polarity=True, pred=seqwin)
    for l in range(b.nargs + 1, len(b.locals)):
        if b.locals[l]['ty'] == 'bool' and l != L:
            for x in bool_local_switches(b, l):
                if x[1] is not None and x[2] is not None and x[1] in G and x not in sw:
                    sw.append(x)
    ctx.need(sw, "test of the acceptability flag")
    notrst = lambda f: (f[0] == 'rel' and f[1] == 'Ne' and any('Control::Rst' in show(x) for x in (f[2], f[3]))) or \
        (f[0] == 'isnot' and f[3] == 'wire::tcp::Control' and 'Rst' in f[2]) or (f[0] == 'is' and f[3] == 'wire::tcp::Control' and f[2] != 'Rst')
    g = set(pass_edges(F, b, notrst))
    n = 0
    for (bi, tt, ft) in sw:
        start = ft[1]
        # stay inside the not-acceptable branch: stop at the blocks the acceptable branch also reaches
        acc = set(b.reachable(start=tt[1])) if tt else set()
        region = set(b.reachable(start=start, cut_blocks=acc))
        sites = [x[0] for x in b.calls() if b.callee_name(x[1]) == sfc.key and x[0] in region]
        for s_ in sites:
            n += 1
            if s_ in b.reachable(start=start, cut_edges=g, cut_blocks=acc):
                ctx.bad("process|out-of-window-rst|restarts-time-wait", "for a segment that is not acceptable the TIME-WAIT timer is restarted before it is known that the segment is "
                        "not a RST: stray or forged out-of-window RSTs keep a socket in TIME-WAIT for ever", body=b, bb=s_)
            else:
                ctx.ok(('process', 'time-wait restart', s_), sample=dict(fn='process', restart='only for control != RST'))
    ctx.need(n >= 1, "TIME-WAIT restart in the not-acceptable branch of tcp::Socket::process")


@rule('R16.10', ['C16', 'C11', 'C03'], floor=3, clause='neighbor discovery messages reach process_ndisc only with hop limit 255 (not forwarded by a router), and the neighbor cache entry of an IPv4 sender is refreshed only by a packet addressed to one of the interface\'s own unicast addresses')
def r16_10(ctx):
    F = ctx.F
    pn = [k for k in F.bodies if k.endswith('::process_ndisc') and '::test' not in k]
    ctx.need(pn, "InterfaceInner::process_ndisc")
    hl = lambda f: f[0] == 'rel' and f[1] == 'Eq' and any(l.endswith('.hop_limit') for l in leafs(f[2]) | leafs(f[3])) and 255 in (const_of(f[2]), const_of(f[3]))
    n = 0
    for k, b in sorted(F.bodies.items()):
        if '::test' in k or not (b.file or '').startswith('src/iface/'):
            continue
        for x in b.calls():
            if b.callee_name(x[1]) in pn:
                n += 1
                fnm = k.split('>::')[-1] if '>::' in k else k.rsplit('::', 1)[-1]
                if unguarded(F, b, [x[0]], hl):
                    ctx.bad(f"{fnm}|process_ndisc|hop-limit", f"{fnm} hands a neighbor discovery message to process_ndisc without hop_limit == 255: a solicitation / advertisement "
                            "forged off-link and routed in can fill the neighbor cache, and traffic is then framed to the forger's hardware address", body=b, bb=x[0])
                else:
                    ctx.ok((fnm, 'ndisc hop limit', x[0]), sample=dict(fn=fnm, guard='ip_repr.hop_limit == 255'))
    ctx.need(n >= 1, "calls of process_ndisc")
    nc = 'iface::neighbor::Cache'
    re_ = F.method(nc, 'reset_expiry_if_existing')
    uni = [k for k in F.bodies if k.endswith('::is_unicast_v4')]
    if re_ is not None and uni:
        for k, b in sorted(F.bodies.items()):
            if '::test' in k or not k.endswith('::process_ipv4'):
                continue
            sites = [x[0] for x in b.calls() if b.callee_name(x[1]) == re_.key]
            for s_ in sites:
                if unguarded(F, b, [s_], p_call(lambda n_: n_ in uni, True)):
                    ctx.bad("process_ipv4|neighbor-refresh|not-own-unicast", "process_ipv4 refreshes the sender's neighbor cache entry for a packet that is not addressed to one of the "
                            "interface's own unicast addresses (is_unicast_v4): subnet-directed broadcasts keep an entry alive past its lifetime without any re-resolution", body=b, bb=s_)
                else:
                    ctx.ok(('process_ipv4', 'neighbor refresh'), sample=dict(fn='process_ipv4', guard='self.is_unicast_v4(dst_addr)'))


@rule('R15.9', ['C15', 'C04'], floor=1, clause='Assembler::is_empty answers from the data of the leading range (not from its hole)')
def r15_9(ctx):
    F = ctx.F
    AS = 'storage::assembler::Assembler'
    CT = 'storage::assembler::Contig'
    b = ctx.method(AS, 'is_empty')
    r = expand(F, ret_origin(F, b), AS)
    ls = leafs(r)
    hd = any(l == f"F:{CT}.data_size" or l.endswith('::has_data') for l in ls)
    hh = any(l == f"F:{CT}.hole_size" or l.endswith('::has_hole') for l in ls)
    if hd and not hh:
        ctx.ok(('is_empty', 'data_size'), sample=dict(fn='Assembler::is_empty', answers_from='front().has_data()'))
    else:
        ctx.bad("Assembler::is_empty|not-from-data", f"Assembler::is_empty answers from {sorted(l for l in ls if l.startswith(('F:', 'C:')))[:4]}: a tracker whose leading range "
                "starts at offset 0 (no hole) is reported empty although it holds data", body=b)


@rule('R13.12', ['C13', 'C19', 'C02'], floor=3, clause='a poll_at answer is never the later of two deadlines: deadlines are combined with min, never with max')
def r13_12(ctx):
    F = ctx.F
    nmin = 0
    for k, b in sorted(F.bodies.items()):
        if '::test' in k or not (k.rsplit('::', 1)[-1] == 'poll_at' or 'poll_at::{closure' in k):
            continue
        for x in b.calls():
            c = x[1]
            nm = (b.callee_name(c) or (c.get('fn') if isinstance(c, dict) else '') or '')
            last = nm.rsplit('::', 1)[-1]
            ga = ' '.join(c.get('ga') or []) if isinstance(c, dict) else ''
            if last not in ('min', 'max') or not ('time::Instant' in ga or 'PollAt' in ga or 'time::Instant' in nm or 'PollAt' in nm):
                continue
            short = k.split('::', 1)[-1]
            if last == 'min':
                nmin += 1
                ctx.ok((short, 'min', x[0]), sample=dict(fn=short, combines='min'))
            else:
                ctx.bad(f"{short}|deadline-max", f"{short} combines two deadlines with max(): the earlier one (a retransmission that is due before the server time-out, a timer "
                        "that fires before another) is not reported, and the stack acts before the instant it announced", body=b, bb=x[0])
    ctx.need(nmin >= 3, f"min() combinations of deadlines in poll_at functions (found {nmin})")


@rule('R20.5', ['C20', 'C06', 'C12'], floor=2, clause='6LoWPAN: every fragmented datagram gets a fresh datagram tag (the tag counter advances each time one is taken), and IphcRepr::buffer_len() reserves an in-line hop-limit octet for exactly the hop limits that set_hop_limit() does not compress')
def r20_5(ctx):
    F = ctx.F
    II = 'iface::interface::InterfaceInner'
    cands = [b for k, b in F.bodies.items() if k.endswith('::get_sixlowpan_fragment_tag') and '::test' not in k]
    ctx.need(cands, "get_sixlowpan_fragment_tag")
    b = cands[0]
    mw = must_write_fields(F, b, II)
    if 'tag' not in mw:
        ctx.bad("get_sixlowpan_fragment_tag|tag-not-advanced", "get_sixlowpan_fragment_tag hands out the tag without advancing the counter: all fragmented datagrams of the interface carry "
                "the same tag, so fragments of two datagrams of equal size share a reassembly key and are mixed by the receiver", body=b)
    else:
        bi, si = mw['tag'][0]
        o = strip(simplify(F.origin.rvalue(b, b.blocks[bi]['s'][si][2], bi, si, 0, None))) if si != 'T' else strip(simplify(F.origin.call_node(b, b.blocks[bi]['t'], bi, 0, None)))
        okv = (o[0] == 'call' and o[1].rsplit('::', 1)[-1] in ('wrapping_add', 'add') and any(const_of(a) == 1 for a in o[2]) and any(l.endswith('.tag') for l in leafs(o))) or \
            (o[0] == 'bin' and o[1] == 'Add' and 1 in (const_of(o[2]), const_of(o[3])))
        if okv:
            ctx.ok(('fragment tag', 'advances'), sample=dict(fn='get_sixlowpan_fragment_tag', stores='tag.wrapping_add(1)'))
        else:
            ctx.bad("get_sixlowpan_fragment_tag|tag-step", f"get_sixlowpan_fragment_tag stores {show(o)[:60]} into the tag counter (expected tag + 1)", body=b, bb=bi)
    # hop limit: values with a zero-length encoding in buffer_len == values set_hop_limit maps to a compressed code
    IPHC = 'wire::sixlowpan::iphc::Packet'
    IR = 'wire::sixlowpan::iphc::Repr'
    shl = ctx.method(IPHC, 'set_hop_limit')
    bl_ = ctx.method(IR, 'buffer_len')

    def switch_vals(body, pred):
        out = None
        for bi, blk in enumerate(body.blocks):
            if blk['cl'] or blk['t'][0] != 'switch':
                continue
            d = simplify(F.origin.operand(body, blk['t'][1], bi, len(blk['s'])))
            if pred(d):
                vals = {int(v) for v, tb in blk['t'][2] if isinstance(v, int) or str(v).isdigit()}
                out = (out or set()) | vals
        return out
    wr = switch_vals(shl, lambda d: strip(d) == ('arg', 2))
    rd = switch_vals(bl_, lambda d: is_field(d, IR, 'hop_limit'))
    ctx.need(wr and rd, f"hop-limit tables (set_hop_limit {wr}, buffer_len {rd})")
    if wr == rd:
        ctx.ok(('iphc', 'hop-limit length table'), sample=dict(compressed_hop_limits=sorted(wr)))
    else:
        ctx.bad("iphc::Repr::buffer_len|hop-limit-table", f"IphcRepr::buffer_len() treats hop limits {sorted(rd)} as compressed while set_hop_limit() compresses {sorted(wr)}: for the others the "
                "declared header length and the emitted one differ by an octet, and everything behind the IPHC header is written / read at the wrong place", body=bl_)


@rule('R11.9', ['C11', 'C16', 'C10'], floor=1, clause='a destination counts as one of the interface\'s solicited-node groups only when it equals the solicited-node multicast address derived from one of the interface\'s addresses (all 128 bits: the ff02::1:ff00:0/104 prefix and the low 24 bits)')
def r11_9(ctx):
    F = ctx.F
    cands = [b for k, b in F.bodies.items() if k.endswith('::has_solicited_node') and '::test' not in k]
    ctx.need(cands, "InterfaceInner::has_solicited_node")
    b = cands[0]
    fam = [b] + list(F.closures_of(b.key))
    ls = set()
    for bb in fam:
        try:
            ls |= leafs(ret_origin(F, bb))
        except Exception:
            pass
        for bi, bl in enumerate(bb.blocks):
            if bl['cl'] or bl['t'][0] != 'switch':
                continue
            for tb, lab, f in cond_facts(F, bb, bi):
                for x in f[1:]:
                    if isinstance(x, tuple):
                        ls |= leafs(x)
    full = any(l.startswith('C:') and (l.endswith('::solicited_node') or l.endswith('::is_solicited_node_multicast')) for l in ls)
    if full:
        ctx.ok(('has_solicited_node', 'full address'), sample=dict(fn='has_solicited_node', compares='addr == own_address.solicited_node()'))
    else:
        ctx.bad("has_solicited_node|partial-compare", "has_solicited_node() decides from a few low-order octets only, without the solicited-node prefix: any destination - a foreign unicast "
                "address included - whose last octets equal those of one of our addresses is accepted as ours (and answered, with the foreign address as source)", body=b)


@rule('R17.9', ['C17', 'C05', 'C04'], floor=2, clause='a socket enters LISTEN only through reset(): both listen() and the return from an aborted handshake (RST in SYN-RECEIVED) start the next connection from re-initialised connection state (peer MSS, window scale, last ACK/window, timers)')
def r17_9(ctx):
    F = ctx.F
    SOCK = 'socket::tcp::Socket'
    rs = ctx.method(SOCK, 'reset')
    ss = ctx.method(SOCK, 'set_state')
    n = 0
    for fn in ('listen', 'process'):
        b = ctx.method(SOCK, fn)
        sites = []
        for x in b.calls():
            if b.callee_name(x[1]) == ss.key and len(x[2]) >= 2:
                o = strip(simplify(F.origin.operand(b, x[2][1], x[0], len(b.blocks[x[0]]['s']))))
                if o[0] == 'variant' and o[1].endswith('State::Listen'):
                    sites.append(x[0])
        for s_ in sites:
            n += 1
            resets = {x[0] for x in b.calls() if b.callee_name(x[1]) == rs.key}
            if s_ in b.reachable(cut_blocks=resets):
                ctx.bad(f"{fn}|listen-without-reset", f"tcp::Socket::{fn} puts the socket into LISTEN without reset(): what the aborted connection negotiated (peer MSS, window scale, "
                        "last ACK / window) is applied to the next peer - e.g. segments larger than the next peer's MSS", body=b, bb=s_)
            else:
                ctx.ok((fn, 'listen via reset', s_), sample=dict(fn=fn, enters='LISTEN', after='reset()'))
    ctx.need(n >= 2, f"transitions into LISTEN (found {n})")


@rule('R17.10', ['C17', 'C02', 'C01'], floor=2, clause='while the SYN may be unacknowledged, process() counts it: every state that an API call can reach from a SYN-unacknowledged state (without a segment arriving) is a state in which the acknowledgment accounting still includes the SYN')
def r17_10(ctx):
    from .c17 import extract_relation, STATE
    F = ctx.F
    SOCK = 'socket::tcp::Socket'
    b = ctx.method(SOCK, 'process')
    # the (sent_syn, sent_fin) table: constant bool pairs chosen by the first match on self.state
    table = {}
    states = F.variants(STATE)
    for bi, bl in enumerate(b.blocks):
        if bl['cl'] or bl['t'][0] != 'switch':
            continue
        fs = [(tb, lab, f) for tb, lab, f in cond_facts(F, b, bi) if f[0] in ('is', 'isnot') and f[3] == STATE and is_field(f[1], SOCK, 'state')]
        if not fs:
            continue
        for v in states:
            tgt = [tb for tb, lab, f in fs if f[0] == 'is' and f[2] == v] or [tb for tb, lab, f in fs if f[0] == 'isnot' and v not in f[2]]
            for tb in tgt[:1]:
                cur = tb
                for _ in range(4):
                    blk = b.blocks[cur]
                    for s in blk['s']:
                        if s[0] == 'a' and s[2][0] == 'agg' and s[2][1].get('k') == 'tuple' and len(s[2][2]) == 2 and all(o[0] == 'k' and isinstance(o[2], bool) for o in s[2][2]):
                            table.setdefault(v, (s[2][2][0][2], s[2][2][1][2]))
                    if v in table or blk['t'][0] != 'goto':
                        break
                    cur = blk['t'][1]
        if len(table) >= 6:
            break
    ctx.need(len(table) == len(states), f"(sent_syn, sent_fin) per state in tcp::Socket::process (found {table})")
    unacked = {v for v, (syn, fin) in table.items() if syn}
    ctx.need(unacked, "states in which the SYN counts as unacknowledged")
    rel = extract_relation(ctx, ['close', 'abort', 'listen', 'connect'])
    n = 0
    for (fn, frm, label, to), sites in sorted(rel.items(), key=str):
        if not frm or not to:
            continue
        for a in sorted(frm & unacked):
            for t_ in sorted(to):
                if t_ == a or t_ == 'Closed':
                    continue
                n += 1
                if t_ in unacked:
                    ctx.ok((fn, a, t_), sample=dict(api=fn, frm=a, to=t_, syn_still_counted=True))
                else:
                    ctx.bad(f"{fn}|{a}->{t_}|syn-forgotten", f"{fn}() moves a socket from {a} - where our SYN may still be unacknowledged - to {t_}, a state in which process() no longer counts "
                            f"the SYN (sent_syn = false): the peer's ACK of the SYN is then accounted as acknowledging the FIN, and the socket leaves {t_} although its FIN was never sent", body=ctx.method(SOCK, fn))
    for v in sorted(unacked):
        ctx.ok(('process', 'counts SYN in', v), sample=dict(state=v, sent_syn=True))


@rule('R06.15', ['C06', 'C10'], floor=8, clause='a representation whose encoded length is a constant has every one of those octets written by its emit (per kind of message): no octet of a fixed-size header is left to the previous buffer content')
def r06_15(ctx):
    from ..bitfield import setter_stores, Undecided
    from .c06 import _method_maps, in_scope
    F = ctx.F
    maps = _method_maps(F)
    n = 0
    for k, b in sorted(F.bodies.items()):
        if not k.startswith('wire::') or '::test' in k or k.rsplit('::', 1)[-1] != 'emit':
            continue
        R = b.meta.get('impl_self')
        a = F.adts.get(R) if R else None
        if not a or not R.endswith('Repr') or not in_scope(F, R) or not in_scope_repr(F, R):
            continue
        bl_ = F.method(R, 'buffer_len')
        if bl_ is None:
            continue
        variants = [v['name'] for v in a['variants']] if a['kind'] == 'enum' else [None]
        for v in variants:
            def under(body, v=v):
                if v is None:
                    return set(body.reachable())
                cut = set(guard_edges(F, body, lambda f: (f[0] == 'is' and leafs(f[1]) == {'A:1'} and f[3] == R and f[2] != v) or
                                      (f[0] == 'isnot' and leafs(f[1]) == {'A:1'} and f[3] == R and v in f[2])))
                return set(body.reachable(cut_edges=cut))
            vals = set()
            nonconst = False
            for bi in sorted(under(bl_)):
                for si, s in enumerate(bl_.blocks[bi]['s']):
                    if s[0] == 'a' and s[1] == [0, []]:
                        c = const_of(simplify(expand(F, F.origin.rvalue(bl_, s[2], bi, si, 0, None), '-')))
                        if c is None:
                            nonconst = True
                        else:
                            vals.add(c)
                t = bl_.blocks[bi]['t']
                if t[0] == 'call' and t[3] == [0, []]:
                    nonconst = True
            if nonconst or len(vals) != 1:
                continue
            N = vals.pop()
            if N <= 0 or N > 64:
                continue
            blocks = under(b)
            why = _unresolved_writes(F, b, blocks, maps)
            if why:
                ctx.note(f"{R.split('wire::', 1)[1]}{'::' + v if v else ''}: not decided ({why})")
                continue
            try:
                M = setter_stores(F, b, None, only_blocks=blocks, lenient=True, submaps=maps)
            except Undecided:
                continue
            if not M:
                continue
            n += 1
            short = R.split('wire::', 1)[1] + (f"::{v}" if v else '')
            missing = [i for i in range(N) if i not in M or all(x == ('b', i, j) for j, x in enumerate(M[i]))]
            if missing:
                ctx.bad(f"{short}|unwritten-octets|{missing[0]}", f"{short}: emit never writes octet(s) {missing[:6]} of the {N} octets buffer_len() declares: they keep what the buffer "
                        "contained before (the emitted bytes, and any checksum over them, depend on the previous buffer content)", body=b)
            else:
                ctx.ok((short, N), sample=dict(repr=short, octets=N, all_written=True))
    ctx.need(n >= 8, f"constant-length representations (found {n})")


def _unresolved_writes(F, b, blocks, maps):
    """reason (or None) why the may-define byte map of emit body `b` restricted to `blocks` would be incomplete: a write whose
    position is not a constant, a nested emit, a setter the bit evaluator has no map for, a checksum filled in by the caller"""
    from ..bitfield import _slice_of_buffer, WRITES
    views = set(wire_views_cached(F))
    for bi in sorted(blocks):
        bl = b.blocks[bi]
        t = bl['t']
        if bl['cl'] or t[0] != 'call':
            continue
        nm = b.callee_name(t[1]) or (t[1].get('fn') if isinstance(t[1], dict) else '') or ''
        last = nm.rsplit('::', 1)[-1]
        si = len(bl['s'])
        if last in WRITES or last in ('copy_from_slice', 'fill', 'clone_from_slice'):
            dst = F.origin.operand(b, t[2][0], bi, si) if t[2] else None
            if dst is not None and _slice_of_buffer(F, dst, None) is None:
                return f"{last} at a position that is not constant"
        elif last in ('emit', 'emit_header') and nm.startswith('wire::'):
            return f"nested {last}"
        else:
            cb = F.bodies.get(nm)
            if cb is not None and cb.meta.get('impl_self') in views and cb.nargs >= 1 and cb.locals[1]['ty'].startswith('&mut'):
                if not maps.get(nm):
                    return f"{last}() writes at positions the evaluator cannot resolve"
    return None


_WV = {}


def wire_views_cached(F):
    from ..wirelib import wire_views
    k = id(F)
    if k not in _WV:
        _WV[k] = wire_views(F)
    return _WV[k]


@rule('R02.14', ['C02', 'C01', 'C13'], floor=1, clause='when the peer window reopens, the zero-window-probe timer gives way to the idle timer only if nothing is in flight; with unacknowledged data outstanding a retransmission timer takes over')
def r02_14(ctx):
    F = ctx.F
    SOCK = 'socket::tcp::Socket'
    TM = 'socket::tcp::Timer'
    b = ctx.method(SOCK, 'process')
    sfi = ctx.method(TM, 'set_for_idle')
    izw = ctx.method(TM, 'is_zero_window_probe')
    sites = [x[0] for x in b.calls() if b.callee_name(x[1]) == sfi.key]
    stop = [s_ for s_ in sites if not unguarded(F, b, [s_], p_call(lambda n: n == izw.key, True))]
    ctx.need(stop, "the `stopping zero-window-probe timer` site in tcp::Socket::process")
    nothing_in_flight = lambda f: (f[0] == 'rel' and f[1] == 'Eq' and any(l.endswith('.remote_last_seq') for l in leafs(f[2]) | leafs(f[3])) and
                                   any(l.endswith('.local_seq_no') for l in leafs(f[2]) | leafs(f[3]))) or \
        (f[0] == 'bool' and f[2] is True and is_call(strip(f[1]), '::is_empty') and any(l.endswith('.tx_buffer') for l in leafs(f[1]))) or \
        (f[0] == 'rel' and f[1] == 'Eq' and any(l.endswith('::flight_size') for l in leafs(f[2]) | leafs(f[3]) if l.startswith('C:')) and 0 in (const_of(f[2]), const_of(f[3])))
    sfr = ctx.method(TM, 'set_for_retransmit')
    rblocks = {x[0] for x in b.calls() if b.callee_name(x[1]) == sfr.key}
    eq_edges = set(guard_edges(F, b, nothing_in_flight))
    for s_ in stop:
        t = b.blocks[s_]['t']
        # either the idle timer is only chosen when nothing is in flight, or it is replaced by a retransmission timer on every
        # continuation on which something is
        followed = t[4] is not None and not (set(b.return_blocks()) & set(b.reachable(start=t[4], cut_edges=eq_edges, cut_blocks=rblocks)))
        if unguarded(F, b, [s_], nothing_in_flight) and not followed:
            ctx.bad("process|zwp-stop|data-in-flight", "when a window update reopens the peer window, process() replaces the zero-window-probe timer by the idle timer without knowing that "
                    "nothing is in flight: segments sent before the window closed and still unacknowledged are never retransmitted, poll_at answers Ingress and the connection stalls", body=b, bb=s_)
        else:
            ctx.ok(('process', 'zwp-stop', s_), sample=dict(fn='process', idle_only_when='nothing in flight'))


@rule('R19.6', ['C19'], floor=1, clause='a response never rewrites the question of a pending query: PendingQuery.name is written only where the query is started (following a CNAME works on a copy), so a response that ends up dropped leaves the query asking for the name the application gave')
def r19_6(ctx):
    F = ctx.F
    PQ = 'socket::dns::PendingQuery'
    ws = [w for w in F.field_writes() if w['adt'] == PQ and w['field'] == 'name' and '::test' not in w['fn']]
    starters = [w for w in ws if 'start_query' in w['fn']]
    ctx.need(True, "")
    n = 0
    for w in ws:
        fnm = w['fn'].rsplit('::', 1)[-1]
        if 'start_query' in w['fn'] or fnm in ('new',):
            continue
        n += 1
        ctx.bad(f"{fnm}|pending-query-name-rewritten", f"dns::Socket::{fnm} writes PendingQuery.name ({w['kind']}): a CNAME in a response that is later dropped as malformed - or that simply is not "
                "the last word - redirects the still pending query: it retransmits with the CNAME target as its question and rejects genuine answers for the original name", body=F.body(w['fn']), bb=w['bb'])
    pqs = [k for k in F.bodies if k.startswith('socket::dns::Socket') and k.endswith('::process')]
    ctx.need(pqs, "dns::Socket::process")
    if n == 0:
        ctx.ok(('dns::process', 'question not rewritten'), sample=dict(fn='dns::Socket::process', writes_to_PendingQuery_name=0))


@rule('R14.9', ['C14', 'C09'], floor=2, clause='a refused PacketBuffer enqueue leaves both rings untouched: once a metadata slot or payload space has been taken (padding included), the call can no longer answer Err(Full)')
def r14_9(ctx):
    from .c14 import err_sites
    F = ctx.F
    PB = 'storage::packet_buffer::PacketBuffer'
    RB = 'storage::ring_buffer::RingBuffer'
    for fn in ('enqueue', 'enqueue_with_infallible'):
        b = ctx.method(PB, fn)
        errs = set(err_sites(b))
        ctx.need(errs, f"Err(Full) returns of PacketBuffer::{fn}")
        starts = []
        for x in b.calls():
            nm = b.callee_name(x[1]) or ''
            if nm.startswith(RB) and nm.rsplit('::', 1)[-1] in ('enqueue_many', 'enqueue_slice', 'enqueue_many_with') and x[4] is not None:
                starts.append((x[0], x[4]))
        took = lambda f: f[0] == 'is' and f[2] in ('Continue', 'Ok') and any(l.startswith('C:' + RB) and l.rsplit('::', 1)[-1].startswith('enqueue_one') for l in leafs(f[1]))
        for (bi, tb, lab) in guard_edges(F, b, took):
            starts.append((bi, tb))
        ctx.need(starts, f"ring mutations in PacketBuffer::{fn}")
        # Err edges of `metadata_ring.enqueue_one()?` are infeasible where a free slot is known: a small forward data-flow of
        # "free metadata slots >= L" (guards `!is_full()` -> 1, `window() >= 2` -> 2, each successful enqueue_one -> L - 1)
        infeasible = _infeasible_slot_errors(F, b, RB, PB)
        bad = None
        for (src, st) in starts:
            seen = set(b.reachable(start=st, cut_edges=infeasible))
            hit = sorted(errs & seen)
            if hit:
                bad = (src, hit[0])
                break
        if bad:
            ctx.bad(f"{fn}|mutation-before-err", f"PacketBuffer::{fn} can answer Err(Full) after it has already taken a metadata slot / payload space (the padding that wraps the ring "
                    "around needs a second metadata slot): the refused call leaves a padding record behind, space is lost and is_empty() turns false although no packet is queued",
                    body=b, bb=bad[1])
        else:
            ctx.ok((fn, 'refusal is effect-free'), sample=dict(fn=fn, err_after_mutation=False))


def _infeasible_slot_errors(F, b, RB, PB):
    """Break/Err edges of `metadata_ring.enqueue_one()?` that cannot be taken because a free metadata slot was established"""
    def on_meta(node):
        return any(l == f"F:{PB}.metadata_ring" for l in leafs(node))
    nb = len(b.blocks)
    IN = [None] * nb            # (L, guaranteed-flag of the last enqueue_one)
    IN[0] = (0, False)
    efacts = {}
    for bi, bl in enumerate(b.blocks):
        if bl['cl'] or bl['t'][0] != 'switch':
            continue
        for tb, lab, f in cond_facts(F, b, bi):
            efacts.setdefault((bi, tb, lab), []).append(f)
    work = [0]
    cut = set()
    while work:
        bi = work.pop()
        L, G = IN[bi]
        bl = b.blocks[bi]
        t = bl['t']
        if t[0] == 'call':
            nm = b.callee_name(t[1]) or ''
            if nm.startswith(RB) and nm.rsplit('::', 1)[-1] == 'enqueue_one' and t[2] and on_meta(F.origin.operand(b, t[2][0], bi, len(bl['s']))):
                G = L >= 1
                L = max(L - 1, 0)
        for tb, lab in b.succ_edges(bi):
            l2, g2 = L, G
            dead = False
            for f in efacts.get((bi, tb, lab), ()):
                if f[0] == 'bool' and f[2] is False and is_call(strip(f[1]), '::is_full') and on_meta(f[1]):
                    l2 = max(l2, 1)
                if f[0] == 'rel' and on_meta(f[2]) and is_call(strip(f[2]), '::window') and const_of(f[3]) is not None:
                    c = const_of(f[3])
                    if f[1] == 'Ge':
                        l2 = max(l2, min(c, 2))
                    elif f[1] == 'Gt':
                        l2 = max(l2, min(c + 1, 2))
                if f[0] == 'is' and f[2] in ('Break', 'Err') and g2 and any(l.startswith('C:' + RB) and l.endswith('::enqueue_one') for l in leafs(f[1])):
                    dead = True
            if dead:
                cut.add((bi, tb, lab))
                continue
            new = (l2, g2)
            old = IN[tb]
            if old is None:
                IN[tb] = new
                work.append(tb)
            else:
                m = (min(old[0], new[0]), old[1] and new[1])
                if m != old:
                    IN[tb] = m
                    work.append(tb)
    return cut


@rule('R09.9', ['C09', 'C02'], floor=1, clause='a datagram that has no route is not kept at the head of its socket\'s queue: the egress path tells "no route" (retrying cannot help) from "neighbour not yet resolved" (retry later), and only the latter leaves the packet queued')
def r09_9(ctx):
    F = ctx.F
    IF = 'iface::interface::Interface'
    se = ctx.method(IF, 'socket_egress')
    fam = [se] + list(F.closures_of(se.key))
    for c in list(fam):
        fam += [x for x in F.closures_of(c.key) if x not in fam]
    di = [k for k in F.bodies if k.endswith('InterfaceInner::dispatch_ip')]
    ctx.need(di, "InterfaceInner::dispatch_ip")
    callers = [b for b in fam if any(b.callee_name(x[1]) in di for x in b.calls())]
    ctx.need(callers, "the dispatch_ip call of Interface::socket_egress")
    DE = 'iface::interface::DispatchError'
    told = False
    for b in fam:
        for bi, bl in enumerate(b.blocks):
            if bl['cl'] or bl['t'][0] != 'switch':
                continue
            for tb, lab, f in cond_facts(F, b, bi):
                if f[0] in ('is', 'isnot') and f[3] == DE:
                    told = True
                if f[0] == 'rel' and f[1] in ('Eq', 'Ne') and any('DispatchError::NoRoute' in show(x) or 'DispatchError::NeighborPending' in show(x) for x in (f[2], f[3])):
                    told = True
    if told:
        ctx.ok(('socket_egress', 'NoRoute told apart'), sample=dict(fn='socket_egress', distinguishes='DispatchError::NoRoute / NeighborPending'))
    else:
        ctx.bad("socket_egress|no-route-kept-queued", "socket_egress maps every dispatch_ip error to the same retry-later outcome: a datagram whose destination has no route at all "
                "stays at the head of its socket's transmit queue for ever, and every datagram queued behind it - also for resolvable destinations - is never transmitted", body=callers[0])


@rule('R10.6', ['C10', 'C09', 'C11'], floor=1, clause='the source address of a UDP datagram is taken from the application-supplied metadata (local_address), or from the address the socket is bound to, only when that address is unicast and not one of the interface\'s broadcast addresses; otherwise the socket falls back to the interface\'s source address selection')
def r10_6(ctx):
    F = ctx.F
    U = 'socket::udp::Socket'
    d = ctx.method(U, 'dispatch')
    fam = [d] + list(F.closures_of(d.key))
    n = m = 0
    uni = lambda g: g[0] == 'bool' and g[2] is True and (is_call(strip(g[1]), '::is_unicast') or is_call(strip(g[1]), '::x_is_unicast'))
    # ... and not one of the interface's (subnet-directed) broadcast addresses, which is_unicast() cannot know
    notbc = lambda g: g[0] == 'bool' and g[2] is False and (is_call(strip(g[1]), '::is_broadcast') or is_call(strip(g[1]), '::is_broadcast_v4'))
    # the fall-back: any test of the bound endpoint address / call of the interface's source selection
    fallback = lambda g: g[0] in ('is', 'isnot') and any(l.endswith('.addr') and 'UdpMetadata' not in l and 'local_address' not in l for l in leafs(g[1]))
    from ..core import _holds_via_closure
    from ..wirelib import subst

    def safe(n, pred, depth=0):
        """Option-combinator form of the selection: is every Some(..) this expression can yield either filtered by a closure
        that implies pred, or the interface's own source selection?"""
        n = strip(n)
        if depth > 6:
            return False
        if n[0] == 'phi':
            return all(safe(a, pred, depth + 1) for a in n[1])
        if n[0] == 'variant' and n[1].endswith('Option::None'):
            return True
        if n[0] != 'call':
            return False
        last = n[1].rsplit('::', 1)[-1]
        if last == 'get_source_address':
            return True
        if 'Option' in n[1] and last == 'filter' and len(n[2]) == 2:
            return _holds_via_closure(F, ('is', n, 'Some', 'std::option::Option'), pred)
        if 'Option' in n[1] and last == 'or' and len(n[2]) == 2:
            return safe(n[2][0], pred, depth + 1) and safe(n[2][1], pred, depth + 1)
        if 'Option' in n[1] and last == 'or_else' and len(n[2]) == 2:
            clo = strip(n[2][1])
            if clo[0] != 'agg' or not str(clo[1]).startswith('closure:'):
                return False
            cb = F.bodies.get(clo[1][len('closure:'):])
            if cb is None or len(cb.blocks) > 40:
                return False
            return safe(n[2][0], pred, depth + 1) and safe(simplify(subst(ret_origin(F, cb), {1: clo})), pred, depth + 1)
        return False
    for b in fam:
        news = [x[0] for x in b.calls() if (b.callee_name(x[1]) or '').endswith('ip::Repr::new')]
        if not news:
            continue
        gsa = {x[0] for x in b.calls() if (b.callee_name(x[1]) or '').endswith('::get_source_address')}
        for bi, bl in enumerate(b.blocks):
            if bl['cl'] or bl['t'][0] != 'switch':
                continue
            for tb, lab, f in cond_facts(F, b, bi):
                if not (f[0] == 'is' and f[2] == 'Some' and any(l.endswith('UdpMetadata.local_address') for l in leafs(f[1]))):
                    continue
                n += 1
                if safe(f[1], uni) and safe(f[1], notbc):
                    m += 1          # the chain covers the bound address as well
                    ctx.ok(('udp::dispatch', 'metadata source is unicast'), sample=dict(fn='udp::Socket::dispatch', uses_local_address='Option chain: filter(usable).or_else(..)'))
                    continue
                unis = set(guard_edges(F, b, uni)) & set(guard_edges(F, b, notbc))
                cut = unis | set(guard_edges(F, b, fallback))
                seen = b.reachable(start=tb, cut_edges=cut, cut_blocks=gsa)
                if (bi, tb, lab) not in unis and any(s_ in seen for s_ in news):
                    ctx.bad("udp::dispatch|source-from-metadata-unchecked", "udp dispatch uses the application-supplied local_address as the IP source without checking that it is unicast: "
                            "an application that answers with the metadata of a datagram it received by broadcast / multicast (the usual echo idiom) transmits with that broadcast / "
                            "multicast address as source", body=b, bb=bi)
                else:
                    ctx.ok(('udp::dispatch', 'metadata source is unicast'), sample=dict(fn='udp::Socket::dispatch', uses_local_address='only if is_unicast() and not a broadcast address'))
            # the bound address: `Some(addr)` of endpoint.addr reaches IpRepr::new only behind the same two tests
            for tb, lab, f in cond_facts(F, b, bi):
                if not (f[0] == 'is' and f[2] == 'Some' and any(l.endswith('.addr') and 'UdpMetadata' not in l and 'local_address' not in l and 'ListenEndpoint' in l for l in leafs(f[1]))):
                    continue
                m += 1
                if safe(f[1], uni) and safe(f[1], notbc):
                    ctx.ok(('udp::dispatch', 'bound source is unicast'), sample=dict(fn='udp::Socket::dispatch', uses_bound_address='Option chain: filter(usable)'))
                    continue
                unis = set(guard_edges(F, b, uni)) & set(guard_edges(F, b, notbc))
                seen = b.reachable(start=tb, cut_edges=unis, cut_blocks=gsa)
                if (bi, tb, lab) not in unis and any(s_ in seen for s_ in news):
                    ctx.bad("udp::dispatch|source-from-bound-address-unchecked", "udp dispatch uses the address the socket is bound to as the IP source without checking that it is unicast "
                            "and not a broadcast address: a socket bound to a group address (224.0.0.251:5353) transmits with the multicast address as source", body=b, bb=bi)
                else:
                    ctx.ok(('udp::dispatch', 'bound source is unicast'), sample=dict(fn='udp::Socket::dispatch', uses_bound_address='only if is_unicast() and not a broadcast address'))
    ctx.need(n >= 1, "test of packet_meta.local_address in udp dispatch")
    ctx.need(m >= 1, "test of the bound address in udp dispatch")


@rule('R06.16', ['C06', 'C08', 'C10'], floor=4, clause='an emitter defines the same header bits whether or not it computes the checksum itself: with checksum generation switched off (offloaded) the checksum field and its flag bits are still written (zeroed), not left to the previous buffer content')
def r06_16(ctx):
    from ..bitfield import setter_stores, Undecided
    from .c06 import _method_maps, in_scope
    F = ctx.F
    maps = _method_maps(F)
    txm = F.method('phy::Checksum', 'tx')
    ctx.need(txm is not None, "phy::Checksum::tx")
    n = 0
    for k, b in sorted(F.bodies.items()):
        if not k.startswith('wire::') or '::test' in k or k.rsplit('::', 1)[-1] not in ('emit', 'emit_header'):
            continue
        if not in_scope_repr(F, k):
            continue
        on = set(guard_edges(F, b, p_call(lambda n_: n_ == txm.key, True)))
        off = set(guard_edges(F, b, p_call(lambda n_: n_ == txm.key, False)))
        if not on or not off:
            continue

        def defined(cut):
            blocks = set(b.reachable(cut_edges=cut))
            try:
                M = setter_stores(F, b, None, only_blocks=blocks, lenient=True, submaps=maps)
            except Undecided:
                return None
            return {(byte, i) for byte, bits in M.items() for i, x in enumerate(bits) if x != ('b', byte, i)}
        d_on, d_off = defined(off), defined(on)       # cut the opposite edges
        if d_on is None or d_off is None or not d_on:
            continue
        n += 1
        short = k.split('wire::', 1)[1]
        missing = sorted(d_on - d_off)
        if missing:
            ctx.bad(f"{short}|checksum-off-leaves-bits", f"{short}: with checksum generation off the emitter leaves byte/bit {missing[:6]} undefined that it writes when it computes the "
                    "checksum: the checksum field / its flag bit keep the previous buffer content instead of a consistent zero", body=b)
        else:
            ctx.ok((short, 'same bits either way'), sample=dict(emit=short, bits_defined=len(d_on)))
    ctx.need(n >= 4, f"emitters with a checksum capability switch (found {n})")


@rule('R08.10', ['C08', 'C06', 'C20'], floor=1, clause='the 6LoWPAN UDP emitter writes the checksum field and its "carried in-line" flag on every path - a consistent zero when checksum generation is switched off - as the plain UDP emitter does')
def r08_10(ctx):
    F = ctx.F
    b = ctx.method('wire::sixlowpan::nhc::UdpNhcRepr', 'emit')
    sc = F.method('wire::sixlowpan::nhc::UdpNhcPacket', 'set_checksum')
    ctx.need(sc is not None, "UdpNhcPacket::set_checksum")
    calls = {x[0] for x in b.calls() if b.callee_name(x[1]) == sc.key}
    ctx.need(calls, "set_checksum call in UdpNhcRepr::emit")
    seen = b.reachable(cut_blocks=calls)
    if any(r in seen for r in b.return_blocks()):
        ctx.bad("sixlowpan::nhc::UdpNhcRepr::emit|checksum-field-unwritten", "UdpNhcRepr::emit returns on a path (checksum generation off) without writing the checksum field or its C flag: "
                "header_len() reserves the two octets, which keep the previous buffer content, and a stale C bit makes the receiver read the header with the wrong layout", body=b)
    else:
        ctx.ok(('UdpNhcRepr::emit', 'checksum field always written'), sample=dict(fn='UdpNhcRepr::emit', writes='set_checksum on every path'))


@rule('R06.17', ['C06', 'C10'], floor=3, clause='the NDISC options whose length is rounded up to a multiple of 8 (link-layer address options, redirected header) are padded explicitly: behind the address / the quoted packet, the rest of the option is written (zeroed) by emit')
def r06_17(ctx):
    F = ctx.F
    R = 'wire::ndiscoption::Repr'
    em = ctx.method(R, 'emit')
    for v in ('SourceLinkLayerAddr', 'TargetLinkLayerAddr', 'RedirectedHeader'):
        cut = set(guard_edges(F, em, lambda f: (f[0] == 'is' and leafs(f[1]) == {'A:1'} and f[3] == R and f[2] != v) or
                              (f[0] == 'isnot' and leafs(f[1]) == {'A:1'} and f[3] == R and v in f[2])))
        blocks = set(em.reachable(cut_edges=cut))
        pads = []
        for x in em.calls():
            if x[0] not in blocks:
                continue
            nm = em.callee_name(x[1]) or ''
            if nm.rsplit('::', 1)[-1] == 'fill' and x[2]:
                o = F.origin.operand(em, x[2][0], x[0], len(em.blocks[x[0]]['s']))
                if any('buffer' in l for l in leafs(o)) and const_of(F.origin.operand(em, x[2][1], x[0], len(em.blocks[x[0]]['s']))) == 0:
                    pads.append(x[0])
        if pads:
            ctx.ok((v, 'padding zeroed'), sample=dict(option=v, pads='fill(0) behind the address'))
        else:
            ctx.bad(f"ndiscoption::Repr::{v}|padding-unwritten", f"ndiscoption::Repr::emit writes the {v} option's content but not the padding behind it (an 8-octet IEEE 802.15.4 address makes "
                    "the option 16 octets long, a quoted packet is rarely a multiple of 8): the last octets keep the previous buffer content (they are covered by the ICMPv6 checksum and go out on the wire)", body=em)


@rule('R05.12', ['C05', 'C04', 'C01'], floor=1, clause='the TCP option loop of the segment parser ends only at the end of the option area, at an end-of-list option or on a malformed option - and does end at an end-of-list option: an option of unknown kind is skipped, so MSS / window scale / SACK-permitted / timestamps placed behind it are still honoured, while padding behind the end-of-list is not read as options')
def r05_12(ctx):
    from ..loops import loops
    from ..wirelib import ok_sites
    F = ctx.F
    b = ctx.method('wire::tcp::Repr', 'parse')
    ls = loops(b)
    ctx.need(ls, "the option loop of tcp::Repr::parse")
    h, nodes, srcs = max(ls, key=lambda x: len(x[1]))
    oks = set(ok_sites(b))
    eol = set()
    for (bi, tb, lab) in guard_edges(F, b, lambda f: f[0] == 'is' and f[2] == 'EndOfList'):
        eol |= set(b.reachable(start=tb))
    n = 0
    for u in sorted(nodes):
        for v, lab in b.succ_edges(u):
            if v in nodes or b.blocks[v]['cl']:
                continue
            if b.blocks[v]['t'][0] == 'unreachable':
                continue
            n += 1
            efacts = [f for tb, lb, f in cond_facts(F, b, u) if tb == v and lb == lab] if b.blocks[u]['t'][0] == 'switch' else []
            if u == h or u in eol or any(f[0] == 'is' and f[2] == 'EndOfList' for f in efacts):
                ctx.ok(('tcp::Repr::parse', 'loop exit', u, v), sample=dict(exit='end of options / end-of-list'))
                continue
            # the loop test may sit a few blocks behind the header (`while !options.is_empty()`)
            t = b.blocks[u]['t']
            facts = [f for tb, lb, f in cond_facts(F, b, u)] if t[0] == 'switch' else []
            if any((f[0] == 'bool' and is_call(strip(f[1]), '::is_empty')) or (f[0] == 'rel' and any(strip(x)[0] == 'len' or is_call(strip(x), '::len') for x in (f[2], f[3]))) for f in facts):
                ctx.ok(('tcp::Repr::parse', 'loop exit', u), sample=dict(exit='option area exhausted'))
                continue
            if not (oks & set(b.reachable(start=v))):
                ctx.ok(('tcp::Repr::parse', 'loop exit', u), sample=dict(exit='malformed option -> Err'))
                continue
            ctx.bad("tcp::Repr::parse|option-loop-left-early", "the option loop of tcp::Repr::parse can be left for an option that is neither the end-of-list nor malformed (an unknown kind): "
                    "every option behind it - MSS, window scale, SACK-permitted, timestamps - is ignored, so e.g. the default MSS 536 is used against a peer that announced less", body=b, bb=u)
    ctx.need(n >= 1, "exits of the option loop")
    # converse: the end-of-list option does end the loop (what follows it is padding, not options)
    eol_edges = guard_edges(F, b, lambda f: f[0] == 'is' and f[2] == 'EndOfList')
    ctx.need(eol_edges, "the EndOfList arm of the option loop")
    for (bi, tb, lab) in eol_edges:
        if bi not in nodes:
            continue
        back = b.reachable(start=tb)
        if h in back:
            ctx.bad("tcp::Repr::parse|end-of-list-does-not-end", "after an end-of-list option the option loop of tcp::Repr::parse goes on: the padding octets behind it are parsed as options and can "
                    "replace the MSS / window scale the peer really announced", body=b, bb=bi)
        else:
            ctx.ok(('tcp::Repr::parse', 'EndOfList ends the loop'), sample=dict(arm='TcpOption::EndOfList', leaves='the option loop'))


@rule('R06.18', ['C06', 'C18'], floor=8, clause='DHCPv4: every optional field that emit turns into an option is counted by buffer_len() under a test of that same field (the two lists of options agree field by field)')
def r06_18(ctx):
    F = ctx.F
    R = 'wire::dhcpv4::Repr'
    em, bl_ = ctx.method(R, 'emit'), ctx.method(R, 'buffer_len')

    def tested(b):
        out = {}
        fam = [b] + list(F.closures_of(b.key))
        for bb in fam:
            for bi, blk in enumerate(bb.blocks):
                if blk['cl'] or blk['t'][0] != 'switch':
                    continue
                seen_here = set()
                for tb, lab, f in cond_facts(F, bb, bi):
                    subj = None
                    if f[0] in ('is', 'isnot') and f[3] == 'std::option::Option':
                        subj = f[1]
                    elif f[0] == 'bool' and is_call(strip(f[1]), '::is_some', '::is_none'):
                        subj = strip(f[1])[2][0]
                    if subj is None:
                        continue
                    for l in leafs(subj):
                        if l.startswith(f"F:{R}."):
                            seen_here.add(l.rsplit('.', 1)[-1])
                for fld in seen_here:
                    out[fld] = out.get(fld, 0) + 1
        return out
    te, tb_ = tested(em), tested(bl_)
    ctx.need(len(te) >= 8 and len(tb_) >= 8, f"optional fields tested by dhcpv4 emit / buffer_len (found {len(te)} / {len(tb_)})")
    for fld in sorted(set(te) | set(tb_)):
        if fld in te and fld not in tb_:
            ctx.bad(f"dhcpv4::Repr|{fld}|not-counted", f"dhcpv4::Repr::emit writes an option for `{fld}` but buffer_len() never tests that field: the declared length is short by the "
                    "option (emit fails or overruns) or, if another field is tested twice instead, too long (trailing bytes keep the previous buffer content)", body=bl_)
        elif fld in tb_ and fld not in te:
            ctx.bad(f"dhcpv4::Repr|{fld}|counted-not-emitted", f"dhcpv4::Repr::buffer_len() counts an option for `{fld}` that emit never writes", body=em)
        elif tb_[fld] != te[fld] and fld not in ('dns_servers',):
            ctx.bad(f"dhcpv4::Repr|{fld}|counted-{tb_[fld]}-times", f"dhcpv4::Repr::buffer_len() tests `{fld}` {tb_[fld]} time(s) while emit tests it {te[fld]} time(s): an option is "
                    "counted under the wrong field", body=bl_)
        else:
            ctx.ok(('dhcpv4', fld), sample=dict(field=fld, counted_and_emitted=True))


@rule('R05.11', ['C05', 'C02'], floor=1, clause='the zero-window-probe timer exists only while the peer window is closed: once process() has seen a non-zero window with that timer running, every continuation replaces it (idle or retransmission timer), so no 1-octet probe is forced into a window that is open')
def r05_11(ctx):
    F = ctx.F
    SOCK = 'socket::tcp::Socket'
    TM = 'socket::tcp::Timer'
    b = ctx.method(SOCK, 'process')
    izw = ctx.method(TM, 'is_zero_window_probe')
    repl = {x[0] for x in b.calls() if (b.callee_name(x[1]) or '') in {ctx.method(TM, m).key for m in ('set_for_idle', 'set_for_retransmit', 'set_for_close')}}
    edges = guard_edges(F, b, p_call(lambda n: n == izw.key, True))
    ctx.need(edges, "test of timer.is_zero_window_probe() in tcp::Socket::process")
    rets = set(b.return_blocks())
    for (bi, tb, lab) in edges:
        seen = set(b.reachable(start=tb, cut_blocks=repl))
        if rets & seen:
            ctx.bad("process|zwp-kept-with-open-window", "process() can return with the zero-window-probe timer still armed although the peer window is open (the timer is replaced only on "
                    "some continuations): when it fires, dispatch forces a 1-octet segment beyond what the open - but smaller than the flight - window allows", body=b, bb=bi)
        else:
            ctx.ok(('process', 'zwp replaced', bi), sample=dict(fn='process', when='window reopened with the probe timer armed', timer='idle or retransmit'))


@rule('R03.13', ['C03', 'C16'], floor=2, clause='synchronising the SLAAC state removes only IPv6 routes it installed itself: the retain() over the route table keeps every entry that is not an IPv6 route via an IPv6 router')
def r03_13(ctx):
    F = ctx.F
    cands = [b for k, b in F.bodies.items() if k.endswith('::sync_slaac_state') and '::test' not in k]
    if not cands:
        ctx.ok(('no slaac in this configuration',))
        return
    b = cands[0]
    fam = [b] + list(F.closures_of(b.key))
    for c in list(fam):
        fam += [y for y in F.closures_of(c.key) if y not in fam]
    n = 0
    for bb in fam:
        for x in bb.calls():
            nm = bb.callee_name(x[1]) or (x[1].get('fn') if isinstance(x[1], dict) else '') or ''
            if nm.rsplit('::', 1)[-1] != 'retain' or len(x[2]) != 2:
                continue
            o = strip(F.origin.operand(bb, x[2][1], x[0], len(bb.blocks[x[0]]['s'])))
            if o[0] != 'agg' or not str(o[1]).startswith('closure:'):
                continue
            cb = F.bodies.get(str(o[1])[len('closure:'):])
            if cb is None:
                continue
            n += 1
            v6 = lambda f: f[0] == 'is' and f[2] == 'Ipv6' and f[3] in ('wire::ip::Cidr', 'wire::ip::Address')
            drops = []
            for bi, bl in enumerate(cb.blocks):
                if bl['cl']:
                    continue
                for si, s in enumerate(bl['s']):
                    if s[0] == 'a' and s[1] == [0, []]:
                        if not (s[2][0] == 'use' and s[2][1][0] == 'k' and s[2][1][2] is True):
                            drops.append(bi)
                if bl['t'][0] == 'call' and bl['t'][3] == [0, []]:
                    drops.append(bi)
            bad = unguarded(F, cb, drops, v6) if drops else []
            if bad:
                ctx.bad("sync_slaac_state|retain-drops-foreign-routes", "the retain() in sync_slaac_state can drop a route that is not an IPv6 route via an IPv6 router: after a router "
                        "advertisement the statically configured IPv4 default route disappears and every reply to an off-link IPv4 peer is dropped for good", body=cb, bb=bad[0][0])
            else:
                ctx.ok(('sync_slaac_state', 'retain keeps foreign routes', n), sample=dict(fn='sync_slaac_state', drops='only (Ipv6 cidr, Ipv6 router) entries'))
    ctx.need(n >= 1, "retain() over the route table in sync_slaac_state")


@rule('R20.6', ['C20', 'C10'], floor=2, clause='6LoWPAN: the size of the later fragments is computed from the 125-octet frame limit minus the MAC header minus the FRAGN header (the 5-octet one, not the 4-octet FRAG1 header), and the ICMPv6 emitter on the 6LoWPAN egress is handed a view of exactly the message length (its checksum covers the view)')
def r20_6(ctx):
    F = ctx.F
    ws = [w for w in F.field_writes() if w['field'] == 'fragn_size' and w['kind'] == 'store' and 'dispatch_sixlowpan' in w['fn'] and '::test' not in w['fn']]
    ctx.need(ws, "store to SixlowpanFragmenter.fragn_size in dispatch_sixlowpan")
    for w in ws:
        b = F.body(w['fn'])
        o = simplify(store_origin(F, b, w))
        hdrs = []

        def walk(n):
            if not isinstance(n, tuple) or not n:
                return
            if n[0] == 'call' and n[1].endswith('sixlowpan::frag::Repr::buffer_len') and n[2]:
                a = strip(n[2][0])
                while a[0] in ('ref', 'deref') and len(a) == 2:
                    a = strip(a[1])
                hdrs.append(a[1].rsplit('::', 1)[-1] if a[0] == 'agg' else '?')
            for c in n[1:]:
                if isinstance(c, tuple):
                    if c and isinstance(c[0], str):
                        walk(c)
                    else:
                        for d in c:
                            walk(d)
        walk(o)
        has125 = any(const_of(x) == 125 for x in _consts(o))
        if hdrs == ['Fragment'] and has125:
            ctx.ok(('fragn_size', 'FRAGN header'), sample=dict(fragn_size='(125 - mac header - FRAGN header) / 8 * 8'))
        else:
            ctx.bad("dispatch_sixlowpan|fragn_size|wrong-header", f"dispatch_sixlowpan computes the size of the later fragments from the header(s) {hdrs or '?'} (expected the FRAGN header) "
                    "and 125: with the 4-octet FRAG1 header the later frames come out one octet too long - 126 octets with short MAC addresses, beyond the IEEE 802.15.4 frame limit", body=b, bb=w['bb'])
    cands = [b for k, b in F.bodies.items() if k.endswith('::ipv6_to_sixlowpan') and '::test' not in k]
    ctx.need(cands, "ipv6_to_sixlowpan")
    b = cands[0]
    n = 0
    for x in b.calls():
        nm = b.callee_name(x[1]) or ''
        if not nm.endswith('icmpv6::Repr::<\'a>::emit') and not (nm.startswith('wire::icmpv6::Repr') and nm.endswith('::emit')):
            continue
        n += 1
        # the packet view argument: Icmpv6Packet::new_unchecked(<slice>)
        bounded = False
        for a in x[2]:
            o = strip(F.origin.operand(b, a, x[0], len(b.blocks[x[0]]['s'])))
            for sub in _calls_in(o):
                if len(sub) > 2 and sub[1].rsplit('::', 1)[-1] in ('index_mut', 'index') and len(sub[2]) == 2:
                    rb = range_bounds(F, sub[2][1])
                    if rb and rb[0] in ('Range', 'RangeTo') and rb[2] is not None and any(l.endswith('::buffer_len') or l.endswith('.payload_len') for l in leafs(rb[2])):
                        bounded = True
        if bounded:
            ctx.ok(('ipv6_to_sixlowpan', 'icmpv6 view exact', x[0]), sample=dict(fn='ipv6_to_sixlowpan', view='buffer[..message length]'))
        else:
            ctx.bad("ipv6_to_sixlowpan|icmpv6-view-unbounded", "ipv6_to_sixlowpan hands the ICMPv6 emitter a view that is not cut to the message length: on the fragmentation path the view is "
                    "the whole fragmentation buffer, and the ICMPv6 checksum (which covers the view) is computed over stale bytes with the wrong pseudo-header length", body=b, bb=x[0])
    ctx.need(n >= 1, "ICMPv6 emit calls in ipv6_to_sixlowpan")


def _consts(n):
    out = []
    if isinstance(n, tuple) and n:
        if n[0] == 'const':
            out.append(n)
        for c in n[1:]:
            if isinstance(c, tuple):
                if c and isinstance(c[0], str):
                    out += _consts(c)
                else:
                    for d in c:
                        out += _consts(d)
    return out


def _calls_in(n):
    out = []
    if isinstance(n, tuple) and n:
        if n[0] == 'call':
            out.append(n)
        for c in n[1:]:
            if isinstance(c, tuple):
                if c and isinstance(c[0], str):
                    out += _calls_in(c)
                else:
                    for d in c:
                        out += _calls_in(d)
    return out


@rule('R04.10', ['C04', 'C01', 'C17'], floor=1, clause='nothing is received behind the peer\'s FIN: segment text is stored into the receive buffer only when no FIN had been received before this segment')
def r04_10(ctx):
    F = ctx.F
    SOCK = 'socket::tcp::Socket'
    RB = 'storage::ring_buffer::RingBuffer'
    b = ctx.method(SOCK, 'process')
    sites = [x[0] for x in b.calls() if (b.callee_name(x[1]) or '').startswith(RB) and (b.callee_name(x[1]) or '').rsplit('::', 1)[-1] in ('write_unallocated', 'enqueue_unallocated')]
    ctx.need(sites, "receive-buffer writes in tcp::Socket::process")
    nofin = lambda f: f[0] == 'bool' and f[2] is False and is_field(f[1], SOCK, 'rx_fin_received')
    bad = unguarded(F, b, sites, nofin)
    if bad:
        ctx.bad("process|data-after-fin", "process() stores segment text into the receive buffer without having established that the peer's FIN had not been received before: octets sent "
                "(or forged) behind the FIN are delivered to the application ahead of the end-of-stream indication", body=b, bb=bad[0][0])
    else:
        ctx.ok(('process', 'no data after FIN'), sample=dict(fn='process', guard='rx_fin_received was false when the segment arrived'))


@rule('R11.10', ['C11', 'C09'], floor=1, clause='a UDP socket that is not bound (its port is 0) matches no datagram: UdpRepr::parse answers Ok only for a non-zero destination port, or udp::Socket::accepts itself tests its own port against 0')
def r11_10(ctx):
    F = ctx.F
    p = ctx.method('wire::udp::Repr', 'parse')
    sites = [x[0] for x in agg_sites(p, 'std::result::Result', ['Ok'])]
    ctx.need(sites, "Ok(..) construction in udp::Repr::parse")
    nz = lambda f: f[0] == 'rel' and f[1] in ('Ne', 'Gt', 'Lt') and any(is_call(strip(x), '::dst_port') for x in (f[2], f[3])) and any(const_of(strip(y)) == 0 for y in (f[2], f[3]))
    bad = unguarded(F, p, sites, nz)
    if not bad:
        ctx.ok(('udp::Repr::parse', 'dst_port != 0'), sample=dict(fn='udp::Repr::parse', requires='dst_port() != 0'))
        return
    a = ctx.method('socket::udp::Socket', 'accepts')
    own = lambda f: f[0] == 'rel' and any(any(l.endswith('endpoint.port') for l in leafs(x)) for x in (f[2], f[3])) and any(const_of(strip(y)) == 0 for y in (f[2], f[3]))
    if guard_edges(F, a, own):
        ctx.ok(('udp::Socket::accepts', 'port != 0'), sample=dict(fn='udp::Socket::accepts', tests='endpoint.port against 0'))
        return
    ctx.bad("udp::Repr::parse|dst-port-zero", "udp::Repr::parse answers Ok for a datagram whose destination port is 0 and udp::Socket::accepts compares it with the socket's own port "
            "without excluding 0: every UDP socket that is not bound (never bound, or closed) receives such a datagram", body=p, bb=bad[0][0], path=bad[0][1])


@rule('R12.10', ['C12', 'C20', 'C09'], floor=2, clause='whether an oversize datagram fits the fragmentation buffer is decided on the length that is stored there (the IP datagram / the uncompressed 6LoWPAN size recorded as packet_len), not on a length that also counts link-layer framing')
def r12_10(ctx):
    F = ctx.F
    FR = 'iface::fragmentation::Fragmenter'
    n = 0
    for b in [ctx.method(IFI, 'dispatch_ip')] + [F.bodies[k] for k in F.bodies if k.endswith('::dispatch_sixlowpan')]:
        pl = [w for w in F.field_writes() if w['fn'] == b.key and w['kind'] == 'store' and w['adt'] == FR and w['field'] == 'packet_len']
        stored = [strip(simplify(store_origin(F, b, w))) for w in pl]
        stored = [s for s in stored if const_int(s) != 0]
        if not stored:
            continue
        rels = []
        for bi, bl in enumerate(b.blocks):
            if bl['cl'] or bl['t'][0] != 'switch':
                continue
            for tb, lab, f in cond_facts(F, b, bi):
                if f[0] != 'rel' or f[1] not in ('Lt', 'Ge', 'Le', 'Gt'):
                    continue
                for x, y in ((f[2], f[3]), (f[3], f[2])):
                    sx = strip(x)
                    if is_call(sx, '::len', nargs=1) and any(l.endswith('.buffer') for l in leafs(sx)) and not any(l.endswith('.buffer') for l in leafs(y)):
                        rels.append((bi, strip(simplify(y))))
        if not rels:
            continue
        n += 1
        short = b.key.rsplit('::', 1)[-1]
        for bi, other in rels:
            if any(_same_expr(other, s) for s in stored):
                ctx.ok((short, 'fits-test on packet_len'), sample=dict(fn=short, compares='frag.buffer.len()', with_=show(other)[:80]))
            else:
                ctx.bad(f"{short}|frag-fit-test-other-length", f"{short} decides whether the datagram fits the fragmentation buffer on `{show(other)[:90]}`, which is not the length it then stores there "
                        f"(packet_len = `{show(stored[0])[:90]}`): datagrams that fit are dropped silently, or one that does not fit is written past the buffer", body=b, bb=bi)
    ctx.need(n >= 2, "fits-the-buffer tests next to packet_len stores (dispatch_ip, dispatch_sixlowpan)")


@rule('R14.10', ['C14', 'C09'], floor=2, clause='PacketBuffer::is_empty / is_full answer from the ring that counts packets (the metadata ring): a queued packet with an empty payload occupies no payload space but is still a queued packet')
def r14_10(ctx):
    F = ctx.F
    PB = 'storage::packet_buffer::PacketBuffer'
    for nm in ('is_empty', 'is_full'):
        b = ctx.method(PB, nm)
        r = strip(simplify(ret_origin(F, b)))
        ls = leafs(r)
        meta = any(l.endswith('metadata_ring') or '.metadata_ring.' in l for l in ls)
        pay = any(l.endswith('payload_ring') or '.payload_ring.' in l for l in ls)
        if not meta and not pay:
            ctx.note(f"PacketBuffer::{nm}: answer is not a function of either ring ({show(r)[:80]}) - not decided")
            ctx.need(False, f"PacketBuffer::{nm} answering from a ring")
        if meta:
            ctx.ok((nm, 'metadata ring'), sample=dict(fn=f'PacketBuffer::{nm}', answers_from=show(r)[:80]))
        else:
            ctx.bad(f"PacketBuffer::{nm}|payload-ring-only", f"PacketBuffer::{nm} answers from the payload ring alone ({show(r)[:80]}): with zero-length packets queued (or padding in the payload ring) "
                    "the answer differs from the number of queued packets", body=b)


@rule('R13.13', ['C13', 'C16', 'C02'], floor=5, clause='every Interface entry point that is given the current time records it (inner.now = timestamp, or hands it to an entry point that does) before it does anything else: no timer, neighbor-cache or route decision is taken against the clock of an earlier call')
def r13_13(ctx):
    F = ctx.F
    IF = 'iface::interface::Interface'
    II = 'iface::interface::InterfaceInner'
    entries = {}
    for k, b in F.bodies.items():
        if not k.startswith(IF + '::') or '{closure' in k or k.count('::') != IF.count('::') + 1:
            continue
        targs = [i for i in range(1, b.nargs + 1) if b.locals[i]['ty'] == 'time::Instant']
        if targs and b.locals[1]['ty'].startswith('&mut ' + IF):
            entries[k] = (b, targs)
    ctx.need(len(entries) >= 5, f"Interface methods taking the current time (found {len(entries)})")
    good = {}

    def stores(b, targs):
        out = set()
        for w in F.field_writes():
            if w['fn'] == b.key and w['kind'] == 'store' and w['adt'] == II and w['field'] == 'now':
                o = strip(simplify(store_origin(F, b, w)))
                if o[0] == 'arg' and o[1] in targs:
                    out.add(w['bb'])
        return out
    for _ in range(3):
        for k, (b, targs) in entries.items():
            cut = stores(b, targs)
            for x in b.calls():
                cn = b.callee_name(x[1]) or ''
                if cn in good:
                    # delegates the same timestamp
                    args = [strip(simplify(F.origin.operand(b, a, x[0], len(b.blocks[x[0]]['s'])))) for a in x[2]]
                    if any(a[0] == 'arg' and a[1] in targs for a in args):
                        cut.add(x[0])
            seen = set() if 0 in cut else b.reachable(cut_blocks=cut)
            early = [x for x in b.calls() if x[0] in seen and x[0] not in cut and ((b.callee_name(x[1]) or '').startswith(('iface::', 'socket::', 'phy::', 'storage::')))]
            rets = [r for r in b.return_blocks() if r in seen and r not in cut]
            good[k] = not early and not rets
            entries[k] = (b, targs)
            b._r1313 = (early, rets)
    for k, (b, targs) in sorted(entries.items()):
        nm = k.rsplit('::', 1)[-1]
        if good[k]:
            ctx.ok((nm, 'records now first'), sample=dict(fn='Interface::' + nm, first='inner.now = timestamp'))
        else:
            early, rets = b._r1313
            bb = early[0][0] if early else rets[0]
            ctx.bad(f"Interface::{nm}|clock-not-recorded", f"Interface::{nm} can act (call into the stack / return) without first recording the timestamp it was given in inner.now: "
                    "timers, neighbor-cache expiry, route expiry and rate limits are then evaluated against the time of some earlier call", body=b, bb=bb)


@rule('R16.11', ['C16', 'C03'], floor=1, clause='the neighbor cache is consulted only for the next hop the routing decision produced: every Cache::lookup in lookup_hardware_addr is keyed by the result of route(), never by the raw destination')
def r16_11(ctx):
    F = ctx.F
    b = ctx.method(IFI, 'lookup_hardware_addr')
    n = 0
    for x in b.calls():
        cn = b.callee_name(x[1]) or ''
        if not cn.endswith('neighbor::Cache::lookup'):
            continue
        n += 1
        key = strip(simplify(F.origin.operand(b, x[2][1], x[0], len(b.blocks[x[0]]['s']))))

        def routed(nd):
            nd = strip(nd)
            if nd[0] == 'phi':
                return all(routed(a) for a in nd[1])
            return any(c[0] == 'call' and c[1].endswith('InterfaceInner::route') for c in _calls_in(nd))
        if routed(key):
            ctx.ok(('lookup_hardware_addr', 'cache keyed by route()'), sample=dict(call='neighbor_cache.lookup', key=show(key)[:90]))
        else:
            ctx.bad("lookup_hardware_addr|cache-before-route", f"lookup_hardware_addr consults the neighbor cache with `{show(key)[:90]}`, which is not (on every path) the next hop chosen by route(): "
                    "a cached entry for an off-link address (learned from a packet that address sent on this link) bypasses the gateway of the matching route", body=b, bb=x[0])
    ctx.need(n >= 1, "neighbor_cache.lookup in lookup_hardware_addr")


@rule('R18.10', ['C18', 'C13'], floor=6, clause='the lease instants the client keeps are exactly the ones parse_ack computed from the most recent ACK: renew_at, rebind_at and expires_at are stored (in the Requesting and in the Renewing arm) as the corresponding element of parse_ack\'s answer, not combined with what an earlier lease left behind')
def r18_10(ctx):
    F = ctx.F
    D = 'socket::dhcpv4::Socket'
    RS = 'socket::dhcpv4::RenewState'
    b = ctx.method(D, 'process')
    idx = {'renew_at': '1', 'rebind_at': '2', 'expires_at': '3'}

    def judge(fld, o, bb):
        o = strip(simplify(o))
        okp = o[0] == 'proj' and is_call(o[1], '::parse_ack') and [e[1] for e in o[2] if e[0] == 'f'][-1:] == [idx[fld]]
        if okp:
            ctx.ok(('process', fld, bb), sample=dict(field=fld, stored=f"parse_ack(..).{idx[fld]}"))
        else:
            ctx.bad(f"dhcpv4::process|{fld}|not-the-acked-value", f"dhcpv4 process() stores `{show(o)[:100]}` as {fld} instead of the value parse_ack computed from this ACK: "
                    "the lease kept differs from the one the most recent ACK granted (an address can be reported past its lease, or renewal happen at the wrong time)", body=b, bb=bb)
    n = 0
    for w in F.field_writes():
        if w['fn'] == b.key and w['kind'] == 'store' and w['adt'] == RS and w['field'] in idx:
            n += 1
            judge(w['field'], store_origin(F, b, w), w['bb'])
    for bi, si, var in agg_sites(b, RS):
        s = b.blocks[bi]['s'][si]
        names = s[2][1].get('fnames') or []
        ops = s[2][2]
        ctx.need(len(names) == len(ops), "field names of the RenewState aggregate")
        for i, op in enumerate(ops):
            nm = names[i]
            if nm in idx:
                n += 1
                judge(nm, F.origin.operand(b, op, bi, si), bi)
    ctx.need(n >= 6, f"stores of the three lease instants in dhcpv4 process() (found {n})")


@rule('R13.14', ['C13', 'C16'], floor=1, clause='Meta::neighbor_missing starts a fresh back-off on every call: on every path it stores NeighborState::Waiting with silent_until = the timestamp it was given plus a positive constant (an early return would leave an already expired silence in place and poll_at would keep answering a past instant)')
def r13_14(ctx):
    F = ctx.F
    M = 'iface::socket_meta::Meta'
    NS = 'iface::socket_meta::NeighborState'
    b = ctx.method(M, 'neighbor_missing')
    good = set()
    for bi, si, var in agg_sites(b, NS, ['Waiting']):
        s = b.blocks[bi]['s'][si]
        names = s[2][1].get('fnames') or []
        ctx.need('silent_until' in names, "field names of NeighborState::Waiting")
        o = strip(simplify(F.origin.operand(b, s[2][2][names.index('silent_until')], bi, si)))
        ls = leafs(o)
        if 'A:2' in ls and not any(l.startswith('F:') for l in ls):
            # the aggregate must be what is stored into self.neighbor_state
            good.add(bi)
    ws = {w['bb'] for w in F.field_writes() if w['fn'] == b.key and w['kind'] == 'store' and w['adt'] == M and w['field'] == 'neighbor_state'}
    ctx.need(ws, "store to Meta.neighbor_state in neighbor_missing")
    cut = {w for w in ws if any(g in b.reachable(cut_blocks={w}) or g == w for g in good)} if good else set()
    seen = b.reachable(cut_blocks=cut) if 0 not in cut else set()
    rets = [r for r in b.return_blocks() if r in seen and r not in cut]
    if good and not rets:
        ctx.ok(('neighbor_missing', 'always re-arms'), sample=dict(fn='Meta::neighbor_missing', stores='Waiting { silent_until: timestamp + DISCOVERY_SILENT_TIME }', on='every path'))
    else:
        ctx.bad("Meta::neighbor_missing|back-off-not-rearmed", "Meta::neighbor_missing can return without storing a fresh silence interval computed from its timestamp: once the previous "
                "silence has run out, the socket's poll_at keeps answering an instant in the past while the neighbor cache's own rate limit lets nothing be sent - the event loop spins",
                body=b, bb=(rets or [0])[0])


@rule('R20.7', ['C20', 'C06'], floor=1, clause='6LoWPAN IPHC elides the upper 64 bits of an address only when they are exactly fe80::/64 - the prefix the decompressor puts back: AddressExt::is_link_local (the test the compressor uses) compares all of the first eight octets with fe80:0:0:0')
def r20_7(ctx):
    F = ctx.F
    ks = [k for k in F.bodies if k.endswith('wire::ipv6::AddressExt>::is_link_local')]
    ctx.need(ks, "AddressExt::is_link_local")
    b = F.bodies[ks[0]]
    users = [k for k, ub in F.bodies.items() if 'sixlowpan::iphc' in k and any((ub.callee_name(x[1]) or '') == ks[0] for x in ub.calls())]
    ctx.need(len(users) >= 2, "is_link_local() tests in the IPHC compressor")
    r = strip(simplify(ret_origin(F, b)))
    verdict = None
    if r[0] == 'call' and r[1].endswith('::eq') and len(r[2]) == 2:
        for x, y in ((r[2][0], r[2][1]), (r[2][1], r[2][0])):
            x, y = strip(x), strip(y)
            if y[0] == 'agg' and y[1] == 'array' and is_call(x, '::index') and len(x[2]) == 2:
                src, rng = strip(x[2][0]), strip(x[2][1])
                consts = [const_of(c) for c in y[2]]
                width = 8 if is_call(src, '::octets') else 16 if is_call(src, '::segments') else None
                if width is None or None in consts or not (rng[0] == 'agg' and 'Range' in rng[1]):
                    continue
                bounds = [const_of(c) for c in rng[2]]
                want = [0xfe, 0x80, 0, 0, 0, 0, 0, 0] if width == 8 else [0xfe80, 0, 0, 0]
                verdict = bounds == [0, len(want)] and consts == want
    if verdict is None and any(n[1].endswith('is_unicast_link_local') for n in _calls_in(r)):
        verdict = False
    ctx.need(verdict is not None, f"is_link_local as a comparison of the leading octets with a constant prefix (found `{show(r)[:80]}`)")
    if verdict:
        ctx.ok(('is_link_local', 'fe80::/64'), sample=dict(fn='AddressExt::is_link_local', tests='octets()[0..8] == fe80:0:0:0', used_by=len(users)))
    else:
        ctx.bad("ipv6::is_link_local|not-the-elided-prefix", f"AddressExt::is_link_local answers `{show(r)[:90]}`, which holds for addresses whose first 64 bits are not fe80:0:0:0; the IPHC compressor "
                "elides those 64 bits on that answer and the decompressor rebuilds fe80::<iid>: the datagram arrives with a different address", body=b)


def _rforms(n):
    """value of a Duration expression as ('min'|'max'|'one', [linear forms]); a linear form is {atom: Fraction}
    (constant under the key 1); integer division is treated as exact (callers use it only in the direction where
    rounding down helps or does not matter).  None = not understood."""
    from fractions import Fraction
    n = strip(n)

    def comb(a, b, sb):
        out = {}
        for k, v in a.items():
            out[k] = out.get(k, 0) + v
        for k, v in b.items():
            out[k] = out.get(k, 0) + sb * v
        return {k: v for k, v in out.items() if v != 0}
    if n[0] == 'call':
        nm = n[1]
        args = [strip(a) for a in n[2]]
        if re.search(r'ops::(Add|Sub)(<[^>]*>)?>::(add|sub)$', nm):
            a, b = _rforms(args[0]), _rforms(args[1])
            if a is None or b is None:
                return None
            sb = 1 if nm.endswith('::add') else -1
            if b[0] != 'one':
                bk = b[0] if sb == 1 else ('max' if b[0] == 'min' else 'min')
            else:
                bk = 'one'
            kinds = {a[0], bk} - {'one'}
            if len(kinds) > 1:
                return None
            return ((kinds or {'one'}).pop(), [comb(x, y, sb) for x in a[1] for y in b[1]])
        if ('ops::Mul<' in nm and nm.endswith('::mul')) or ('ops::Div<' in nm and nm.endswith('::div')):
            a, c = _rforms(args[0]), const_of(args[1])
            if a is None or not c or c < 0:
                return None
            f = Fraction(c) if nm.endswith('::mul') else Fraction(1, c)
            return (a[0], [{k: v * f for k, v in x.items()} for x in a[1]])
        if nm.endswith('Ord::min') or nm.endswith('Ord::max'):
            a, b = _rforms(args[0]), _rforms(args[1])
            kind = 'min' if nm.endswith('min') else 'max'
            if a is None or b is None or {a[0], b[0]} - {'one', kind}:
                return None
            return (kind, a[1] + b[1])
    c = const_of(n)
    if c is not None:
        return ('one', [{1: Fraction(c)}] if c else [{}])
    return ('one', [{n: Fraction(1)}])


def _in_cone(goal, gens):
    """is `goal` a non-negative combination of the generator forms?  (exact, Caratheodory over subsets)"""
    from fractions import Fraction
    from itertools import combinations
    keys = sorted({k for g in gens + [goal] for k in g}, key=repr)
    if not any(goal.values()):
        return True
    vec = lambda f: [Fraction(f.get(k, 0)) for k in keys]
    gv = [vec(g) for g in gens]
    t = vec(goal)
    for r in range(1, min(len(keys), len(gens)) + 1):
        for sub in combinations(range(len(gens)), r):
            # solve sum lam_i * gv[sub_i] = t
            m = [[gv[i][row] for i in sub] + [t[row]] for row in range(len(keys))]
            piv = []
            rr = 0
            for col in range(r):
                p = next((q for q in range(rr, len(m)) if m[q][col] != 0), None)
                if p is None:
                    break
                m[rr], m[p] = m[p], m[rr]
                pv = m[rr][col]
                m[rr] = [x / pv for x in m[rr]]
                for q in range(len(m)):
                    if q != rr and m[q][col] != 0:
                        fq = m[q][col]
                        m[q] = [x - fq * y for x, y in zip(m[q], m[rr])]
                piv.append(col)
                rr += 1
            else:
                if all(all(x == 0 for x in row[:-1]) and row[-1] == 0 for row in m[rr:]) and all(m[i][-1] >= 0 for i in range(rr)):
                    return True
    return False


@rule('R18.11', ['C18', 'C13'], floor=4, clause='renewal comes before rebinding before expiry whatever the server sends: for every way parse_ack chooses (T1, T2) - both options, one of them, neither - T1 <= T2 <= lease follows from the tests on that path (shown by exact linear arithmetic over the option values)')
def r18_11(ctx):
    F = ctx.F
    D = 'socket::dhcpv4::Socket'
    pa = ctx.method(D, 'parse_ack')
    b, actual = dhcp_t12_body(F, pa)
    r = simplify(ret_origin(F, pa))
    tup = None
    for a in alts(r):
        if a[0] == 'agg' and a[1].endswith('Option::Some') and a[2] and strip(a[2][0])[0] == 'agg':
            tup = strip(a[2][0])
    ctx.need(tup is not None and len(tup[2]) == 4, "parse_ack returns Some((config, renew_at, rebind_at, expires_at))")
    exp = _rforms(strip(tup[2][3]))
    ctx.need(exp is not None and exp[0] == 'one' and len(exp[1][0]) == 2, "expires_at = now + lease")
    lease = [k for k in exp[1][0] if not (isinstance(k, tuple) and k[0] == 'arg')]
    ctx.need(len(lease) == 1, "the lease term of expires_at")
    L = {lease[0]: 1}
    if actual:
        # the choice is made in a helper: there the lease is the parameter it was passed as
        ks = [k for k, o in actual.items() if strip(o) == lease[0]]
        ctx.need(len(ks) == 1, "the lease duration among the arguments of the (T1, T2) helper")
        L = {('arg', ks[0]): 1}
    # hypotheses per switch edge
    hyps = []
    for bi, bl in enumerate(b.blocks):
        if bl['cl'] or bl['t'][0] != 'switch':
            continue
        for tb, lab, f in cond_facts(F, b, bi):
            if f[0] == 'rel' and f[1] in ('Lt', 'Le', 'Gt', 'Ge'):
                x, y = _rforms(simplify(f[2])), _rforms(simplify(f[3]))
                if x and y and x[0] == y[0] == 'one':
                    lo, hi = (x[1][0], y[1][0]) if f[1] in ('Lt', 'Le') else (y[1][0], x[1][0])
                    h = dict(hi)
                    for k, v in lo.items():
                        h[k] = h.get(k, 0) - v
                    hyps.append(((bi, tb, lab), {k: v for k, v in h.items() if v != 0}))
    n = 0
    for bi, bl in enumerate(b.blocks):
        if bl['cl']:
            continue
        for si, s in enumerate(bl['s']):
            if not (s[0] == 'a' and s[2][0] == 'agg' and s[2][1].get('k') == 'tuple' and len(s[2][2]) == 2):
                continue
            if not all(is_place_op(o) and b.locals[o[1][0]]['ty'] == 'time::Duration' for o in s[2][2]):
                continue
            n += 1
            t1 = _rforms(simplify(F.origin.operand(b, s[2][2][0], bi, si)))
            t2 = _rforms(simplify(F.origin.operand(b, s[2][2][1], bi, si)))
            if t1 is None or t2 is None:
                ctx.need(False, f"(T1, T2) at line {b.block_line(bi)} as linear arithmetic over the option values")
            here = [h for e, h in hyps if bi not in b.reachable(cut_edges={e})]
            atoms = {k for f_ in t1[1] + t2[1] + [L] + here for k in f_ if k != 1}
            gens = here + [{a: 1} for a in atoms] + [{1: 1}]

            def ge(hi, lo):
                """hi >= lo, hi/lo = (kind, forms)"""
                def diff(x, y):
                    d = dict(x)
                    for k, v in y.items():
                        d[k] = d.get(k, 0) - v
                    return {k: v for k, v in d.items() if v != 0}
                # hi = min(..) needs all, hi = max(..) any; lo = min(..) any, lo = max(..) all
                qh = all if hi[0] in ('min', 'one') else any
                ql = all if lo[0] in ('max', 'one') else any
                return qh(ql(_in_cone(diff(x, y), gens) for y in lo[1]) for x in hi[1])
            c1, c2 = ge(t2, t1), ge(('one', [L]), t2)
            if c1 and c2:
                ctx.ok(('parse_ack', 'T1<=T2<=lease', bi), sample=dict(line=b.block_line(bi), shown='T1 <= T2 <= lease', from_tests=len(here)))
            else:
                what = 'T2 >= T1' if not c1 else 'T2 <= lease'
                ctx.bad(f"parse_ack|timer-order|{'t1-t2' if not c1 else 't2-lease'}", f"parse_ack chooses (T1, T2) at line {b.block_line(bi)} such that {what} does not follow from the tests on that path: "
                        "rebinding can be scheduled before renewal (poll_at then reports an instant at which nothing is sent) or after the lease has run out", body=b, bb=bi)
    ctx.need(n >= 4, f"(T1, T2) choices in parse_ack (found {n})")


def _lin_c(F, node):
    """linear form of an index expression with calls of constant-returning functions folded: ({atom: coef}, const)"""
    def fold(n):
        if not isinstance(n, tuple) or not n:
            return n
        if n[0] == 'call':
            cb = F.bodies.get(n[1])
            c = cb.const_return() if cb is not None else None
            if c is not None:
                return ('const', str(c))
            return ('call', n[1], tuple(fold(a) for a in n[2]))
        if n[0] in ('bin',):
            return (n[0], n[1], fold(n[2]), fold(n[3]))
        if n[0] in ('cast', 'ref', 'un'):
            return n[:-1] + (fold(n[-1]),)
        return n
    return lin(fold(strip(simplify(node))))


def _canon_root(n):
    n = strip(n)
    while n[0] in ('ref', 'deref') or (n[0] == 'field' and n[2] == ()):
        n = strip(n[1]) if n[0] != 'field' else n[1]
    if n[0] == 'phi':
        xs = []
        for a in n[1]:
            a = _canon_root(a)
            if a not in xs:
                xs.append(a)
        return xs[0] if len(xs) == 1 else ('phi', tuple(xs))
    return n


def _slice_reach(F, recv, rng):
    """(root, reach) of `recv[rng]` following chains `buf[a..][..n]`: reach = the largest position that must
    not exceed root.len(), as a linear form; None when a bound is not understood"""
    def add(x, y):
        d = dict(x[0])
        for k, v in y[0].items():
            d[k] = d.get(k, 0) + v
        return ({k: v for k, v in d.items() if v}, x[1] + y[1])
    base = ({}, 0)
    r = strip(recv)
    rr = _canon_root(r)
    if rr[0] == 'call' and re.search(r'::index(_mut)?$', rr[1]) and len(rr[2]) == 2:
        inner = range_bounds(F, rr[2][1])
        if inner is None:
            return None
        sub = _slice_reach(F, rr[2][0], ('RangeFrom', inner[1], None) if inner[1] is not None else ('RangeTo', None, ('const', '0')))
        if sub is None:
            return None
        rr, base = sub
    kind, st, en = rng
    if kind in ('Range', 'RangeTo'):
        pos = _lin_c(F, en)
    elif kind == 'RangeFrom':
        pos = _lin_c(F, st)
    elif kind in ('RangeInclusive', 'RangeToInclusive'):
        pos = add(_lin_c(F, en), ({}, 1))
    else:
        return (rr, base)
    if kind in ('Range', 'RangeTo', 'RangeInclusive', 'RangeToInclusive') and rr is not _canon_root(r) and base != ({}, 0):
        return (rr, add(base, pos))
    return (rr, add(base, pos) if base != ({}, 0) else pos)


@rule('R03.14', ['C03', 'C20', 'C12'], floor=7, clause='6LoWPAN decompression writes into the reassembly / decompression buffer only inside what it compared with that buffer\'s length: every range `buffer[..n]`, `buffer[a..][..n]`, `buffer[a..]` cut from the output buffer in decompress_udp, decompress_ext_hdr and sixlowpan_to_ipv6 is dominated by a test `m <= buffer.len()` with m >= a + n term by term; the fixed 40-octet IPv6 header is split off only for datagram sizes tested >= 40')
def r03_14(ctx):
    F = ctx.F
    fns = [k for k in F.bodies if k.startswith('iface::interface::sixlowpan::') and '{closure' not in k and
           (k.endswith('::decompress_udp') or k.endswith('::decompress_ext_hdr') or k.endswith('::sixlowpan_to_ipv6'))]
    ctx.need(len(fns) == 3, f"decompress_udp, decompress_ext_hdr, sixlowpan_to_ipv6 (found {len(fns)})")
    n = 0
    for k in fns:
        b = F.bodies[k]
        short = k.rsplit('::', 1)[-1]
        guards = []
        for bi, bl in enumerate(b.blocks):
            if bl['cl'] or bl['t'][0] != 'switch':
                continue
            for tb, lab, f in cond_facts(F, b, bi):
                if f[0] != 'rel' or f[1] not in ('Le', 'Lt', 'Ge', 'Gt'):
                    continue
                for lenside, other, ops in ((f[3], f[2], ('Le', 'Lt')), (f[2], f[3], ('Ge', 'Gt'))):
                    ls = strip(simplify(lenside))
                    if f[1] in ops and is_call(ls, '::len', nargs=1):
                        guards.append(((bi, tb, lab), _canon_root(ls[2][0]), _lin_c(F, other)))
        for x in b.calls():
            cn = b.callee_name(x[1]) or ''
            if not re.search(r'IndexMut<.*>::index_mut$', cn) or len(x[2]) != 2:
                continue
            if b.locals[x[3][0]]['ty'] not in ('&mut [u8]',):
                continue
            at = len(b.blocks[x[0]]['s'])
            recv = simplify(F.origin.operand(b, x[2][0], x[0], at))
            rng = range_bounds(F, simplify(F.origin.operand(b, x[2][1], x[0], at)))
            if rng is None or rng[0] == 'RangeFull':
                continue
            sr = _slice_reach(F, recv, rng)
            n += 1
            if sr is None:
                ctx.need(False, f"bounds of the slice cut at {short}:{b.block_line(x[0])}")
            root, reach = sr
            okg = False
            for e, groot, m in guards:
                if groot != root or x[0] in b.reachable(cut_edges={e}):
                    continue
                diff = dict(m[0])
                for kk, v in reach[0].items():
                    diff[kk] = diff.get(kk, 0) - v
                if all(v >= 0 for v in diff.values()) and m[1] - reach[1] >= 0:
                    okg = True
                    break
            if okg:
                ctx.ok((short, 'slice within tested length', x[0]), sample=dict(fn=short, line=b.block_line(x[0]), reach=f"{' + '.join(show(a)[:40] for a in reach[0])} + {reach[1]}"))
            else:
                ctx.bad(f"{short}|output-slice-beyond-tested-length|{'+'.join(sorted(show(a)[:30] for a in reach[0]))}+{reach[1]}",
                        f"{short} cuts the output buffer at a position (`{' + '.join(show(a)[:50] for a in reach[0]) or '0'} + {reach[1]}`) that no dominating test compared with the buffer's length: "
                        "the reassembly buffer is only as long as the datagram size announced by the first fragment, so a frame from the network makes the slice index panic", body=b, bb=x[0])
    ctx.need(n >= 6, f"range cuts of the output buffer in the 6LoWPAN decompression functions (found {n})")
    # the 40-octet split
    pf = [F.bodies[k] for k in F.bodies if k.endswith('::process_sixlowpan_fragment') and '{closure' not in k]
    if pf:
        b = pf[0]
        sites = [x[0] for x in b.calls() if (b.callee_name(x[1]) or '').endswith('::add_with') or (b.callee_name(x[1]) or '').endswith('::set_total_size')]
        ctx.need(sites, "set_total_size / add_with in process_sixlowpan_fragment")
        ge40 = lambda f: f[0] == 'rel' and f[1] in ('Ge', 'Gt') and is_call(strip(f[2]), '::datagram_size') and (const_of(strip(f[3])) or 0) >= (40 if f[1] == 'Ge' else 39)
        bad = unguarded(F, b, sites, ge40)
        if bad:
            ctx.bad("process_sixlowpan_fragment|datagram-size-below-ipv6-header", "a FRAG1 announcing a datagram size below 40 reaches the decompressor, which splits a 40-octet IPv6 header off a "
                    "buffer of the announced size (split_at_mut panics)", body=b, bb=bad[0][0], path=bad[0][1])
        else:
            ctx.ok(('process_sixlowpan_fragment', 'datagram_size >= 40'), sample=dict(fn='process_sixlowpan_fragment', guard='datagram_size() >= 40'))


@rule('R14.11', ['C14'], floor=2, clause='random access into a ring buffer answers the empty slice for an offset beyond the free / allocated space whatever its size: in get_unallocated / get_allocated every computation on the caller-supplied offset (the sum with the fill level, the index computation) comes after the test that bounds the offset')
def r14_11(ctx):
    F = ctx.F
    RB = 'storage::ring_buffer::RingBuffer'
    for nm in ('get_unallocated', 'get_allocated'):
        b = ctx.method(RB, nm)
        sites = []
        for bi, bl in enumerate(b.blocks):
            if bl['cl']:
                continue
            for si, s in enumerate(bl['s']):
                if s[0] == 'a' and s[2][0] == 'bin' and s[2][1] in ('Add', 'AddWithOverflow', 'Mul', 'MulWithOverflow'):
                    ops = [strip(simplify(F.origin.operand(b, o, bi, si))) for o in s[2][2:4]]
                    if any('A:2' in leafs(o) for o in ops):
                        sites.append(bi)
        for x in b.calls():
            if (b.callee_name(x[1]) or '').endswith('::get_idx'):
                args = [strip(simplify(F.origin.operand(b, a, x[0], len(b.blocks[x[0]]['s'])))) for a in x[2]]
                if any('A:2' in leafs(a) for a in args[1:]):
                    sites.append(x[0])
        ctx.need(sites, f"arithmetic on the offset argument of RingBuffer::{nm}")
        bounded = lambda f: f[0] == 'rel' and f[1] in ('Le', 'Lt') and leafs(f[2]) == {'A:2'} and 'A:2' not in leafs(f[3])
        bad = unguarded(F, b, sorted(set(sites)), bounded)
        if bad:
            ctx.bad(f"RingBuffer::{nm}|offset-arithmetic-before-bound", f"RingBuffer::{nm} adds the caller-supplied offset to the fill level / read position before it has tested the offset against "
                    "the available space: an offset close to usize::MAX overflows (panic with overflow checks, a wrapped index without) instead of answering the empty slice", body=b, bb=bad[0][0], path=bad[0][1])
        else:
            ctx.ok((nm, 'offset bounded first'), sample=dict(fn=f'RingBuffer::{nm}', first='offset <= window()/len()', then='index arithmetic'))
        # the bound is the quantity the offset is then subtracted from
        for bi, bl in enumerate(b.blocks):
            if bl['cl']:
                continue
            for si, s in enumerate(bl['s']):
                if not (s[0] == 'a' and s[2][0] == 'bin' and s[2][1] in ('Sub', 'SubWithOverflow')):
                    continue
                m, sub = [strip(simplify(F.origin.operand(b, o, bi, si))) for o in s[2][2:4]]
                if 'A:2' not in leafs(sub) or leafs(sub) != {'A:2'}:
                    continue
                cover = lambda f, m=m, sub=sub: f[0] == 'rel' and ((f[1] in ('Le', 'Lt') and _same_expr(strip(simplify(f[2])), sub) and _same_expr(strip(simplify(f[3])), m)) or
                                                                    (f[1] in ('Ge', 'Gt') and _same_expr(strip(simplify(f[3])), sub) and _same_expr(strip(simplify(f[2])), m)))
                if unguarded(F, b, [bi], cover):
                    ctx.bad(f"RingBuffer::{nm}|offset-subtracted-from-untested-quantity", f"RingBuffer::{nm} computes `{show(m)[:40]} - offset` although the offset was not tested against that quantity: "
                            "for an offset between it and the bound that was tested the subtraction underflows (panic, or in release builds queued elements are handed out as free space)", body=b, bb=bi)
                else:
                    ctx.ok((nm, 'offset <= minuend', bi), sample=dict(fn=f'RingBuffer::{nm}', sub=f"{show(m)[:40]} - offset", behind='offset <= the same quantity'))


@rule('R02.15', ['C02', 'C03', 'C13'], floor=1, clause='the zero-window-probe timer does not outlive the data it probes for: in process(), once the transmit buffer is found empty, every continuation either finds that the timer is not the probe timer or replaces it (an expired probe timer with nothing to probe makes dispatch transmit at every call: in FIN-WAIT-2 Interface::poll would never return)')
def r02_15(ctx):
    F = ctx.F
    b = ctx.method(SOCK, 'process')
    TIMER = 'socket::tcp::Timer'

    def txempty(truth):
        def p(f):
            if f[0] == 'bool' and f[2] is truth and is_call(strip(f[1]), '::is_empty') and any(l.endswith('.tx_buffer') for l in leafs(f[1])):
                return True
            return False
        return p
    E = set(guard_edges(F, b, txempty(True)))
    contra = set(guard_edges(F, b, txempty(False)))
    ctx.need(E, "a test of tx_buffer.is_empty() in tcp process()")
    notzwp = set(guard_edges(F, b, lambda f: f[0] == 'bool' and f[2] is False and is_call(strip(f[1]), '::is_zero_window_probe')))
    ctx.need(notzwp, "is_zero_window_probe() test in tcp process()")
    setters = {x[0] for x in b.calls() if re.search(r'Timer::set_for_(idle|retransmit|close|fast_retransmit)$', b.callee_name(x[1]) or '')}
    resets = {x[0] for x in b.calls() if (b.callee_name(x[1]) or '').endswith('::reset') and 'tcp::Socket' in (b.callee_name(x[1]) or '')}
    worst = None
    for (bi, tb, lab) in sorted(E):
        seen = b.reachable(start=tb, cut_edges=contra | notzwp, cut_blocks=setters | resets)
        rets = [r for r in b.return_blocks() if r in seen and r not in setters]
        if rets:
            worst = (bi, rets[0], b.path_to(seen, rets[0]))
            break
    if worst:
        ctx.bad("tcp::process|probe-timer-outlives-data", "process() can return with the zero-window-probe timer still armed although the transmit buffer is empty (everything, possibly the FIN too, "
                "was acknowledged by a segment that kept the window closed): nothing in dispatch rewinds that timer once it has expired in FIN-WAIT-2, so every dispatch transmits an ACK "
                "and Interface::poll never returns", body=b, bb=worst[0], path=worst[2])
    else:
        ctx.ok(('process', 'probe timer stops with the data'), sample=dict(fn='tcp::Socket::process', when='tx_buffer.is_empty()', then='probe timer replaced (idle / retransmission)'))


@rule('R02.16', ['C02', 'C13'], floor=1, clause='send() into a closed peer window arms the zero-window-probe timer in every state in which send() accepts data (ESTABLISHED and CLOSE-WAIT alike): between may_send() and the arming no further test of the connection state is made')
def r02_16(ctx):
    F = ctx.F
    b = ctx.method(SOCK, 'send_impl')
    sites = [x[0] for x in b.calls() if (b.callee_name(x[1]) or '').endswith('Timer::set_for_zero_window_probe')]
    ctx.need(sites, "set_for_zero_window_probe in tcp send_impl")
    bad = None
    for bi, bl in enumerate(b.blocks):
        if bl['cl'] or bl['t'][0] != 'switch':
            continue
        for tb, lab, f in cond_facts(F, b, bi):
            ls = set()
            for x in f[1:]:
                if isinstance(x, tuple) and x and isinstance(x[0], str):
                    ls |= leafs(x)
            if not any(l.endswith('tcp::Socket.state') for l in ls):
                continue
            seen = b.reachable(cut_edges={(bi, tb, lab)})
            alive_other = [e for e in b.succ_edges(bi) if e[0] != tb]
            if any(s not in seen for s in sites):
                bad = bi
    if bad is not None:
        ctx.bad("tcp::send_impl|probe-timer-state-dependent", "send_impl arms the zero-window-probe timer only in some of the states in which it accepts data: bytes queued into a closed window in the "
                "other state (CLOSE-WAIT) leave the timer idle - poll_at answers Ingress, no probe is ever sent and a lost window update stalls the connection for good", body=b, bb=bad)
    else:
        ctx.ok(('send_impl', 'probe timer armed in every sending state'), sample=dict(fn='tcp::Socket::send_impl', arms='zero-window-probe timer', under='remote_win_len == 0 && timer.is_idle()'))


def _nodes(n, pred, out=None, seen=None):
    out = [] if out is None else out
    seen = set() if seen is None else seen
    if not isinstance(n, tuple) or not n or id(n) in seen:
        return out
    seen.add(id(n))
    if isinstance(n[0], str) and pred(n):
        out.append(n)
    for c in n[1:]:
        if isinstance(c, tuple):
            if c and isinstance(c[0], str):
                _nodes(c, pred, out, seen)
            else:
                for d in c:
                    _nodes(d, pred, out, seen)
    return out


@rule('R06.19', ['C06', 'C05', 'C10'], floor=5, clause='tcp::Repr::header_len reserves for every option exactly what TcpOption::buffer_len says that option occupies: the fixed sizes (MSS 4, window scale 3, SACK-permitted 2, timestamps 10) and, for SACK blocks, the 2-octet kind/length header on top of the blocks')
def r06_19(ctx):
    F = ctx.F
    h = ctx.method('wire::tcp::Repr', 'header_len')
    o = ctx.method('wire::tcp::TcpOption', 'buffer_len')
    ro = strip(simplify(ret_origin(F, o)))
    fixed, sack_const = set(), None
    for a in alts(ro):
        c = const_of(a)
        if c is not None:
            fixed.add(c)
        elif any('SackRange' in l for l in leafs(a)):
            sack_const = lin(a)[1]
    ctx.need(fixed and sack_const is not None, "per-option sizes in TcpOption::buffer_len")
    rh = strip(simplify(ret_origin(F, h)))
    adds = _nodes(rh, lambda n: n[0] == 'bin' and n[1] == 'Add')
    got_fixed, got_sack = set(), []
    for a in adds:
        x, y = strip(a[2]), strip(a[3])
        for u, v in ((x, y), (y, x)):
            c = const_of(v)
            if c is None:
                continue
            if any(l.endswith('.sack_ranges') for l in leafs(u)) and not _nodes(u, lambda n: n[0] == 'phi'):
                got_sack.append(c)
            elif u[0] == 'phi' or const_of(u) is not None or (u[0] in ('proj', 'field', 'agg')):
                got_fixed.add(c)
    ctx.need(got_fixed, "constant option sizes added in tcp::Repr::header_len")
    want_fixed = {c for c in fixed if c > 1}
    for c in sorted(want_fixed):
        if c in got_fixed:
            ctx.ok(('header_len', 'option size', c), sample=dict(option_size=c))
        else:
            ctx.bad(f"tcp::Repr::header_len|option-size-{c}-missing", f"TcpOption::buffer_len has an option of {c} octets that tcp::Repr::header_len never reserves: emit writes past the declared header length", body=h)
    sack_total = got_sack[0] if got_sack else 0
    if got_sack and all(c == sack_const for c in got_sack):
        ctx.ok(('header_len', 'sack header'), sample=dict(sack='blocks + %d' % sack_const))
    else:
        ctx.bad("tcp::Repr::header_len|sack-option-header", f"tcp::Repr::header_len reserves the SACK blocks plus {sack_total} octets where TcpOption::buffer_len (and emit) need the blocks plus {sack_const}: "
                "an ACK carrying SACK blocks is emitted past its declared header length (emit panics on a buffer of buffer_len())", body=h)


@rule('R08.11', ['C08', 'C09', 'C01'], floor=6, clause='the length in the pseudo header is the length of the data that is summed: in verify_checksum / fill_checksum of UDP, TCP and ICMPv6 the length handed to pseudo_header and the extent of the slice handed to checksum::data are the same expression (the UDP length field for UDP, the segment / message size for the others)')
def r08_11(ctx):
    F = ctx.F
    n = 0
    for k, b in sorted(F.bodies.items()):
        if not (k.startswith('wire::') and (k.endswith('::verify_checksum') or k.endswith('::fill_checksum'))):
            continue
        ph, dat = [], []
        for x in b.calls():
            cn = b.callee_name(x[1]) or ''
            at = len(b.blocks[x[0]]['s'])
            if 'checksum::pseudo_header' in cn:
                ph.append(strip(simplify(F.origin.operand(b, x[2][-1], x[0], at))))
            elif cn.endswith('checksum::data'):
                dat.append(strip(simplify(F.origin.operand(b, x[2][0], x[0], at))))
        if not ph:
            continue
        ctx.need(len(ph) == 1 and len(dat) == 1, f"one pseudo_header and one data call in {k}")

        def uncast(n_):
            n_ = strip(n_)
            while n_[0] == 'cast':
                n_ = strip(n_[1])
            return n_
        plen = uncast(ph[0])
        d = dat[0]
        while d[0] in ('ref', 'deref'):
            d = strip(d[1])
        if is_call(d, '::index') and len(d[2]) == 2:
            rb = range_bounds(F, d[2][1])
            ctx.need(rb is not None and rb[0] in ('RangeTo', 'Range'), f"extent of the summed slice in {k}")
            ext = uncast(rb[2])
        else:
            # the whole buffer
            ext = ('call', 'core::slice::<impl [T]>::len', (d,))
        short = '::'.join(k.split('::')[1:2]) + '::' + k.rsplit('::', 1)[-1]
        n += 1

        def whole_len(x):
            return is_call(x, '::len', nargs=1) and any(l.endswith('.buffer') for l in leafs(x)) and not any(l.startswith('C:wire::') for l in leafs(x) if l.startswith('C:'))
        same = _same_expr(plen, ext) or (whole_len(plen) and whole_len(ext))
        if same:
            ctx.ok((short, 'pseudo-header length = summed extent'), sample=dict(fn=short, length=show(plen)[:60]))
        else:
            ctx.bad(f"{short}|pseudo-header-length-differs", f"{short} puts `{show(plen)[:60]}` into the pseudo header but sums `{show(ext)[:60]}` octets of data: a packet whose length field and "
                    "enclosing payload differ verifies although its checksum was computed over another length (or a valid one is rejected)", body=b)
    ctx.need(n >= 6, f"pseudo-header checksums (found {n})")


@rule('R09.10', ['C09', 'C16', 'C02'], floor=2, clause='lookup_hardware_addr answers NoRoute (the packet is dropped by the socket egress) only for what retrying cannot mend - route() found no next hop, the interface has no source address to solicit with; every answer of the neighbor cache (not found yet, rate limited) is NeighborPending, which keeps the datagram queued')
def r09_10(ctx):
    F = ctx.F
    b = ctx.method(IFI, 'lookup_hardware_addr')
    DE = 'iface::interface::DispatchError'
    n = 0
    for bi, si, var in agg_sites(b, DE, ['NoRoute']):
        n += 1
        loc = b.blocks[bi]['s'][si][1]
        t = b.blocks[bi]['t']
        okc = False
        if t[0] == 'call' and (b.callee_name(t[1]) or '').endswith('Option::<T>::ok_or') and len(t[2]) == 2 and is_place_op(t[2][1]) and t[2][1][1] == loc:
            rcv = strip(simplify(F.origin.operand(b, t[2][0], bi, len(b.blocks[bi]['s']))))
            cs = _calls_in(rcv)
            if rcv[0] == 'call' and (rcv[1].endswith('InterfaceInner::route') or 'get_source_address' in rcv[1]) and not any('neighbor::Cache' in c[1] for c in cs):
                okc = True
        if not okc:
            # `let Some(x) = self.route(..) else { return Err(NoRoute) }`: the answer is built behind `route(..) is None`
            lookup_failed = lambda f: ((f[0] == 'is' and f[2] == 'None') or (f[0] == 'isnot' and 'Some' in f[2])) and strip(f[1])[0] == 'call' and \
                (strip(f[1])[1].endswith('InterfaceInner::route') or 'get_source_address' in strip(f[1])[1])
            if guard_edges(F, b, lookup_failed) and not unguarded(F, b, [bi], lookup_failed):
                okc = True
                rcv = ('const', '"route(..) / get_source_address(..) is None"')
        if okc:
            ctx.ok(('lookup_hardware_addr', 'NoRoute', bi), sample=dict(no_route_from=show(rcv)[:60]))
        else:
            ctx.bad("lookup_hardware_addr|no-route-for-a-pending-neighbor", "lookup_hardware_addr answers NoRoute where no routing / source-address lookup failed (a neighbor-cache answer such as "
                    "RateLimited): the socket egress drops the datagram although its neighbor resolves a moment later - a datagram for a resolvable destination is never transmitted", body=b, bb=bi)
    ctx.need(n >= 2, f"NoRoute answers in lookup_hardware_addr (found {n})")


@rule('R09.11', ['C09', 'C08'], floor=1, clause='a UDP datagram ends where its own length field says: udp::Packet::payload() is cut at len() (octets of the enclosing IP payload behind it are not part of the datagram and not covered by its checksum)')
def r09_11(ctx):
    F = ctx.F
    ks = [k for k in F.bodies if re.match(r"wire::udp::Packet::<&'a T>::payload$", k)]
    ctx.need(ks, "udp::Packet::payload")
    b = F.bodies[ks[0]]
    r = strip(simplify(ret_origin(F, b)))
    while r[0] in ('ref', 'deref'):
        r = strip(r[1])
    ctx.need(is_call(r, '::index') and len(r[2]) == 2, "udp payload() as a slice of the buffer")
    rb = range_bounds(F, r[2][1])
    end = rb[2] if rb is not None else None
    if end is not None and any(c[1].endswith('udp::Packet::<T>::len') for c in _calls_in(strip(simplify(end)))):
        ctx.ok(('udp::payload', 'cut at len()'), sample=dict(fn='udp::Packet::payload', end=show(strip(simplify(end)))[:60]))
    else:
        ctx.bad("udp::Packet::payload|not-cut-at-length-field", "udp::Packet::payload() does not end at the UDP length field: when the enclosing IP payload is longer than the datagram (a valid packet - "
                "check_len only demands that the buffer is at least that long, and the checksum covers len() octets) the surplus octets are delivered to the socket as data", body=b)


@rule('R20.8', ['C20', 'C06', 'C10'], floor=2, clause='6LoWPAN IPHC: the length calculation and the emitter choose an address compression from the same octet ranges - the slices of the source / destination address that Repr::buffer_len() compares are exactly the ones set_src_address() / set_dst_address() compare (a range that differs in one of them makes the header longer or shorter than what is written into it)')
def r20_8(ctx):
    F = ctx.F

    def ranges(b, which=None):
        S = set()
        for bi, bl in enumerate(b.blocks):
            if bl['cl'] or bl['t'][0] != 'switch':
                continue
            for tb, lab, f in cond_facts(F, b, bi):
                for x in f[1:]:
                    if not (isinstance(x, tuple) and x and isinstance(x[0], str)):
                        continue
                    for c in _calls_in(simplify(x)):
                        if c[1].endswith('::index') and len(c[2]) == 2:
                            rb = range_bounds(F, c[2][1])
                            base = strip(c[2][0])
                            if rb and is_call(base, '::octets'):
                                who = 'src' if any(l.endswith('.src_addr') for l in leafs(base)) else 'dst' if any(l.endswith('.dst_addr') for l in leafs(base)) else None
                                if which is None or who == which:
                                    S.add((rb[0], const_of(rb[1]) if rb[1] is not None else None, const_of(rb[2]) if rb[2] is not None else None))
        return S
    bl_ = ctx.method('wire::sixlowpan::iphc::Repr', 'buffer_len')
    for which, setter in (('src', 'set_src_address'), ('dst', 'set_dst_address')):
        ks = [k for k in F.bodies if k.startswith('wire::sixlowpan::iphc::Packet') and k.endswith('::' + setter)]
        ctx.need(ks, f"iphc::Packet::{setter}")
        a, e = ranges(bl_, which), ranges(F.bodies[ks[0]])
        ctx.need(a and e, f"address octet ranges compared in buffer_len / {setter}")
        if a == e:
            ctx.ok(('iphc', which, 'same ranges'), sample=dict(address=which, ranges=sorted(f"{x[1]}..{x[2]}" for x in a)))
        else:
            d = sorted(f"{x[1]}..{x[2]}" for x in a ^ e)
            ctx.bad(f"iphc::Repr::buffer_len|{which}-ranges-differ-from-{setter}", f"Repr::buffer_len() and {setter}() decide the compression of the {which} address on different octet ranges "
                    f"({', '.join(d)}): for some addresses the declared header length differs from the octets emitted - stray or missing octets between the IPHC header and what follows", body=bl_)


@rule('R14.12', ['C14', 'C09'], floor=3, clause='a packet buffer hands out a payload of exactly the recorded size: dequeue() and peek() ask the payload ring for metadata.size octets, and the callback of dequeue_with() is given payload[..metadata.size], not the whole contiguous run of the ring (which continues into the following packets)')
def r14_12(ctx):
    F = ctx.F
    PB = 'storage::packet_buffer::PacketBuffer'
    n = 0
    sized = lambda o: any(l.endswith('PacketMetadata.size') or l.endswith('.size') or 'metadata__size' in l for l in leafs(o))
    for nm, callee, argi in (('dequeue', '::dequeue_many', 1), ('peek', '::get_allocated', 2)):
        b = ctx.method(PB, nm)
        sites = [x for x in b.calls() if (b.callee_name(x[1]) or '').endswith(callee) and
                 any(l.endswith('.payload_ring') for l in leafs(strip(simplify(F.origin.operand(b, x[2][0], x[0], len(b.blocks[x[0]]['s']))))))]
        ctx.need(sites, f"payload_ring{callee} in PacketBuffer::{nm}")
        for x in sites:
            n += 1
            o = strip(simplify(F.origin.operand(b, x[2][argi], x[0], len(b.blocks[x[0]]['s']))))
            if sized(o) and const_of(o) is None:
                ctx.ok((nm, 'exact size'), sample=dict(fn=f'PacketBuffer::{nm}', asks_for=show(o)[:60]))
            else:
                ctx.bad(f"PacketBuffer::{nm}|payload-not-sized-by-metadata", f"PacketBuffer::{nm} takes `{show(o)[:60]}` octets from the payload ring instead of the size recorded for the packet", body=b, bb=x[0])
    dw = ctx.method(PB, 'dequeue_with')
    fam = list(F.closures_of(dw.key))
    for c in list(fam):
        fam += [x for x in F.closures_of(c.key) if x not in fam]
    hit = 0
    for b in fam:
        for x in b.calls():
            c = x[1]
            if not (isinstance(c, dict) and (c.get('fn') or '').endswith('FnOnce::call_once')):
                continue
            args = strip(simplify(F.origin.operand(b, x[2][1], x[0], len(b.blocks[x[0]]['s'])))) if len(x[2]) > 1 else None
            if args is None or args[0] != 'agg' or len(args[2]) != 2:
                continue
            hit += 1
            n += 1
            p = strip(args[2][1])
            while p[0] in ('ref', 'deref'):
                p = strip(p[1])
            okp = False
            if is_call(p, '::index_mut') or is_call(p, '::index'):
                rb = range_bounds(F, p[2][1])
                okp = rb is not None and rb[0] in ('RangeTo', 'Range') and sized(strip(simplify(rb[2]))) and (rb[1] is None or const_of(rb[1]) == 0)
            if okp:
                ctx.ok(('dequeue_with', 'exact slice'), sample=dict(fn='PacketBuffer::dequeue_with', callback_gets='payload[..metadata.size]'))
            else:
                ctx.bad("PacketBuffer::dequeue_with|callback-sees-following-packets", f"the callback of PacketBuffer::dequeue_with is handed `{show(p)[:60]}`: the contiguous run of the payload ring, "
                        "which continues into the packets queued behind the head packet, instead of the head packet's own payload", body=b, bb=x[0])
    ctx.need(hit >= 1, "the user callback of PacketBuffer::dequeue_with")


@rule('R12.11', ['C12', 'C10'], floor=1, clause='every fragmented IPv4 datagram gets its own identification: next_ipv4_frag_ident advances the counter by one, wrapping (a counter that sticks at 0xffff gives back-to-back datagrams the same reassembly key, and interleaved fragments are mixed by the receiver)')
def r12_11(ctx):
    F = ctx.F
    II = 'iface::interface::InterfaceInner'
    cands = [b for k, b in F.bodies.items() if k.endswith('::next_ipv4_frag_ident') and '::test' not in k]
    ctx.need(cands, "next_ipv4_frag_ident")
    b = cands[0]
    mw = must_write_fields(F, b, II)
    if 'ipv4_id' not in mw:
        ctx.bad("next_ipv4_frag_ident|not-advanced", "next_ipv4_frag_ident hands out the identification without advancing the counter on every path", body=b)
        return
    bi, si = mw['ipv4_id'][0]
    o = strip(simplify(F.origin.rvalue(b, b.blocks[bi]['s'][si][2], bi, si, 0, None))) if si != 'T' else strip(simplify(F.origin.call_node(b, b.blocks[bi]['t'], bi, 0, None)))
    okv = (o[0] == 'call' and o[1].rsplit('::', 1)[-1] in ('wrapping_add', 'add') and any(const_of(a) == 1 for a in o[2]) and any(l.endswith('.ipv4_id') for l in leafs(o))) or \
        (o[0] == 'bin' and o[1] == 'Add' and 1 in (const_of(o[2]), const_of(o[3])) and any(l.endswith('.ipv4_id') for l in leafs(o)))
    if okv:
        ctx.ok(('ipv4 ident', 'advances'), sample=dict(fn='next_ipv4_frag_ident', stores='ipv4_id.wrapping_add(1)'))
    else:
        ctx.bad("next_ipv4_frag_ident|ident-step", f"next_ipv4_frag_ident stores `{show(o)[:60]}` into the identification counter (expected ipv4_id + 1, wrapping): once the counter stops moving, "
                "all fragmented datagrams share one reassembly key", body=b, bb=bi)


@rule('R20.9', ['C20', 'C11', 'C06'], floor=2, clause='6LoWPAN IPHC: the destination address is rebuilt with the destination context identifier and the source address with the source context identifier - dst_addr() never reads src_context_id() and src_addr() never reads dst_context_id()')
def r20_9(ctx):
    F = ctx.F
    for fn, own, other in (('dst_addr', 'dst_context_id', 'src_context_id'), ('src_addr', 'src_context_id', 'dst_context_id')):
        ks = [k for k in F.bodies if k.startswith('wire::sixlowpan::iphc::Packet') and k.endswith('::' + fn)]
        ctx.need(ks, f"iphc::Packet::{fn}")
        b = F.bodies[ks[0]]
        names = [(b.callee_name(x[1]) or '').rsplit('::', 1)[-1] for x in b.calls()]
        ctx.need(own in names, f"{own}() in iphc::Packet::{fn}")
        wrong = [x for x in b.calls() if (b.callee_name(x[1]) or '').endswith('::' + other)]
        if wrong:
            ctx.bad(f"iphc::Packet::{fn}|uses-{other}", f"iphc::Packet::{fn}() takes a context identifier from {other}(): with CID=1 and different source / destination contexts the address is rebuilt "
                    "under the wrong prefix - a datagram for a foreign address can come out as one of ours and be delivered", body=b, bb=wrong[0][0])
        else:
            ctx.ok(('iphc', fn, own), sample=dict(fn=f'iphc::Packet::{fn}', context_from=own + '()'))


@rule('R15.10', ['C15', 'C04'], floor=1, clause='add_then_remove_front refuses a range only when add() itself refuses it: the function has no refusal of its own (a full tracker still accepts every range that merges with what it holds)')
def r15_10(ctx):
    F = ctx.F
    A = 'storage::assembler::Assembler'
    b = ctx.method(A, 'add_then_remove_front')
    adds = [x[0] for x in b.calls() if (b.callee_name(x[1]) or '').endswith('Assembler::add')]
    ctx.need(adds, "add() call in add_then_remove_front")
    own = [bi for bi, si, var in agg_sites(b, 'std::result::Result', ['Err'])]
    own += [bi for bi, si, var in agg_sites(b, 'storage::assembler::TooManyHolesError')]
    if own:
        ctx.bad("add_then_remove_front|own-refusal", "add_then_remove_front answers Err without having asked add(): ranges that add() would merge into the ranges already tracked (needing no free slot), "
                "or an offset-0 range, are refused on a full tracker", body=b, bb=own[0])
    else:
        ctx.ok(('add_then_remove_front', 'no refusal of its own'), sample=dict(fn='Assembler::add_then_remove_front', err_only_from='add(..)?'))


@rule('R19.7', ['C19', 'C03'], floor=1, clause='the DNS socket indexes its server list with a query\'s server index only behind `server_idx < servers.len()`: when the last server has timed out the query fails instead of reading past the list')
def r19_7(ctx):
    F = ctx.F
    b = ctx.method('socket::dns::Socket', 'dispatch')
    sites = []
    for bi, bl in enumerate(b.blocks):
        t = bl['t']
        if bl['cl'] or t[0] != 'assert' or t[3].get('k') != 'bounds':
            continue
        ix = strip(simplify(F.origin.operand(b, t[3]['index'], bi, len(bl['s']))))
        if any(l.endswith('.server_idx') for l in leafs(ix)):
            sites.append(bi)
    # a checked lookup servers.get(pq.server_idx) needs no guard
    checked = [x[0] for x in b.calls() if re.search(r'(slice|\[T\]|Vec<.*>)::.*\bget$|<\[T\]>::get$', b.callee_name(x[1]) or '') and len(x[2]) == 2
               and any(l.endswith('.server_idx') for l in leafs(simplify(F.origin.operand(b, x[2][1], x[0], len(b.blocks[x[0]]['s'])))))]
    ctx.need(len(sites) + len(checked) >= 1, f"servers[pq.server_idx] or servers.get(pq.server_idx) in dns dispatch (found {len(sites)})")
    for s_ in checked:
        ctx.ok(('dns::dispatch', 'server lookup', s_), sample=dict(index='servers.get(pq.server_idx)', behind='checked lookup'))

    def inb(f):
        if f[0] != 'rel' or f[1] != 'Lt':
            return False
        r = strip(f[3])
        return any(l.endswith('.server_idx') for l in leafs(f[2])) and (r[0] == 'len' or is_call(r, '::len'))
    for s_ in sites:
        bad = unguarded(F, b, [s_], inb)
        if bad:
            ctx.bad("dns::dispatch|server-index-unchecked", "dns dispatch indexes the server list with pq.server_idx without `server_idx < servers.len()` on the way: once the last configured server "
                    "has timed out (10 s without an answer) the index equals the length and the poll panics instead of failing the query", body=b, bb=s_, path=bad[0][1])
        else:
            ctx.ok(('dns::dispatch', 'server index', s_), sample=dict(index='servers[pq.server_idx]', behind='server_idx < servers.len()'))


@rule('R20.10', ['C20', 'C06'], floor=2, clause='6LoWPAN: wherever address decompression rebuilds an interface identifier from 16 bits (octets 14..16 from the in-line value or a short link-layer address), it also puts back the 00ff:fe00 filler the compressor required in octets 11..13 before eliding them')
def r20_10(ctx):
    F = ctx.F
    ks = [k for k in F.bodies if k.endswith('sixlowpan::UnresolvedAddress::<\'a>::resolve') or (k.endswith('::resolve') and 'UnresolvedAddress' in k and '{closure' not in k)]
    ctx.need(ks, "UnresolvedAddress::resolve")
    b = F.bodies[ks[0]]
    w14, w11 = [], []
    for x in b.calls():
        cn = b.callee_name(x[1]) or ''
        if not re.search(r'IndexMut<.*>::index_mut$', cn) or len(x[2]) != 2:
            continue
        rb = range_bounds(F, simplify(F.origin.operand(b, x[2][1], x[0], len(b.blocks[x[0]]['s']))))
        if rb is None:
            continue
        if rb[0] == 'RangeFrom' and const_of(rb[1]) == 14:
            w14.append(x[0])
        if rb[0] == 'Range' and const_of(rb[1]) == 11 and const_of(rb[2]) == 13:
            w11.append(x[0])
    outs = [x[0] for x in b.calls() if (b.callee_name(x[1]) or '').endswith('from_octets')]
    ctx.need(w14 and outs, "16-bit tails written in UnresolvedAddress::resolve")
    for s_ in w14:
        pre = b.reachable(cut_blocks=set(w11))
        post = b.reachable(start=s_, cut_blocks=set(w11))
        if s_ in pre and any(o in post for o in outs):
            ctx.bad("UnresolvedAddress::resolve|16-bit-iid-without-filler", "UnresolvedAddress::resolve rebuilds an address from a 16-bit value (octets 14..16) without writing the 00ff:fe00 filler into "
                    "octets 11..13: fe80::ff:fe00:XXXX, which the compressor sends in the 16-bit form, comes out as fe80::XXXX", body=b, bb=s_)
        else:
            ctx.ok(('resolve', '16-bit iid', s_), sample=dict(writes='bytes[14..]', with_filler='bytes[11..13] = ff fe'))


@rule('R09.12', ['C09'], floor=2, clause='a raw socket is handed the header and the payload of one and the same packet: where the IP representation given to raw_socket_filter is the parsed header as it arrived, the payload given with it is that packet\'s whole payload (not the rest behind an extension header that the ingress path has already consumed)')
def r09_12(ctx):
    F = ctx.F
    n = 0
    for k, b in sorted(F.bodies.items()):
        if '::test' in k:
            continue
        for x in b.calls():
            if not (b.callee_name(x[1]) or '').endswith('::raw_socket_filter'):
                continue
            n += 1
            at = len(b.blocks[x[0]]['s'])
            rp = strip(simplify(F.origin.operand(b, x[2][2], x[0], at)))
            pl = strip(simplify(F.origin.operand(b, x[2][3], x[0], at)))
            modified = bool(_nodes(rp, lambda n_: n_[0] == 'opaque' or n_[0] == 'phi'))
            short = k.rsplit('::', 1)[-1]

            def whole(a):
                a = strip(a)
                while a[0] in ('ref', 'deref') or (a[0] == 'proj' and all(e[0] in ('*', 'sub') or e == ('*',) for e in a[2])):
                    a = strip(a[1])
                return a[0] == 'call' and re.search(r"Packet::<&'a T>::payload$", a[1]) is not None and strip(a[2][0])[0] in ('arg', 'ref', 'field')
            bad = [a for a in alts(pl) if not whole(a)]
            if bad and not modified:
                ctx.bad(f"{short}|raw-socket-payload-of-another-layer", f"{short} hands raw sockets the IP header as it arrived together with `{show(bad[0])[:70]}`: header (next header, payload length) and "
                        "payload no longer belong together - the datagram delivered to the raw socket is truncated / not the one that arrived", body=b, bb=x[0])
            else:
                ctx.ok((short, 'raw socket payload'), sample=dict(fn=short, header='as parsed' if not modified else 'adjusted to the reassembled datagram', payload=show(pl)[:60]))
    ctx.need(n >= 2, "raw_socket_filter call sites")


@rule('R13.15', ['C13', 'C19'], floor=1, clause='the DNS socket never leaves a pending query behind that is due but was not acted on: inside dispatch every way past a pending query without transmitting either fails the query (set_state) or found its retransmission instant still in the future - otherwise poll_at keeps answering a past instant while polls transmit nothing')
def r13_15(ctx):
    from ..loops import loops
    F = ctx.F
    b = ctx.method('socket::dns::Socket', 'dispatch')
    ls = loops(b)
    ctx.need(ls, "the query loop of dns dispatch")
    h, nodes, srcs = max(ls, key=lambda x: len(x[1]))
    pend = [(bi, tb, lab) for (bi, tb, lab) in guard_edges(F, b, lambda f: f[0] == 'is' and f[2] == 'Pending' and f[3] == 'socket::dns::State') if bi in nodes]
    ctx.need(pend, "the Pending arm of the query loop")
    setst = {x[0] for x in b.calls() if (b.callee_name(x[1]) or '').endswith('::set_state')}
    emits = {x[0] for x in b.calls() if isinstance(x[1], dict) and (x[1].get('fn') or '').endswith('FnOnce::call_once')}
    ctx.need(setst and emits, "set_state / emit calls in dns dispatch")
    waiting = set(guard_edges(F, b, lambda f: f[0] == 'rel' and f[1] == 'Gt' and any(l.endswith('.retransmit_at') for l in leafs(f[2])) and any(l.endswith('::now') for l in leafs(f[3]) if l.startswith('C:'))))
    ctx.need(waiting, "`retransmit_at > now` test in dns dispatch")
    worst = None
    for (bi, tb, lab) in pend:
        seen = b.reachable(start=tb, cut_edges=waiting, cut_blocks=setst | emits)
        if h in seen:
            worst = (bi, b.path_to(seen, h))
    if worst:
        ctx.bad("dns::dispatch|due-query-skipped", "dns dispatch can go on to the next query past a pending one that is due (its retransmission instant is not in the future) without transmitting "
                "and without failing it: poll_at keeps answering that past instant and an event loop spins until the per-server time-outs have run out", body=b, bb=worst[0], path=worst[1])
    else:
        ctx.ok(('dns::dispatch', 'no due query skipped'), sample=dict(fn='dns::Socket::dispatch', skips='only waiting (retransmit_at > now) or failed (set_state) queries'))


@rule('R09.13', ['C09'], floor=2, clause='an ICMP socket bound to a UDP / TCP port recognises the errors for its datagrams from what an ICMP error is guaranteed to quote - the IP header and the first 8 octets, i.e. the ports: accepts_v4 / accepts_v6 do not run the complete-datagram parsers (UdpRepr::parse / TcpRepr::parse check the length field against the quote and verify the checksum, which fails for every truncated quote)')
def r09_13(ctx):
    F = ctx.F
    IC = 'socket::icmp::Socket'
    n = 0
    for nm in ('accepts_v4', 'accepts_v6'):
        b = ctx.method(IC, nm)
        n += 1
        full = [x for x in b.calls() if re.search(r'wire::(udp|tcp)::Repr(::<.*>)?::parse$', b.callee_name(x[1]) or '')]
        ports = [x for x in b.calls() if re.search(r'wire::(udp|tcp)::Packet::<.*>::src_port$', b.callee_name(x[1]) or '')]
        if full:
            ctx.bad(f"icmp::Socket::{nm}|needs-complete-quoted-datagram", f"icmp::Socket::{nm} runs {(b.callee_name(full[0][1]) or '').split('wire::', 1)[-1]} on the datagram quoted in the ICMP error: "
                    "the quote is normally cut after 8 octets (RFC 792), so the length check / checksum verification fails and a socket bound to the UDP or TCP port never receives "
                    "the port-unreachable / time-exceeded messages for its own datagrams", body=b, bb=full[0][0])
        else:
            ctx.need(ports, f"a test of the quoted source port in icmp::Socket::{nm}")
            ctx.ok((nm, 'ports only'), sample=dict(fn=f'icmp::Socket::{nm}', decides_on='quoted source port'))
    ctx.need(n == 2, "icmp accepts functions")


@rule('R18.12', ['C18'], floor=1, clause='a lease is taken in the Requesting state only once a REQUEST has gone out: the (Requesting, Ack) arm of process() installs the configuration behind a test that the request counter is not zero (DISCOVER and REQUEST share the transaction id, so an ACK sent right after the OFFER would match)')
def r18_12(ctx):
    F = ctx.F
    D = 'socket::dhcpv4::Socket'
    RS = 'socket::dhcpv4::RenewState'
    RQ = 'socket::dhcpv4::RequestState'
    b = ctx.method(D, 'process')
    sites = [bi for bi, si, var in agg_sites(b, RS)]
    ctx.need(sites, "RenewState construction in dhcpv4 process()")
    sent = lambda f: f[0] == 'rel' and any(l.endswith(f"{RQ}.retry") for l in leafs(f[2]) | leafs(f[3])) and \
        ((f[1] in ('Gt', 'Ne') and const_of(strip(f[3])) == 0) or (f[1] == 'Ge' and (const_of(strip(f[3])) or 0) >= 1) or (f[1] == 'Lt' and const_of(strip(f[2])) == 0))
    bad = unguarded(F, b, sites, sent)
    if bad:
        ctx.bad("dhcpv4::process|ack-before-request", "in the Requesting state process() takes a lease from an ACK without knowing that a REQUEST was ever sent (retry counter not examined): "
                "an ACK carrying the DISCOVER's transaction id that arrives between the OFFER and the first REQUEST configures the client", body=b, bb=bad[0][0], path=bad[0][1])
    else:
        ctx.ok(('dhcpv4::process', 'ack after request'), sample=dict(arm='(Requesting, Ack)', guard='state.retry > 0'))


@rule('R06.20', ['C06', 'C10'], floor=3, clause='mld::Repr::buffer_len() declares what emit writes for every kind of message: each arm of buffer_len depends on the variable part of its variant (the source list of a query, the record data of a report, the number of records of a report given as a record list) - none is a constant')
def r06_20(ctx):
    F = ctx.F
    R = 'wire::mld::Repr'
    b = ctx.method(R, 'buffer_len')
    r = strip(simplify(ret_origin(F, b)))
    n = 0
    for a in alts(r):
        n += 1
        if const_of(a) is not None:
            ctx.bad("mld::Repr::buffer_len|constant-arm", f"one arm of mld::Repr::buffer_len() is the constant {const_of(a)} although emit writes a variable-length part behind the fixed header "
                    "(a report given as a list of records): emitting into a buffer of the declared length panics, and every user has to add the missing length itself", body=b)
        else:
            ctx.ok(('mld::buffer_len', show(a)[:40]), sample=dict(arm=show(a)[:70]))
    ctx.need(n >= 3, f"arms of mld::Repr::buffer_len (found {n})")


@rule('R03.15', ['C03', 'C18', 'C10'], floor=1, clause='the DHCP client remembers a server address only if it is a unicast address: ServerInfo.address (the destination of the unicast renewal, which dispatch_ip asserts to be specified) is built from the IP source of the OFFER behind a unicast test of that source')
def r03_15(ctx):
    F = ctx.F
    D = 'socket::dhcpv4::Socket'
    SI = 'socket::dhcpv4::ServerInfo'
    b = ctx.method(D, 'process')
    sites = []
    for bi, si, var in agg_sites(b, SI):
        s = b.blocks[bi]['s'][si]
        names = s[2][1].get('fnames') or []
        if 'address' not in names:
            continue
        o = strip(simplify(F.origin.operand(b, s[2][2][names.index('address')], bi, si)))
        if any(l.endswith('Repr.src_addr') for l in leafs(o)):
            sites.append(bi)
    ctx.need(sites, "ServerInfo built from the packet's source address in dhcpv4 process()")
    uni = lambda f: f[0] == 'bool' and f[2] is True and (is_call(strip(f[1]), '::x_is_unicast') or is_call(strip(f[1]), '::is_unicast')) and any(l.endswith('Repr.src_addr') for l in leafs(f[1]))
    bad = unguarded(F, b, sites, uni)
    if bad:
        ctx.bad("dhcpv4::process|server-address-unchecked", "dhcpv4 process() records the IP source of an OFFER as the server's address without testing that it is a unicast address: an OFFER/ACK pair "
                "sent from 0.0.0.0 (which the ingress path lets through for DHCP) makes the renewal at T1 a unicast to 0.0.0.0, and Interface::poll panics on dispatch_ip's assertion", body=b, bb=bad[0][0], path=bad[0][1])
    else:
        ctx.ok(('dhcpv4::process', 'server address unicast'), sample=dict(field='ServerInfo.address', guard='src_ip.x_is_unicast()'))


@rule('R18.13', ['C18', 'C10'], floor=1, clause='the leased address is a unicast address of the subnet the ACK announces: parse_ack answers Some only after comparing your_ip with the broadcast address of (your_ip, subnet mask) - is_unicast() alone cannot know a subnet-directed broadcast address')
def r18_13(ctx):
    F = ctx.F
    D = 'socket::dhcpv4::Socket'
    b = ctx.method(D, 'parse_ack')
    sites = [bi for bi, si, var in agg_sites(b, 'std::option::Option', ['Some']) if b.locals[b.blocks[bi]['s'][si][1][0]]['ty'].startswith('std::option::Option<(')]
    ctx.need(sites, "Some(..) answer of parse_ack")

    def notbc(f):
        nodes = [x for x in f[1:] if isinstance(x, tuple) and x and isinstance(x[0], str)]
        has_bc = any(c[1].endswith('Cidr::broadcast') for n_ in nodes for c in _calls_in(simplify(n_)))
        yours = any(l.endswith('Repr.your_ip') for n_ in nodes for l in leafs(n_))
        if not (has_bc and yours):
            return False
        if f[0] == 'rel':
            return f[1] == 'Ne'
        if f[0] == 'bool':
            c = strip(f[1])
            neg = c[0] == 'call' and c[1].rsplit('::', 1)[-1] == 'ne'
            return (f[2] is False and not neg) or (f[2] is True and neg)
        if f[0] in ('is', 'isnot'):
            return True
        return False
    bad = unguarded(F, b, sites, notbc)
    if bad:
        ctx.bad("parse_ack|subnet-broadcast-lease", "parse_ack accepts your_ip without comparing it with the broadcast address of the announced subnet: an ACK assigning 192.168.1.255 with mask "
                "255.255.255.0 is reported as a configuration, and the client then renews with that broadcast address as IP source", body=b, bb=bad[0][0], path=bad[0][1])
    else:
        ctx.ok(('parse_ack', 'not the subnet broadcast'), sample=dict(fn='parse_ack', guard='Ipv4Cidr::new(your_ip, prefix).broadcast() != Some(your_ip)'))


@rule('R05.13', ['C05', 'C10'], floor=2, clause='the local MSS is the IP MTU minus the header length of the IP header this very segment gets (40 for IPv6, not a constant 20) minus the TCP header: in tcp dispatch what is subtracted from ip_mtu() first is header_len() of the segment\'s IpRepr')
def r05_13(ctx):
    F = ctx.F
    b = ctx.method(SOCK, 'dispatch')
    n = 0
    for bi, bl in enumerate(b.blocks):
        if bl['cl']:
            continue
        for si, s in enumerate(bl['s']):
            if not (s[0] == 'a' and s[2][0] == 'bin' and s[2][1] in ('Sub', 'SubWithOverflow')):
                continue
            a, c = [strip(simplify(F.origin.operand(b, o, bi, si))) for o in s[2][2:4]]
            if not is_call(a, '::ip_mtu'):
                continue
            n += 1
            if is_call(c, 'ip::Repr::header_len') and any(cc[1].endswith('ip::Repr::new') for cc in _calls_in(c)):
                ctx.ok(('tcp::dispatch', 'local mss', bi), sample=dict(local_mss='ip_mtu() - ip_repr.header_len() - TCP_HEADER_LEN'))
            else:
                ctx.bad("tcp::dispatch|local-mss-not-from-the-ip-header", f"tcp dispatch computes the local MSS as ip_mtu() - `{show(c)[:50]}`, not minus the header length of the segment's own IP header: "
                        "over IPv6 (40-octet header) segments are 20 octets larger than the link MTU allows whenever the peer's MSS does not cap them", body=b, bb=bi)
    ctx.need(n >= 2, f"ip_mtu() - .. computations in tcp dispatch (found {n})")


@rule('R05.14', ['C05'], floor=1, clause='towards a peer that announced no MSS (or MSS 0) the sender assumes the default of 536 octets (RFC 9293 MUST-15): reset() installs remote_mss = 536')
def r05_14(ctx):
    F = ctx.F
    b = ctx.method(SOCK, 'reset')
    ws = [w for w in F.field_writes() if w['fn'] == b.key and w['kind'] == 'store' and w['adt'] == SOCK and w['field'] == 'remote_mss']
    ctx.need(ws, "store to remote_mss in tcp reset()")
    for w in ws:
        v = const_of(strip(simplify(store_origin(F, b, w))))
        if v == 536:
            ctx.ok(('reset', 'remote_mss = 536'), sample=dict(field='remote_mss', default=536))
        else:
            ctx.bad("tcp::reset|default-mss", f"tcp reset() installs remote_mss = {v if v is not None else 'a computed value'} as the default: a peer that announced no MSS option is sent segments "
                    "larger than the 536 octets it must be assumed to accept", body=b, bb=w['bb'])


@rule('R20.11', ['C20', 'C06'], floor=1, clause='6LoWPAN multicast decompression takes the flags/scope octet from the wire in the 48-bit and 32-bit forms; only the 8-bit form implies ff02: a constant is stored into octet 1 of the rebuilt address only in the Multicast8bits arm')
def r20_11(ctx):
    F = ctx.F
    ks = [k for k in F.bodies if k.endswith('::resolve') and 'UnresolvedAddress' in k and '{closure' not in k]
    ctx.need(ks, "UnresolvedAddress::resolve")
    b = F.bodies[ks[0]]
    AM = 'wire::sixlowpan::AddressMode'
    sites = []
    for bi, bl in enumerate(b.blocks):
        if bl['cl']:
            continue
        for si, s in enumerate(bl['s']):
            if s[0] != 'a':
                continue
            pr = s[1][1]
            idx = [p for p in pr if isinstance(p, list) and p[0] in ('ci', 'i')]
            if not idx or b.locals[s[1][0]]['ty'] != '[u8; 16]':
                continue
            p = idx[-1]
            pos = p[1] if p[0] == 'ci' else b._const_local(p[1])
            if pos != 1:
                continue
            v = const_of(strip(simplify(F.origin.rvalue(b, s[2], bi, si, 0, None))))
            sites.append((bi, v))
    ctx.need(len(sites) >= 3, f"stores into octet 1 of the rebuilt address (found {len(sites)})")
    e8 = guard_edges(F, b, lambda f: f[0] == 'is' and f[2] == 'Multicast8bits' and f[3] == AM)
    ctx.need(e8, "the Multicast8bits arm of resolve")
    for bi, v in sites:
        if v is None:
            ctx.ok(('resolve', 'scope from the wire', bi), sample=dict(octet=1, value='inline[0]'))
        elif bi not in b.reachable(cut_edges=set(e8)):
            ctx.ok(('resolve', '8-bit form', bi), sample=dict(octet=1, value=hex(v), arm='Multicast8bits'))
        else:
            ctx.bad("UnresolvedAddress::resolve|multicast-scope-constant", f"UnresolvedAddress::resolve stores the constant {hex(v)} into octet 1 (flags/scope) of a multicast address outside the 8-bit form: "
                    "the compressor sends that octet in-line in the 32-bit and 48-bit forms, so ff05::1:3 is rebuilt as ff02::1:3", body=b, bb=bi)


@rule('R09.14', ['C09', 'C07'], floor=1, clause='a UDP datagram without payload (length field = 8) is a valid datagram: udp::Packet::check_len rejects a length field only when it is smaller than the header length, not when it equals it')
def r09_14(ctx):
    F = ctx.F
    ks = [k for k in F.bodies if re.match(r'wire::udp::Packet::<T>::check_len$', k)]
    ctx.need(ks, "udp::Packet::check_len")
    b = F.bodies[ks[0]]
    oks = [x[0] for x in agg_sites(b, 'std::result::Result', ['Ok'])]
    ctx.need(oks, "Ok(()) in udp check_len")
    n = 0
    for bi, bl in enumerate(b.blocks):
        if bl['cl'] or bl['t'][0] != 'switch':
            continue
        for tb, lab, f in cond_facts(F, b, bi):
            if f[0] != 'rel':
                continue
            for x, y, op in ((f[2], f[3], f[1]), (f[3], f[2], FLIP[f[1]])):
                if const_of(strip(simplify(y))) == 8 and any(c[1].endswith('udp::Packet::<T>::len') for c in _calls_in(simplify(x))):
                    if not any(o in b.reachable(start=tb) for o in oks):
                        continue
                    n += 1
                    if op in ('Ge',) or (op == 'Gt' and False):
                        ctx.ok(('udp::check_len', 'len >= 8'), sample=dict(accepts='length field >= 8'))
                    elif op in ('Gt', 'Ne'):
                        ctx.bad("udp::Packet::check_len|empty-datagram-rejected", "udp::Packet::check_len lets a packet pass only if its length field is greater than the header length: "
                                "a valid datagram without payload (length 8) is dropped and never reaches the bound socket", body=b, bb=bi)
    ctx.need(n >= 1, "comparison of the UDP length field with the header length on the accepting path")


@rule('R04.11', ['C04', 'C05'], floor=2, clause='the window scale a socket announces (and shifts its own window by) never exceeds 14: every value stored into remote_win_shift is 0 or clamped with min(.., 14) (RFC 7323: a larger shift count must be read as 14 by the peer, so the two ends would disagree about the advertised window)')
def r04_11(ctx):
    F = ctx.F
    n = 0
    for w in F.field_writes():
        if not (w['adt'] == SOCK and w['field'] == 'remote_win_shift' and w['kind'] == 'store') or '::test' in w['fn']:
            continue
        b = F.bodies[w['fn']]
        o = strip(simplify(store_origin(F, b, w)))
        n += 1
        _check_shift(ctx, b, w['bb'], o)
    # Socket::new builds the struct
    nb = ctx.method(SOCK, 'new')
    for bi, si, var in agg_sites(nb, SOCK):
        s = nb.blocks[bi]['s'][si]
        names = s[2][1].get('fnames') or []
        if 'remote_win_shift' in names:
            n += 1
            _check_shift(ctx, nb, bi, strip(simplify(F.origin.operand(nb, s[2][2][names.index('remote_win_shift')], bi, si))))
    ctx.need(n >= 2, f"stores to remote_win_shift (found {n})")


def _check_shift(ctx, b, bb, o):
    def clamped(x):
        x = strip(x)
        while x[0] == 'cast':
            x = strip(x[1])
        c = const_of(x)
        if c is not None:
            return c <= 14
        if x[0] == 'phi':
            return all(clamped(a) for a in x[1])
        if x[0] == 'call' and x[1].rsplit('::', 1)[-1] == 'min' and len(x[2]) == 2:
            return any((const_of(strip(a)) is not None and const_of(strip(a)) <= 14) for a in x[2]) or any(clamped(a) for a in x[2])
        if x[0] == 'call' and x[1] in ctx.F.bodies and depth[0] < 3:
            # the computation extracted into a private helper
            from ..wirelib import inline_call
            inl = inline_call(ctx.F, x)
            if inl is not None:
                depth[0] += 1
                try:
                    return clamped(simplify(inl))
                finally:
                    depth[0] -= 1
        return False
    depth = [0]
    short = b.key.rsplit('::', 1)[-1]
    if clamped(o):
        ctx.ok((short, 'shift <= 14', bb), sample=dict(fn=short, stores=show(o)[:60]))
    else:
        ctx.bad(f"tcp::{short}|window-shift-unclamped", f"tcp {short}() stores `{show(o)[:70]}` into remote_win_shift without clamping it to 14: a receive buffer of exactly 1 GiB (the largest "
                "new() accepts) gives shift 15, which the peer must read as 14 - the socket then accepts twice the window the peer understands as advertised", body=b, bb=bb)


@rule('R11.12', ['C11', 'C17'], floor=1, clause='a listener that an aborted handshake returns to LISTEN listens on what listen() bound it to - address and port: process() restores listen_endpoint as a whole (the value saved before reset()), never a single field of it')
def r11_12(ctx):
    F = ctx.F
    b = ctx.method(SOCK, 'process')
    whole, part = [], []
    for w in F.field_writes():
        if w['fn'] != b.key or w['kind'] != 'store':
            continue
        ch = w.get('chain') or []
        if (SOCK, 'listen_endpoint') not in ch:
            continue
        if ch[-1] == (SOCK, 'listen_endpoint'):
            whole.append(w)
        else:
            part.append(w)
    ctx.need(whole or part, "store to listen_endpoint in tcp process() (RST in SYN-RECEIVED)")
    if part:
        ctx.bad("tcp::process|listen-endpoint-partly-restored", f"process() writes only `{part[0]['field']}` of listen_endpoint when a RST returns a listener to LISTEN (reset() has cleared the rest): "
                "a socket bound with listen((addr, port)) afterwards accepts a SYN addressed to any other address of the interface", body=b, bb=part[0]['bb'])
    for w in whole:
        o = strip(simplify(store_origin(F, b, w)))
        if any(l.endswith('tcp::Socket.listen_endpoint') for l in leafs(o)):
            ctx.ok(('process', 'listen_endpoint restored whole'), sample=dict(store='self.listen_endpoint = <value saved before reset()>'))
        else:
            ctx.bad("tcp::process|listen-endpoint-not-the-saved-one", f"process() stores `{show(o)[:60]}` into listen_endpoint, not the endpoint the socket was listening on", body=b, bb=w['bb'])


@rule('R08.12', ['C08', 'C12', 'C10'], floor=6, clause='the transmit half of a checksum setting governs what is filled in and the receive half what is verified: no fill_checksum() is decided by Checksum::rx() and no verify_checksum() by Checksum::tx()')
def r08_12(ctx):
    F = ctx.F
    n = 0
    for k, b in sorted(F.bodies.items()):
        if '::test' in k or not (b.file or '').startswith('src/'):
            continue
        sites = [(x[0], (b.callee_name(x[1]) or '').rsplit('::', 1)[-1]) for x in b.calls()
                 if (b.callee_name(x[1]) or '').rsplit('::', 1)[-1] in ('fill_checksum', 'verify_checksum')]
        if not sites:
            continue
        wrong = {}
        for bi, bl in enumerate(b.blocks):
            if bl['cl'] or bl['t'][0] != 'switch':
                continue
            for tb, lab, f in cond_facts(F, b, bi):
                if f[0] == 'bool' and f[2] is True:
                    c = strip(f[1])
                    if c[0] == 'call' and c[1].endswith('phy::Checksum::rx'):
                        wrong.setdefault('fill_checksum', []).append((bi, tb, lab))
                    if c[0] == 'call' and c[1].endswith('phy::Checksum::tx'):
                        wrong.setdefault('verify_checksum', []).append((bi, tb, lab))
        for bb, what in sites:
            n += 1
            es = wrong.get(what, [])
            dom = [e for e in es if bb not in b.reachable(cut_edges={e})]
            short = k.split('::{closure', 1)[0].rsplit('::', 2)[-2:] if '::' in k else [k]
            if dom:
                ctx.bad(f"{'::'.join(short)}|{what}-under-the-other-half", f"{k} calls {what}() under Checksum::{'rx' if what == 'fill_checksum' else 'tx'}(): with an asymmetric offload setting "
                        "(Checksum::Tx or Checksum::Rx) the checksum is left wrong on transmit / not verified on receive", body=b, bb=bb)
            else:
                ctx.ok((k, what, bb))
    ctx.need(n >= 6, f"fill_checksum / verify_checksum call sites (found {n})")


@rule('R12.12', ['C12', 'C20', 'C09'], floor=1, clause='a reassembled datagram is handed out with exactly its total size: PacketAssembler::assemble answers buffer[..total_size], not the whole reassembly buffer (which keeps the tail of longer datagrams reassembled earlier)')
def r12_12(ctx):
    F = ctx.F
    PA = 'iface::fragmentation::PacketAssembler'
    b = ctx.method(PA, 'assemble')
    n = 0
    for bi, si, var in agg_sites(b, 'std::option::Option', ['Some']):
        s = b.blocks[bi]['s'][si]
        if not b.locals[s[1][0]]['ty'].startswith('std::option::Option<&'):
            continue
        n += 1
        o = strip(simplify(F.origin.operand(b, s[2][2][0], bi, si)))
        while o[0] in ('ref', 'deref'):
            o = strip(o[1])
        okc = False
        if is_call(o, '::index') and len(o[2]) == 2:
            rb = range_bounds(F, o[2][1])
            if rb is not None and rb[0] in ('RangeTo', 'Range') and rb[2] is not None and any(l.endswith('PacketAssembler.total_size') for l in leafs(strip(simplify(rb[2])))):
                okc = True
        if okc:
            ctx.ok(('assemble', 'cut at total_size'), sample=dict(fn='PacketAssembler::assemble', answers='buffer[..total_size]'))
        else:
            ctx.bad("PacketAssembler::assemble|not-cut-at-total-size", f"PacketAssembler::assemble answers `{show(o)[:60]}` instead of buffer[..total_size]: a datagram shorter than one reassembled "
                    "before it in the same slot is delivered with the stale tail of the earlier one appended", body=b, bb=bi)
    ctx.need(n >= 1, "Some(..) answer of PacketAssembler::assemble")


@rule('R13.16', ['C13', 'C16'], floor=1, clause='has_neighbor() says "reachable without asking the neighbor cache" only on the medium that has no link-layer addresses (Medium::Ip): on Ethernet and IEEE 802.15.4 the answer comes from the cache, so a socket waiting for discovery stays silenced (poll_at = the back-off instant) instead of being polled at once again and again')
def r13_16(ctx):
    F = ctx.F
    b = ctx.method(IFI, 'has_neighbor')
    M = 'phy::Medium'
    trues = []
    for bi, bl in enumerate(b.blocks):
        if bl['cl']:
            continue
        for s in bl['s']:
            if s[0] == 'a' and s[1] == [0, []] and s[2][0] == 'use' and s[2][1][0] == 'k' and s[2][1][2] is True:
                trues.append(bi)
    ctx.need(trues, "the unconditional `true` answer of has_neighbor")
    linked = set(F.variants(M) or []) - {'Ip'}
    only_ip = lambda f: (f[0] == 'is' and f[3] == M and f[2] == 'Ip') or (f[0] == 'isnot' and f[3] == M and linked <= set(f[2]))
    bad = unguarded(F, b, trues, only_ip)
    if bad:
        ctx.bad("has_neighbor|true-without-cache-on-a-link-layer-medium", "has_neighbor() answers true without consulting the neighbor cache on a medium other than Medium::Ip: a socket whose next hop "
                "is unresolved on IEEE 802.15.4 (or Ethernet) is taken out of its discovery silence at every poll_at, which then answers `now` while the rate-limited cache lets nothing be sent", body=b, bb=bad[0][0], path=bad[0][1])
    else:
        ctx.ok(('has_neighbor', 'cache on link-layer media'), sample=dict(fn='has_neighbor', true_without_lookup='Medium::Ip only'))


@rule('R20.12', ['C20', 'C10'], floor=1, clause='6LoWPAN: the size of the first fragment is computed from the same 125-octet frame limit as the later ones (minus MAC header and FRAG1 header): the frame-size constant in the frag1 computation of dispatch_sixlowpan is 125, the one the unfragmented test and fragn_size use')
def r20_12(ctx):
    F = ctx.F
    ws = [w for w in F.field_writes() if w['field'] == 'sent_bytes' and w['kind'] == 'store' and 'dispatch_sixlowpan' in w['fn'] and '::test' not in w['fn']]
    ctx.need(ws, "store to Fragmenter.sent_bytes in dispatch_sixlowpan")
    n = 0
    for w in ws:
        b = F.body(w['fn'])
        o = simplify(store_origin(F, b, w))
        if not any(c[1].endswith('sixlowpan::frag::Repr::buffer_len') for c in _calls_in(o)):
            continue
        n += 1
        big = sorted({const_of(x) for x in _consts(o) if (const_of(x) or 0) >= 100})
        if big == [125]:
            ctx.ok(('frag1_size', '125'), sample=dict(frag1_size='(125 - mac header - FRAG1 header + header_diff) / 8 * 8 - header_diff'))
        else:
            ctx.bad("dispatch_sixlowpan|frag1_size|frame-limit", f"dispatch_sixlowpan computes the size of the first fragment from the frame-size constant(s) {big} instead of 125: for some "
                    "address / port combinations the FRAG1 frame comes out 126 or 127 octets long, beyond what an IEEE 802.15.4 frame can carry", body=b, bb=w['bb'])
    ctx.need(n >= 1, "the frag1 size computation (sent_bytes = frag1_size)")


@rule('R16.12', ['C16', 'C03'], floor=1, clause='a SLAAC default route is valid for exactly as long as the most recent router advertisement says: Slaac::add_route stores the lifetime it is given (a later advertisement with a shorter lifetime shortens the route)')
def r16_12(ctx):
    F = ctx.F
    SL = 'iface::slaac::Slaac'
    b = ctx.method(SL, 'add_route')
    ws = [w for w in F.field_writes() if w['fn'] == b.key and w['kind'] == 'store' and w['field'] == 'valid_until']
    n = 0
    for w in ws:
        n += 1
        o = strip(simplify(store_origin(F, b, w)))
        if o[0] == 'arg' and b.locals[o[1]]['ty'] == 'time::Instant':
            ctx.ok(('add_route', 'valid_until', w['bb']), sample=dict(stores='route.valid_until = valid_until'))
        else:
            ctx.bad("Slaac::add_route|lifetime-not-the-advertised-one", f"Slaac::add_route stores `{show(o)[:60]}` as the route's lifetime instead of the one just advertised: a router that announces a "
                    "shorter lifetime keeps its default route, and packets go on to the gateway of a route that has expired", body=b, bb=w['bb'])
    for bi, si, var in agg_sites(b, 'iface::slaac::Route'):
        s = b.blocks[bi]['s'][si]
        names = s[2][1].get('fnames') or []
        if 'valid_until' in names:
            n += 1
            o = strip(simplify(F.origin.operand(b, s[2][2][names.index('valid_until')], bi, si)))
            if o[0] == 'arg':
                ctx.ok(('add_route', 'new route', bi))
            else:
                ctx.bad("Slaac::add_route|new-route-lifetime", f"Slaac::add_route creates a route valid until `{show(o)[:60]}`", body=b, bb=bi)
    ctx.need(n >= 1, "valid_until stores in Slaac::add_route")


@rule('R02.17', ['C02', 'C17', 'C13'], floor=1, clause='process() arms the zero-window-probe timer only when data is queued (behind !tx_buffer.is_empty()): it never replaces another timer - the TIME-WAIT timer in particular - when there is nothing to probe with')
def r02_17(ctx):
    F = ctx.F
    b = ctx.method(SOCK, 'process')
    sites = [x[0] for x in b.calls() if (b.callee_name(x[1]) or '').endswith('Timer::set_for_zero_window_probe')]
    ctx.need(sites, "set_for_zero_window_probe in tcp process()")
    queued = lambda f: (f[0] == 'bool' and f[2] is False and is_call(strip(f[1]), '::is_empty') and any(l.endswith('.tx_buffer') for l in leafs(f[1]))) or \
        (f[0] == 'rel' and f[1] in ('Ne', 'Gt') and any(l.endswith('.tx_buffer') for l in leafs(f[2])) and const_of(strip(f[3])) == 0)
    bad = unguarded(F, b, sites, queued)
    if bad:
        ctx.bad("tcp::process|probe-timer-armed-without-data", "process() can arm the zero-window-probe timer with an empty transmit buffer: a segment that acknowledges everything and announces window 0 "
                "while the socket enters TIME-WAIT replaces the 10 s close timer (the stop clause then idles it), so TIME-WAIT never ends", body=b, bb=bad[0][0], path=bad[0][1])
    else:
        ctx.ok(('process', 'probe timer needs data'), sample=dict(fn='tcp::Socket::process', arms='zero-window-probe timer', behind='!tx_buffer.is_empty()'))


@rule('R20.13', ['C20', 'C03'], floor=2, clause='6LoWPAN: every kind of header the egress side sends uncompressed behind the IPHC header (the Uncompressed(..) answers of as_sixlowpan_next_header: TCP, ICMPv6, the hop-by-hop header of MLD reports) is one the decompressor accepts in its uncompressed arm')
def r20_13(ctx):
    F = ctx.F
    NH = 'wire::sixlowpan::NextHeader'
    P = 'wire::ip::Protocol'
    eb = [F.bodies[k] for k in F.bodies if k.endswith('::as_sixlowpan_next_header')]
    db = [F.bodies[k] for k in F.bodies if k.endswith('::sixlowpan_to_ipv6') and '{closure' not in k]
    ctx.need(eb and db, "as_sixlowpan_next_header / sixlowpan_to_ipv6")
    e, d = eb[0], db[0]
    sent = set()
    for bi, si, var in agg_sites(e, NH, ['Uncompressed']):
        s = e.blocks[bi]['s'][si]
        o = strip(simplify(F.origin.operand(e, s[2][2][0], bi, si)))
        if o[0] == 'variant':
            sent.add(o[1].rsplit('::', 1)[-1])
    ctx.need(len(sent) >= 2, f"Uncompressed(..) answers of as_sixlowpan_next_header (found {sorted(sent)})")
    copies = {x[0] for x in d.calls() if (d.callee_name(x[1]) or '').endswith('::copy_from_slice')}
    accepted = set()
    for bi, bl in enumerate(d.blocks):
        if bl['cl'] or bl['t'][0] != 'switch':
            continue
        for tb, lab, f in cond_facts(F, d, bi):
            if f[0] == 'is' and f[3] == P and any(c in d.reachable(start=tb, cut_blocks={bi}) for c in copies):
                accepted.add(f[2])
    ctx.need(accepted, "protocols accepted in the uncompressed arm of sixlowpan_to_ipv6")
    for v in sorted(sent):
        if v in accepted:
            ctx.ok(('uncompressed', v), sample=dict(sent_uncompressed=v, accepted=True))
        else:
            ctx.bad(f"sixlowpan_to_ipv6|uncompressed-{v}-rejected", f"the 6LoWPAN egress sends a {v} header uncompressed behind the IPHC header, but sixlowpan_to_ipv6 rejects that next header "
                    f"(it accepts {sorted(accepted)}): a datagram this stack sends over IEEE 802.15.4 (an MLD report) cannot be decompressed by a receiving interface", body=d)


@rule('R09.15', ['C09', 'C06'], floor=1, clause='an ICMPv4 error is valid with the quote RFC 792 prescribes - the IP header and the first 64 bits of the datagram: Icmpv4Repr::parse validates the quoted header only and does not run Ipv4Packet::new_checked / check_len (which demand total_len octets) on the quote')
def r09_15(ctx):
    F = ctx.F
    ks = [k for k in F.bodies if re.match(r"wire::icmpv4::Repr::<'a>::parse$", k) or re.match(r"wire::icmpv4::Repr::parse$", k)]
    ctx.need(ks, "icmpv4::Repr::parse")
    b = F.bodies[ks[0]]
    # parse and every helper of wire::icmpv4 it reaches
    fam, todo = [], [b]
    while todo:
        y = todo.pop()
        if y in fam:
            continue
        fam.append(y)
        todo += [F.bodies[n] for n in {y.callee_name(x[1]) for x in y.calls()} if n in F.bodies and n.startswith('wire::icmpv4::')]
    quoted = False
    for fb in fam:
        for x in fb.calls():
            cn = fb.callee_name(x[1]) or ''
            if re.search(r'wire::ipv4::Packet::<.*>::(new_checked|check_len)$', cn):
                ctx.bad("icmpv4::Repr::parse|complete-quote-demanded", "icmpv4::Repr::parse runs Ipv4Packet::new_checked / check_len on the quoted datagram, which demands all total_len octets of it: "
                        "a Destination Unreachable / Time Exceeded quoting the header plus 8 octets of a longer datagram - what RFC 792 prescribes and what this stack itself sends for "
                        "datagrams beyond 548 octets - is rejected, so no ICMP socket ever receives it", body=fb, bb=x[0])
                return
            if re.search(r'wire::ipv4::Packet::<.*>::new_unchecked$', cn):
                quoted = True
    ctx.need(quoted, "a view of the quoted IPv4 header in icmpv4::Repr::parse")
    ctx.ok(('icmpv4::parse', 'header-only quote'), sample=dict(fn='icmpv4::Repr::parse', validates='the quoted IP header only'))


@rule('R02.18', ['C02', 'C13'], floor=1, clause='a zero-window probe sent while earlier segments are unacknowledged starts at SND.UNA: tcp dispatch takes the probe\'s octet at offset 0 when data is in flight (behind a test of flight_size(), next to the ordinary slice at flight_size()), so the unacknowledged data is offered again instead of an empty segment at SND.NXT')
def r02_18(ctx):
    F = ctx.F
    b = ctx.method(SOCK, 'dispatch')
    inflight = lambda f: f[0] == 'rel' and ((f[1] in ('Gt', 'Ne') and is_call(strip(f[2]), '::flight_size') and const_of(strip(f[3])) == 0) or
                                            (f[1] == 'Lt' and is_call(strip(f[3]), '::flight_size') and const_of(strip(f[2])) == 0) or
                                            (f[1] in ('Ne', 'Gt', 'Lt') and {'remote_last_seq', 'local_seq_no'} <= {l.rsplit('.', 1)[-1] for l in leafs(f[2]) | leafs(f[3])}))
    g = set(guard_edges(F, b, inflight))
    normal, from_una = [], []
    for x in b.calls():
        cn = b.callee_name(x[1]) or ''
        if not cn.endswith('::get_allocated'):
            continue
        at = len(b.blocks[x[0]]['s'])
        rcv = strip(simplify(F.origin.operand(b, x[2][0], x[0], at)))
        if not any(l.endswith('.tx_buffer') for l in leafs(rcv)):
            continue
        off = strip(simplify(F.origin.operand(b, x[2][1], x[0], at)))
        al = alts(off) if off[0] == 'phi' else [off]
        if any(c[1].endswith('::flight_size') for c in _calls_in(off)):
            normal.append((x[0], any(const_of(a) == 0 for a in al)))
        elif const_of(off) == 0 and g and x[0] not in b.reachable(cut_edges=g):
            from_una.append(x[0])
    ctx.need(normal, "the payload slice of ordinary / probe segments in tcp dispatch (get_allocated at flight_size())")
    if from_una or any(z for _, z in normal):
        ctx.ok(('dispatch', 'probe offset'), sample=dict(offset='0 with data in flight (probe), flight_size() otherwise'))
    else:
        ctx.bad("tcp::dispatch|probe-behind-unacknowledged-data", "tcp dispatch takes the octet of a zero-window probe at offset flight_size() even when earlier segments are unacknowledged: with everything "
                "queued already in flight the probe is an empty segment at SND.NXT, which gets no reply once the window has reopened - a lost segment plus a lost window update stall the "
                "connection for ever", body=b, bb=normal[0][0])


@rule('R06.21', ['C06', 'C18'], floor=1, clause='a DHCP option may carry up to 255 octets (its length octet): DhcpOptionWriter::emit refuses an option only when its data is longer than 255, not when it is exactly 255')
def r06_21(ctx):
    F = ctx.F
    b = ctx.method('wire::dhcpv4::DhcpOptionWriter', 'emit')
    n = 0
    for bi, bl in enumerate(b.blocks):
        if bl['cl'] or bl['t'][0] != 'switch':
            continue
        for tb, lab, f in cond_facts(F, b, bi):
            if f[0] != 'rel':
                continue
            for x, y, op in ((f[2], f[3], f[1]), (f[3], f[2], FLIP[f[1]])):
                sx = strip(simplify(x))
                k = const_of(strip(simplify(y)))
                if k is None and 'MAX' in show(y):
                    k = 255
                if not (is_call(sx, '::len', nargs=1) and any(l.endswith('DhcpOption.data') or '.data' in l for l in leafs(sx)) and k in (255, 256)):
                    continue
                # the edge on which writing goes on
                writes = [z[0] for z in b.calls() if (b.callee_name(z[1]) or '').endswith('::copy_from_slice')]
                if not any(w in b.reachable(start=tb) for w in writes):
                    continue
                n += 1
                okp = (op == 'Le' and k == 255) or (op == 'Lt' and k == 256)
                if okp:
                    ctx.ok(('DhcpOptionWriter::emit', 'len <= 255'), sample=dict(accepts='option data of up to 255 octets'))
                else:
                    ctx.bad("DhcpOptionWriter::emit|255-octet-option-refused", f"DhcpOptionWriter::emit goes on only for data.len() {op} {k}: an option with exactly 255 octets of data - the legal "
                            "maximum - is refused, so a representation carrying one cannot be emitted into a buffer of its declared length", body=b, bb=bi)
    ctx.need(n >= 1, "the length limit of DhcpOptionWriter::emit")


@rule('R03.16', ['C03', 'C10', 'C05'], floor=2, clause='the IP payload length of an immediate TCP reply is taken from the reply after its last change: in ack_reply every path to the return passes set_payload_len(reply.buffer_len()) after the stores of the timestamp / SACK options (a 32-octet header announced as 20 makes the emitter index past its buffer)')
def r03_16(ctx):
    F = ctx.F
    REPR_ = 'wire::tcp::Repr'
    b = ctx.method(SOCK, 'ack_reply')
    S = set()
    for x in b.calls():
        if (b.callee_name(x[1]) or '').endswith('::set_payload_len'):
            o = strip(simplify(F.origin.operand(b, x[2][1], x[0], len(b.blocks[x[0]]['s']))))
            if any(c[1].endswith('tcp::Repr::<\'a>::buffer_len') or c[1].endswith('tcp::Repr::buffer_len') for c in _calls_in(o)):
                S.add(x[0])
    ctx.need(S, "set_payload_len(reply_repr.buffer_len()) in tcp ack_reply")
    seen = b.reachable(cut_blocks=S)
    rets = [r for r in b.return_blocks() if r in seen and r not in S]
    if rets:
        ctx.bad("tcp::ack_reply|payload-length-not-updated", "ack_reply can return without setting the IP payload length from the finished reply: with the timestamp option (and no SACK) the "
                "TCP header is 32 octets while the IP header still announces 20, and the emitter panics on the short buffer", body=b, bb=rets[0], path=b.path_to(seen, rets[0]))
    else:
        ctx.ok(('ack_reply', 'payload length set'), sample=dict(fn='tcp::Socket::ack_reply', last='ip_reply_repr.set_payload_len(reply_repr.buffer_len())'))
    late = []
    for w in F.field_writes():
        if w['fn'] == b.key and w['kind'] == 'store' and w['adt'] == REPR_:
            after = b.reachable(start=w['bb'], cut_blocks=S)
            if w['bb'] not in S and any(r in after for r in b.return_blocks()):
                late.append(w)
    if late:
        ctx.bad("tcp::ack_reply|option-stored-after-length", f"ack_reply stores `{late[0]['field']}` of the reply on a path on which the payload length is not set afterwards", body=b, bb=late[0]['bb'])
    else:
        ctx.ok(('ack_reply', 'options before length'), sample=dict(fn='tcp::Socket::ack_reply', order='options, then payload length'))


@rule('R02.19', ['C02', 'C13'], floor=1, clause='the retransmission timer is switched off only by an acknowledgment that covers everything sent (remote_last_seq <= ack number, the FIN included): in process() the idle timer replaces a running retransmission timer only behind that comparison')
def r02_19(ctx):
    F = ctx.F
    TIMER = 'socket::tcp::Timer'
    b = ctx.method(SOCK, 'process')
    rt_edges = [e for e in guard_edges(F, b, lambda f: f[0] == 'is' and f[3] == TIMER and f[2] in ('Retransmit', 'FastRetransmit'))]
    ctx.need(rt_edges, "the Retransmit / FastRetransmit arm of the timer update in process()")
    idle = [x[0] for x in b.calls() if (b.callee_name(x[1]) or '').endswith('Timer::set_for_idle')]
    wo = b.reachable(cut_edges=set(rt_edges))
    sites = [s_ for s_ in idle if s_ not in wo]
    ctx.need(sites, "set_for_idle in the retransmission-timer arm of process()")
    allacked = lambda f: f[0] == 'rel' and ((f[1] in ('Le', 'Eq') and any(l.endswith('.remote_last_seq') for l in leafs(f[2])) and any(l.endswith('Repr.ack_number') for l in leafs(f[3]))) or
                                            (f[1] in ('Ge', 'Eq') and any(l.endswith('.remote_last_seq') for l in leafs(f[3])) and any(l.endswith('Repr.ack_number') for l in leafs(f[2]))))
    g0 = set(guard_edges(F, b, allacked))
    G = derived_guard_edges(b, g0, polarity=True, pred=allacked)
    bad = cut_sites(b, sites, G)
    if bad:
        ctx.bad("tcp::process|retransmit-timer-idled-early", "process() replaces a running retransmission timer by the idle timer without the acknowledgment covering everything sent "
                "(remote_last_seq <= ack number): with the data acknowledged but the FIN behind it lost, nothing retransmits the FIN and poll_at answers Ingress", body=b, bb=bad[0][0], path=bad[0][1])
    else:
        ctx.ok(('process', 'ack_all'), sample=dict(fn='tcp::Socket::process', idles_retransmit_timer='only if remote_last_seq <= ack_number'))


@rule('R05.15', ['C05'], floor=1, clause='every accepted segment updates the send window: in process() what is stored into remote_win_len is the segment\'s window field (shifted by the peer\'s scale) on every path - never the old value kept because of where the segment lies in the sequence space')
def r05_15(ctx):
    F = ctx.F
    b = ctx.method(SOCK, 'process')
    ws = [w for w in F.field_writes() if w['fn'] == b.key and w['kind'] == 'store' and w['adt'] == SOCK and w['field'] == 'remote_win_len']
    ctx.need(ws, "store to remote_win_len in tcp process()")
    for w in ws:
        o = strip(simplify(store_origin(F, b, w)))
        al = alts(o) if o[0] == 'phi' else [o]
        stale = [a for a in al if not any(l.endswith('tcp::Repr.window_len') for l in leafs(a))]
        if stale:
            ctx.bad("tcp::process|send-window-not-updated", f"process() can store `{show(stale[0])[:60]}` into remote_win_len instead of the window the segment announces: a segment that shrinks or closes "
                    "the window (an out-of-order segment, a window update behind a lost segment) is ignored and later data exceeds the window the peer last announced", body=b, bb=w['bb'])
        else:
            ctx.ok(('process', 'remote_win_len', w['bb']), sample=dict(stores='repr.window_len << scale'))


@rule('R20.14', ['C20', 'C06'], floor=2, clause='6LoWPAN IPHC: the size of each in-line address is decided from the link-layer address of the same side (source with ll_src_addr, destination with ll_dst_addr) in Repr::buffer_len, exactly as Repr::emit passes them to the address setters')
def r20_14(ctx):
    F = ctx.F
    R = 'wire::sixlowpan::iphc::Repr'
    b = ctx.method(R, 'buffer_len')
    pair = {'ll_src_addr': ('src_addr', 'dst_addr'), 'll_dst_addr': ('dst_addr', 'src_addr')}
    seen = set()
    for bi, bl in enumerate(b.blocks):
        if bl['cl'] or bl['t'][0] != 'switch':
            continue
        for tb, lab, f in cond_facts(F, b, bi):
            ls = set()
            for x in f[1:]:
                if isinstance(x, tuple):
                    ls |= leafs(x)
            for ll, (own, other) in pair.items():
                if f"F:{R}.{ll}" in ls:
                    if f"F:{R}.{other}" in ls and f"F:{R}.{own}" not in ls:
                        ctx.bad(f"iphc::Repr::buffer_len|{ll}-with-{other}", f"iphc::Repr::buffer_len decides the in-line size of {other} from {ll} (the other side's link-layer address) while emit "
                                f"elides it against its own: the header is sized differently from what is written and the payload that follows is misplaced", body=b, bb=bi)
                    elif f"F:{R}.{own}" in ls:
                        seen.add(ll)
    for ll in sorted(seen):
        ctx.ok(('buffer_len', ll), sample=dict(fn='iphc::Repr::buffer_len', elision_of=pair[ll][0], against=ll))
    ctx.need(len(seen) == 2, "link-layer address comparisons for both sides in iphc::Repr::buffer_len")
    e = ctx.method(R, 'emit')
    n = 0
    for x in e.calls():
        cn = e.callee_name(x[1]) or ''
        for side in ('src', 'dst'):
            if cn.endswith(f"::set_{side}_address") and len(x[2]) >= 3:
                n += 1
                a1 = leafs(F.origin.operand(e, x[2][1], x[0], len(e.blocks[x[0]]['s'])))
                a2 = leafs(F.origin.operand(e, x[2][2], x[0], len(e.blocks[x[0]]['s'])))
                if f"F:{R}.{side}_addr" in a1 and f"F:{R}.ll_{side}_addr" in a2:
                    ctx.ok(('emit', side))
                else:
                    ctx.bad(f"iphc::Repr::emit|set_{side}_address|args", f"iphc::Repr::emit passes {sorted(a1)[:2]} / {sorted(a2)[:2]} to set_{side}_address", body=e, bb=x[0])
    ctx.need(n == 2, "set_src_address / set_dst_address in iphc::Repr::emit")


@rule('R19.8', ['C19', 'C13'], floor=1, clause='DNS fail-over: when the query moves to the next server its retransmission deadline is reset as well (the new server is asked at once, not when the previous server\'s back-off would have fired)')
def r19_8(ctx):
    F = ctx.F
    D, PQ = 'socket::dns::Socket', 'socket::dns::PendingQuery'
    b = ctx.method(D, 'dispatch')
    def stores(field):
        return [w for w in F.field_writes() if w['fn'] == b.key and w['kind'] == 'store' and w['adt'] == PQ and w['field'] == field]
    si = stores('server_idx')
    ctx.need(si, "server_idx store in dns dispatch")
    resets = []
    for w in stores('retransmit_at'):
        ls = leafs(store_origin(F, b, w))
        if f"F:{PQ}.delay" not in ls and f"F:{PQ}.retransmit_at" not in ls:
            resets.append(w['bb'])
    timeout = lambda f: f[0] == 'rel' and f[1] in ('Le', 'Lt') and f"F:{PQ}.timeout_at" in leafs(f[2]) and \
        any(l.endswith('::now') for l in leafs(f[3]) if l.startswith('C:'))
    te = guard_edges(F, b, timeout)
    ctx.need(te, "server timeout test in dns dispatch")
    for w in si:
        bad = False
        for (bi, tb, lab) in te:
            fwd = b.reachable(start=tb, cut_blocks=set(resets) - {tb})
            if w['bb'] not in fwd or tb in resets or w['bb'] in resets:
                continue
            bad = True
        # the reset may also follow the increment: then no test of retransmit_at is reached from the store without passing it
        if bad and resets:
            uses = set()
            for bi, bl in enumerate(b.blocks):
                if not bl['cl'] and bl['t'][0] == 'switch' and any(f"F:{PQ}.retransmit_at" in leafs(x) for tb, lab, f in cond_facts(F, b, bi)
                                                                    for x in f[1:] if isinstance(x, tuple)):
                    uses.add(bi)
            fwd = b.reachable(start=w['bb'], cut_blocks=set(resets))
            if any(r_ in b.reachable(start=w['bb']) for r_ in resets) and not (uses & set(fwd)):
                bad = False
        if bad:
            ctx.bad("dns::dispatch|failover-stale-retransmit", "fail-over to the next DNS server keeps the previous server's retransmission deadline (up to the full back-off away): "
                    "the new server is first asked several seconds late and gets a fraction of its time budget", body=b, bb=w['bb'])
        else:
            ctx.ok(('failover', 'resets-retransmit_at'), sample=dict(on_failover='retransmit_at = Instant::ZERO'))


@rule('R13.17', ['C13', 'C02'], floor=1, clause='the user-timeout decision of tcp dispatch (timed_out) is a function of the last-activity instant, the timeout option and the clock only - the same quantities poll_at\'s timeout deadline is computed from in every state (a state-dependent exception in one of them makes poll_at report an instant at which dispatch does nothing)')
def r13_17(ctx):
    F = ctx.F
    b = ctx.method(SOCK, 'timed_out')
    ls = set()
    for bi, bl in enumerate(b.blocks):
        if bl['cl'] or bl['t'][0] != 'switch':
            continue
        for tb, lab, f in cond_facts(F, b, bi):
            for x in f[1:]:
                if isinstance(x, tuple):
                    ls |= leafs(x)
    ls |= leafs(ret_origin(F, b))
    fields = {l.rsplit('.', 1)[-1] for l in ls if l.startswith(f"F:{SOCK}.")}
    ctx.need({'remote_last_ts', 'timeout'} <= fields, "timed_out reads remote_last_ts and timeout")
    extra = fields - {'remote_last_ts', 'timeout'}
    if extra:
        ctx.bad(f"tcp::timed_out|depends-on|{'+'.join(sorted(extra))}", f"tcp::Socket::timed_out also depends on {sorted(extra)} while poll_at computes the user-timeout deadline from "
                "remote_last_ts + timeout in every state: where the two disagree poll_at keeps reporting a deadline in the past and dispatch does nothing (the event loop spins)", body=b)
    else:
        ctx.ok(('timed_out', 'inputs'), sample=dict(fn='timed_out', reads=sorted(fields)))


@rule('R14.13', ['C14', 'C01'], floor=1, clause='contiguous_window() never exceeds window(): the free run handed to an enqueue is the smaller of the free space and the distance to the end of the storage (a full ring, where the write position equals the read position as for an empty one, yields 0)')
def r14_13(ctx):
    F = ctx.F
    RB = 'storage::ring_buffer::RingBuffer'
    b = ctx.method(RB, 'contiguous_window')
    wk = ctx.method(RB, 'window').key
    is_w = lambda n: strip(n)[0] == 'call' and strip(n)[1] == wk
    r = simplify(ret_origin(F, b))
    bad = []
    for a in alts(r):
        a = strip(a)
        if is_w(a) or (is_call(a, '::min', nargs=2) and any(is_w(x) for x in call_args(a))):
            continue
        # if-form of the clamp: the other value is returned only behind `value <= window()`
        def le_w(f, a=a):
            if f[0] != 'rel':
                return False
            lo, hi = (f[2], f[3]) if f[1] in ('Le', 'Lt') else ((f[3], f[2]) if f[1] in ('Ge', 'Gt') else (None, None))
            return lo is not None and is_w(simplify(hi)) and strip(simplify(lo)) == a
        if not guard_edges(F, b, le_w):
            bad.append(a)
    if bad:
        ctx.bad("RingBuffer::contiguous_window|exceeds-window", f"contiguous_window() can answer {show(bad[0])[:70]}, which is not bounded by window(): on a full ring the write position "
                "equals the read position and the run up to the end of the storage is handed out although nothing is free - enqueue_many overwrites unread data", body=b)
    else:
        ctx.ok(('contiguous_window', '<= window()'), sample=dict(fn='contiguous_window', value='min(window(), capacity() - write_at)'))


@rule('R16.13', ['C16', 'C10', 'C11'], floor=2, clause='the interface takes the directed-broadcast address of its own networks from Ipv4Cidr::broadcast(), which has none for /31 and /32 prefixes (RFC 3021): the peer on a point-to-point link is a unicast neighbour to be resolved, not a broadcast address')
def r16_13(ctx):
    F = ctx.F
    C = 'wire::ipv4::Cidr'
    bc = ctx.method(C, 'broadcast')
    somes = [x[0] for x in agg_sites(bc, 'std::option::Option', ['Some'])]
    ctx.need(somes, "Some(..) in Ipv4Cidr::broadcast")

    def short(f):
        # prefix_len known to be neither 31 nor 32 / below 31
        if f[0] == 'notin' and any(l.endswith('.prefix_len') for l in leafs(f[1])) and 31 in f[2]:
            return True         # the otherwise-arm of `match prefix_len { 31 | 32 => .. }`
        if f[0] != 'rel' or not any(l.endswith('.prefix_len') for l in leafs(f[2]) | leafs(f[3])):
            return False
        c = const_of(simplify(f[3])) if any(l.endswith('.prefix_len') for l in leafs(f[2])) else None
        return (f[1] == 'Ne' and c == 31) or (f[1] in ('Lt',) and c == 31) or (f[1] == 'Le' and c == 30)
    b1 = [s_ for s_ in somes if unguarded(F, bc, [s_], short)]
    if b1:
        ctx.bad("ipv4::Cidr::broadcast|slash31", "Ipv4Cidr::broadcast() yields an address for a /31 network: the second host of a point-to-point link is taken for the broadcast address",
                body=bc, bb=b1[0])
    else:
        ctx.ok(('Cidr::broadcast', 'none for /31'), sample=dict(fn='Ipv4Cidr::broadcast', guard='prefix_len != 31 (&& != 32)'))
    ib = ctx.method('iface::interface::InterfaceInner', 'is_broadcast_v4')
    fam = [ib] + list(F.closures_of(ib.key))
    uses = any((x.callee_name(c[1]) or '') == bc.key for x in fam for c in x.calls())
    inline = [x for x in fam for c in x.calls() if (x.callee_name(c[1]) or '').endswith('::netmask') or (x.callee_name(c[1]) or '').endswith('Cidr::network')]
    if uses and not inline:
        ctx.ok(('is_broadcast_v4', 'via Cidr::broadcast'), sample=dict(fn='is_broadcast_v4', subnet_broadcast='Ipv4Cidr::broadcast()'))
    else:
        ctx.bad("is_broadcast_v4|inline-broadcast", "InterfaceInner::is_broadcast_v4 computes the subnet broadcast address itself (network | !netmask) instead of through Ipv4Cidr::broadcast(): "
                "on a /31 the peer's address is classified as broadcast - it is never resolved (frames go to ff:ff:ff:ff:ff:ff) and datagrams from it are treated as broadcasts", body=ib)


@rule('R11.13', ['C11', 'C17'], floor=4, clause='a connected TCP socket accepts a segment only when all four of local address, local port, remote address and remote port equal its 4-tuple: accepts() compares each of them (a segment of another connection of the same peer cannot reset or close this one)')
def r11_13(ctx):
    F = ctx.F
    b = ctx.method(SOCK, 'accepts')
    rels = [f for bi, f in returned_comparisons(F, b) if f[1] == 'Eq']
    for bi, bl in enumerate(b.blocks):
        if bl['cl'] or bl['t'][0] != 'switch':
            continue
        rels += [f for tb, lab, f in cond_facts(F, b, bi) if f[0] == 'rel' and f[1] == 'Eq']
    T = 'F:socket::tcp::Tuple.'
    want = {
        'local address': (lambda l: l.endswith('::dst_addr') or l.endswith('.dst_addr'), T + 'local', 'F:wire::ip::Endpoint.addr'),
        'local port': (lambda l: l.endswith('Repr.dst_port'), T + 'local', 'F:wire::ip::Endpoint.port'),
        'remote address': (lambda l: l.endswith('::src_addr') or l.endswith('.src_addr'), T + 'remote', 'F:wire::ip::Endpoint.addr'),
        'remote port': (lambda l: l.endswith('Repr.src_port'), T + 'remote', 'F:wire::ip::Endpoint.port'),
    }
    for what, (pk, side, fld) in want.items():
        hit = False
        for f in rels:
            for x, y in ((leafs(f[2]), leafs(f[3])), (leafs(f[3]), leafs(f[2]))):
                if any(pk(l) for l in x) and side in y and fld in y and not any(l.startswith(T) for l in x):
                    hit = True
        if hit:
            ctx.ok(('tcp::accepts', what), sample=dict(fn='tcp::Socket::accepts', compares=what))
        else:
            ctx.bad(f"tcp::accepts|4-tuple|{what.replace(' ', '-')}", f"tcp::Socket::accepts does not compare the segment's {what} with the connection's 4-tuple: a segment of another connection "
                    "(same peer, different port / address) is processed by this socket - its RST closes, its FIN half-closes a connection it does not belong to", body=b)


@rule('R16.14', ['C16'], floor=2, clause='only received traffic confirms a neighbour: the expiry of a cache entry is refreshed from the ingress paths (process_ipv4 / process_ipv6) and nowhere else - transmitting to a neighbour does not keep a silent entry alive')
def r16_14(ctx):
    F = ctx.F
    m = ctx.method('iface::neighbor::Cache', 'reset_expiry_if_existing')
    n = 0
    for k, b in sorted(F.bodies.items()):
        if '::test' in k or '::tests::' in k:
            continue
        for x in b.calls():
            if b.callee_name(x[1]) == m.key:
                n += 1
                fn = k.rsplit('::', 1)[-1]
                if fn in ('process_ipv4', 'process_ipv6'):
                    ctx.ok(('reset_expiry', fn), sample=dict(caller=fn))
                else:
                    ctx.bad(f"neighbor-refresh|{fn}", f"{fn} refreshes the expiry of a neighbour cache entry although it is not an ingress path: an entry whose owner has gone silent "
                            "never expires while the stack keeps sending to it, and the address is never resolved again", body=b, bb=x[0])
    ctx.need(n >= 2, "callers of neighbor::Cache::reset_expiry_if_existing")


@rule('R16.15', ['C16'], floor=1, clause='a Neighbor Advertisement replaces an address that is already cached only when its Override flag is set (RFC 4861 7.2.5): the cache fill in the NeighborAdvert arm sits behind `flags.contains(OVERRIDE)` or a failed lookup')
def r16_15(ctx):
    F = ctx.F
    b = ctx.method('iface::interface::InterfaceInner', 'process_ndisc')
    fill = ctx.method('iface::neighbor::Cache', 'fill')
    adv = guard_edges(F, b, lambda f: f[0] == 'is' and f[2] == 'NeighborAdvert')
    ctx.need(adv, "NeighborAdvert arm of process_ndisc")
    seen = set()
    for (bi, tb, lab) in adv:
        seen |= set(b.reachable(start=tb))
    sites = [x[0] for x in b.calls() if b.callee_name(x[1]) == fill.key and x[0] in seen and
             any(l == 'D:NeighborAdvert' for a in x[2] for l in leafs(F.origin.operand(b, a, x[0], len(b.blocks[x[0]]['s']))))]
    ctx.need(sites, "neighbor cache fill in the NeighborAdvert arm")

    def over(f):
        if f[0] != 'bool':
            return False
        ls = leafs(f[1])
        if f[2] is True and any(l.endswith('NeighborFlags::contains') for l in ls) and 'N:wire::ndisc::NeighborFlags::OVERRIDE' in ls:
            return True
        return f[2] is False and any(l.endswith('::found') for l in ls if l.startswith('C:'))
    for s_ in sites:
        bad = unguarded(F, b, [s_], over)
        if bad:
            ctx.bad("process_ndisc|advert-overrides-without-flag", "a Neighbor Advertisement without the Override flag replaces a link-layer address that is already cached: a late, duplicate or forged "
                    "advertisement redirects the traffic for that neighbour", body=b, bb=s_, path=bad[0][1])
        else:
            ctx.ok(('ndisc advert', 'override or unknown'), sample=dict(fn='process_ndisc', fill_behind='OVERRIDE || !lookup().found()'))


@rule('R19.9', ['C19', 'C13'], floor=1, clause='every pending DNS query contributes a deadline to poll_at, also before its first transmission (when no server timeout is armed yet): the per-query deadline is Some(..) on every path of the Pending arm')
def r19_9(ctx):
    F = ctx.F
    D = 'socket::dns::Socket'
    p = ctx.method(D, 'poll_at')
    cands = [cb for cb in F.closures_of(p.key) if 'Option<' in cb.locals[0]['ty'] and 'PollAt' in cb.locals[0]['ty']]
    if not cands:
        from ..loops import loops
        ctx.need(loops(p), "per-query deadline closure (filter_map) or loop in dns::poll_at")
        # written as an explicit loop over the queries: this clause is not decided for that form (R13.1 covers the minimum)
        ctx.ok(('dns::poll_at', 'loop form'), sample=dict(fn='dns::poll_at', form='explicit loop; Pending-arm clause not decided for this form'))
        return
    cb = cands[0]
    pend = guard_edges(F, cb, lambda f: (f[0] == 'is' and f[2] == 'Pending') or (f[0] == 'isnot' and 'Pending' not in f[2] and f[3].endswith('dns::State') and len(f[2]) >= 2))
    ctx.need(pend, "Pending arm in the per-query closure of dns::poll_at")
    seen = set()
    for (bi, tb, lab) in pend:
        seen |= set(cb.reachable(start=tb))
    bad = []
    n = 0
    for (bi, si, kind, path, rv) in cb._all_defs().get(0, []):
        if bi not in seen or path != []:
            continue
        n += 1
        v = simplify(F.origin.call_node(cb, rv, bi, 0, None)) if kind == 'call' else simplify(F.origin.rvalue(cb, rv, bi, si, 0, None))
        for a in alts(v):
            a = strip(a)
            if not ((a[0] in ('agg', 'variant')) and str(a[1]).endswith('Option::Some')):
                bad.append(a)
    ctx.need(n >= 1, "definition of the per-query deadline in the Pending arm")
    if bad:
        ctx.bad("dns::poll_at|pending-without-deadline", f"a pending query can contribute no deadline to dns::poll_at ({show(bad[0])[:70]}): a query that has not been transmitted yet "
                "(no server timeout armed) is invisible to an event loop that sleeps until poll_at - it is never sent", body=cb)
    else:
        ctx.ok(('dns::poll_at', 'pending => Some'), sample=dict(fn='dns::poll_at', pending_query='always Some(PollAt::Time(..))'))
