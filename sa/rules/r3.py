"""Rules added after the third round of independently seeded changes."""
from ..framework import rule
from ..core import *
from ..lib import *
from ..wirelib import ret_origin, range_bounds, const_of
from .c04 import const_int
from .c14 import store_origin, untuple

IF = 'iface::interface::Interface'
IFI = 'iface::interface::InterfaceInner'
SOCK = 'socket::tcp::Socket'
AS = 'storage::assembler::Assembler'


@rule('R11.7', ['C11'], floor=2, clause='leaving a multicast group never results in a joined group: every arm of leave_multicast_group either schedules the leave report (Leaving) or deletes the entry')
def r11_7(ctx):
    F = ctx.F
    b = ctx.method(IF, 'leave_multicast_group')
    GS = 'iface::interface::multicast::GroupState'
    n = 0
    for bi, bl in enumerate(b.blocks):
        if bl['cl']:
            continue
        for si, s in enumerate(bl['s']):
            if s[0] == 'a' and s[2][0] == 'agg' and s[2][1].get('k') == 'tuple' and len(s[2][2]) == 2:
                st = strip(simplify(F.origin.operand(b, s[2][2][0], bi, si)))
                dl = strip(simplify(F.origin.operand(b, s[2][2][1], bi, si)))
                if st[0] != 'variant' or not st[1].startswith(GS):
                    continue
                n += 1
                delete = dl == ('const', 'true') or const_int(dl) == 1
                var = st[1].rsplit('::', 1)[-1]
                if not delete and var != 'Leaving':
                    ctx.bad(f"leave_multicast_group|{var}|kept", f"leave_multicast_group can leave the group in state {var} without deleting it: traffic to a group "
                            "the application left keeps being delivered and no leave report is sent", body=b, bb=bi)
                else:
                    ctx.ok(('leave', var, delete), sample=dict(new_state=var, deleted=delete))
    ctx.need(n >= 2, "(new state, delete) decisions in leave_multicast_group")


@rule('R12.6', ['C12', 'C20'], floor=1, clause='a reassembly slot is claimed for a new datagram only after every slot was examined for the datagram\'s key (otherwise a half-reassembled datagram is split over two slots)')
def r12_6(ctx):
    F = ctx.F
    PAS = 'iface::fragmentation::PacketAssemblerSet'
    PA = 'iface::fragmentation::PacketAssembler'
    b = ctx.method(PAS, 'get')
    ws = [w for w in F.field_writes() if w['fn'] == b.key and w['kind'] == 'store' and w['adt'] == PA and w['field'] == 'key']
    ctx.need(ws, "`slot.key = Some(key)` in PacketAssemblerSet::get")
    exhausted = lambda f: f[0] == 'is' and f[2] == 'None' and any(l.endswith('::next') for l in leafs(f[1]) if l.startswith('C:'))
    for w in ws:
        bad = unguarded(F, b, [w['bb']], exhausted)
        if bad:
            ctx.bad("PacketAssemblerSet::get|claim-before-scan-complete", "a free slot is claimed before all slots were compared with the key: the next fragment of a "
                    "datagram already being reassembled in a later slot starts a second, never completing slot", body=b, bb=w['bb'], path=bad[0][1])
        else:
            ctx.ok(('get', 'claim-after-scan'), sample=dict(fn='PacketAssemblerSet::get', claim='after the key scan ended'))


@rule('R15.5', ['C15', 'C01'], floor=2, clause='add_then_remove_front is add() followed by remove_front() on every path that is not the offset-0 fast path, and returns what remove_front removed')
def r15_5(ctx):
    F = ctx.F
    b = ctx.method(AS, 'add_then_remove_front')
    add = ctx.method(AS, 'add')
    rf = ctx.method(AS, 'remove_front')
    adds = [x for x in b.calls() if b.callee_name(x[1]) == add.key]
    rfs = [x[0] for x in b.calls() if b.callee_name(x[1]) == rf.key]
    ctx.need(len(adds) == 1 and rfs, "add() and remove_front() calls in add_then_remove_front")
    okc = lambda f: f[0] == 'is' and f[2] in ('Continue', 'Ok') and any(l.endswith('Assembler::add') for l in leafs(f[1]) if l.startswith('C:'))
    ge = guard_edges(F, b, okc)
    ctx.need(ge, "Ok edge of add()")
    rets = b.return_blocks()
    good = True
    for (bi, tb, lab) in ge:
        seen = b.reachable(start=tb, cut_blocks=set(rfs))
        if any(r in seen for r in rets) and tb not in rfs:
            good = False
    if good:
        ctx.ok(('add_then_remove_front', 'always-removes'), sample=dict(fn='add_then_remove_front', slow_path='add()? ; remove_front()'))
    else:
        ctx.bad("add_then_remove_front|remove_front-skipped", "add_then_remove_front can return after a successful add() without calling remove_front(): a range already "
                "complete at the front stays in the tracker and the caller is told nothing was removed", body=b)
    r = simplify(ret_origin(F, b))
    if any(l.endswith('Assembler::remove_front') for l in leafs(r) if l.startswith('C:')):
        ctx.ok(('add_then_remove_front', 'returns-removed'))
    else:
        ctx.bad("add_then_remove_front|result", f"add_then_remove_front returns {show(r)[:60]}, not what remove_front() removed", body=b)


@rule('R15.6', ['C15'], floor=1, clause='iter_data reports from the whole range array (not from a computed prefix of it)')
def r15_6(ctx):
    F = ctx.F
    b = ctx.method(AS, 'iter_data')
    sliced = None
    it = False
    for body in [b] + F.closures_of(b.key):
        for x in body.calls():
            nm = body.callee_name(x[1]) or x[1].get('fn') or ''
            if nm.rsplit('::', 1)[-1] in ('index', 'get') and x[2]:
                o = F.origin.operand(body, x[2][0], x[0], len(body.blocks[x[0]]['s']))
                if f"F:{AS}.contigs" in leafs(o) and len(x[2]) == 2:
                    rng = F.origin.operand(body, x[2][1], x[0], len(body.blocks[x[0]]['s']))
                    rb = range_bounds(F, rng)
                    if rb and not (rb[0] == 'RangeFull'):
                        sliced = (body, x[0], show(simplify(rng))[:50])
            if nm.endswith('::iter') and x[2]:
                o = F.origin.operand(body, x[2][0], x[0], len(body.blocks[x[0]]['s']))
                if f"F:{AS}.contigs" in leafs(o):
                    it = True
    ctx.need(it, "iteration over Assembler.contigs in iter_data")
    if sliced:
        ctx.bad("iter_data|prefix-only", f"iter_data iterates contigs[{sliced[2]}] instead of the whole array: with every slot in use the report can be empty or short",
                body=sliced[0], bb=sliced[1])
    else:
        ctx.ok(('iter_data', 'whole-array'), sample=dict(fn='iter_data', source='self.contigs.iter()'))


@rule('R16.8', ['C16'], floor=2, clause='the discovery rate limiter (silent_until) is written only by limit_rate and the constructor: flushing the neighbor cache on an address change does not re-open the 1 s window')
def r16_8(ctx):
    F = ctx.F
    NC = 'iface::neighbor::Cache'
    allowed = {'new', 'limit_rate'}
    n = 0
    for m in F.methods(NC):
        nm = m.key.rsplit('::', 1)[-1]
        n += 1
        direct = [w for w in F.field_writes() if w['fn'] == m.key and w['adt'] == NC and w['field'] == 'silent_until' and w['kind'] == 'store']
        whole = []
        for bi, bl in enumerate(m.blocks):
            if bl['cl']:
                continue
            for si, s in enumerate(bl['s']):
                if s[0] == 'a' and s[1] == [1, ['*']]:
                    whole.append(bi)
            t = bl['t']
            if t[0] == 'call' and t[3] == [1, ['*']]:
                whole.append(bi)
        if (direct or whole) and nm not in allowed:
            ctx.bad(f"Cache::{nm}|silent_until-written", f"neighbor::Cache::{nm} overwrites the discovery rate limiter ({'whole cache replaced' if whole else 'silent_until stored'}): "
                    "after an address change another ARP request / neighbor solicitation goes out inside the 1 s silence window", body=m, bb=(whole or [direct[0]['bb']])[0])
        else:
            ctx.ok(('Cache', nm))
    ctx.need(n >= 5, "neighbor::Cache methods")


@rule('R16.9', ['C16', 'C12'], floor=1, clause='when a fragmented IPv4 datagram is started, the resolved link-layer destination for its later fragments is recorded unconditionally')
def r16_9(ctx):
    F = ctx.F
    b = ctx.method(IFI, 'dispatch_ip')
    FR = 'iface::fragmentation::Fragmenter'
    V4F = 'iface::fragmentation::Ipv4Fragmenter'
    pl = [w for w in F.field_writes() if w['fn'] == b.key and w['kind'] == 'store' and w['adt'] == FR and w['field'] == 'packet_len']
    hw = [w['bb'] for w in F.field_writes() if w['fn'] == b.key and w['kind'] == 'store' and w['adt'] == V4F and w['field'] == 'dst_hardware_addr']
    ctx.need(pl and hw, "stores to packet_len and ipv4.dst_hardware_addr in dispatch_ip")
    for w in pl:
        if const_int(simplify(store_origin(F, b, w))) == 0:
            continue
        # every entry -> packet_len store path passes a dst_hardware_addr store, or every store -> return path does
        pre = b.reachable(cut_blocks=set(hw))
        post = b.reachable(start=w['bb'], cut_blocks=set(hw))
        if w['bb'] in pre and w['bb'] not in hw and any(r in post for r in b.return_blocks()):
            ctx.bad("dispatch_ip|frag|dst_hardware_addr-conditional", "a fragmented datagram can be started without recording the link-layer destination of its next hop: its "
                    "later fragments are sent to the previous datagram's neighbor", body=b, bb=w['bb'])
        else:
            ctx.ok(('dispatch_ip', 'frag-hwaddr'), sample=dict(store='frag.ipv4.dst_hardware_addr = dst_hardware_addr', when='always with a new fragmented datagram'))


@rule('R13.8', ['C13', 'C16'], floor=1, clause='a silenced socket is permitted to transmit again at the very instant Meta::poll_at reports (timestamp >= silent_until, not >)')
def r13_8(ctx):
    F = ctx.F
    M = 'iface::socket_meta::Meta'
    b = ctx.method(M, 'egress_permitted')
    facts = []
    for bi, bl in enumerate(b.blocks):
        if bl['cl'] or bl['t'][0] != 'switch':
            continue
        for tb, lab, f in cond_facts(F, b, bi):
            if f[0] == 'rel' and (('A:2' in leafs(f[2])) != ('A:2' in leafs(f[3]))) and any('silent_until' in l for l in leafs(f[2]) | leafs(f[3])):
                facts.append((bi, tb, f))
    ctx.need(facts, "comparison of the timestamp with silent_until in Meta::egress_permitted")
    trues = [bi for bi, bl in enumerate(b.blocks) if not bl['cl'] for s in bl['s']
             if s[0] == 'a' and s[1] == [0, []] and s[2][0] == 'use' and s[2][1][0] == 'k' and s[2][1][2] is True]
    strict = []
    for (bi, tb, f) in facts:
        ts_left = 'A:2' in leafs(f[2])
        reached = (ts_left and f[1] in ('Ge', 'Gt')) or (not ts_left and f[1] in ('Le', 'Lt'))
        if reached and any(t in b.reachable(start=tb) for t in trues):
            if (ts_left and f[1] == 'Gt') or (not ts_left and f[1] == 'Lt'):
                strict.append(bi)
    if strict:
        ctx.bad("Meta::egress_permitted|strict", "egress_permitted requires the clock to be strictly past silent_until while poll_at reports silent_until itself: the poll made "
                "at the announced instant sends nothing and the next deadline is 'now' (busy loop / delayed retry)", body=b, bb=strict[0])
    else:
        ctx.ok(('egress_permitted', 'fires-at-deadline'), sample=dict(fn='Meta::egress_permitted', test='timestamp >= silent_until'))


@rule('R19.5', ['C19', 'C13', 'C10'], floor=3, clause='DNS dispatch: a query that is merely waiting for its retransmission instant is skipped (the loop continues with the next query) and only after its server time-out was examined')
def r19_5(ctx):
    F = ctx.F
    D = 'socket::dns::Socket'
    PQ = 'socket::dns::PendingQuery'
    b = ctx.method(D, 'dispatch')
    waiting = lambda f: f[0] == 'rel' and f[1] in ('Gt', 'Ge') and f"F:{PQ}.retransmit_at" in leafs(f[2]) and any(l.endswith('::now') for l in leafs(f[3]) if l.startswith('C:'))
    we = guard_edges(F, b, waiting)
    ctx.need(we, "`retransmit_at > now` test in dns dispatch")
    timeout = lambda f: f[0] == 'rel' and f"F:{PQ}.timeout_at" in (leafs(f[2]) | leafs(f[3])) and any(l.endswith('::now') for l in (leafs(f[2]) | leafs(f[3])) if l.startswith('C:'))
    te = guard_edges(F, b, timeout)
    ctx.need(te, "server time-out test in dns dispatch")
    from ..loops import loops
    heads = {h for h, nodes, srcs in loops(b)}
    for (bi, tb, lab) in we:
        # (a) the skip edge leads back to the loop (next query), it does not leave the function
        seen = b.reachable(start=tb, cut_blocks=heads)
        if any(r in seen for r in b.return_blocks()) and not any(h in seen for h in heads):
            ctx.bad("dns::dispatch|waiting-query-ends-loop", "a query waiting for its retransmission instant makes dispatch return: later queries in the table are neither sent "
                    "nor timed out while poll_at keeps asking for an immediate poll", body=b, bb=bi)
        elif any(r in seen for r in b.return_blocks()):
            ctx.bad("dns::dispatch|waiting-query-may-end-loop", "the waiting-query branch can leave dispatch without visiting the remaining queries", body=b, bb=bi)
        else:
            ctx.ok(('dns', 'waiting-continues'), sample=dict(branch='retransmit_at > now', action='continue with the next query'))
        # (b) the time-out test dominates the skip
        pre = b.reachable(cut_blocks={e[0] for e in te})
        if bi in pre and bi not in {e[0] for e in te}:
            ctx.bad("dns::dispatch|skip-before-timeout", "the waiting-query early-out is taken before the server time-out is examined: at the time-out instant poll_at says "
                    "'now' but the poll does nothing until the (later) retransmission instant", body=b, bb=bi)
        else:
            ctx.ok(('dns', 'timeout-first'))
    # label length
    sq = ctx.method(D, 'start_query')
    pushes = []
    for body in [sq] + F.closures_of(sq.key):
        for x in body.calls():
            if (body.callee_name(x[1]) or '').endswith('::push') and len(x[2]) == 2:
                o = simplify(F.origin.operand(body, x[2][1], x[0], len(body.blocks[x[0]]['s'])))
                if any(l.endswith('::len') for l in leafs(o) if l.startswith('C:')):
                    pushes.append((body, x[0], o))
    ctx.need(pushes, "label length octet in dns start_query")
    for body, bb, o in pushes:
        def le63(f):
            if f[0] != 'rel':
                return False
            for a, c, ops in ((f[2], f[3], {'Le': 0, 'Lt': -1}), (f[3], f[2], {'Ge': 0, 'Gt': -1})):
                if f[1] in ops and any(l.endswith('::len') for l in leafs(a) if l.startswith('C:')):
                    k = const_int(simplify(c))
                    if k is not None and k + ops[f[1]] <= 63:
                        return True
            return False
        bad = unguarded(F, body, [bb], le63)
        if bad:
            ctx.bad("dns::start_query|label-length", "a host-name label longer than 63 octets is encoded (length octet >= 0x40 is a reserved / pointer label type): a malformed query leaves the host",
                    body=body, bb=bb, path=bad[0][1])
        else:
            ctx.ok(('dns', 'label<=63'), sample=dict(fn='start_query', guard='label.len() <= 63'))


@rule('R06.10', ['C06'], floor=2, clause='ICMP error messages: the bound that cuts the quoted datagram in emit is the bound buffer_len declares (same named limit on both sides), so emission fits the declared length')
def r06_10(ctx):
    F = ctx.F
    for R, helper in (('wire::icmpv6::Repr', 'emit_contained_packet'),):
        bl = ctx.method(R, 'buffer_len')
        em = ctx.method(R, 'emit')
        hb = [F.bodies[k] for k in F.bodies if k.startswith(em.key + '::') and k.endswith(helper)]
        ctx.need(hb, f"{helper} nested in icmpv6::Repr::emit")

        def limits(b):
            out = set()
            for x in b.calls():
                if (b.callee_name(x[1]) or '').endswith('::min'):
                    for a in x[2]:
                        o = F.origin.operand(b, a, x[0], len(b.blocks[x[0]]['s']))
                        out |= {l for l in leafs(o) if l.startswith('N:')}
            return out
        lb, le = limits(bl), limits(hb[0])
        ctx.need(lb, "named length limit in icmpv6::Repr::buffer_len")
        if lb & le:
            ctx.ok(('icmpv6', 'same-limit'), sample=dict(limit=sorted(lb & le)[0][2:]))
        else:
            ctx.bad("icmpv6::Repr|error-payload-limit", f"icmpv6 buffer_len caps the message with {sorted(l[2:] for l in lb)} but emit cuts the quoted datagram with "
                    f"{sorted(l[2:] for l in le) or 'no named limit'}: emitting into a buffer of the declared length overruns it for long quotes", body=hb[0])
        # both subtract the same header terms: buffer_len = min(8 + ip + data, LIMIT) ; emit cut = min(data, LIMIT - 8 - ip)
        ctx.ok(('icmpv6', 'scanned'))
