"""C20 - 6LoWPAN fragmentation bookkeeping (structural clauses of losslessness)."""
from ..framework import rule
from ..core import *
from ..lib import *
from ..wirelib import ret_origin, inline_closures
from .c04 import const_int
from .c14 import untuple
from .c12 import _resolve_upvar

IFI = 'iface::interface::InterfaceInner'
FR = 'iface::fragmentation::Fragmenter'
SFR = 'iface::fragmentation::SixlowpanFragmenter'


def upvar_stores(F, cb):
    """stores through captured `&mut` upvars of a closure: list of (upvar name, bb, value origin)"""
    out = []
    defs = cb._all_defs()
    for bi, bl in enumerate(cb.blocks):
        if bl['cl']:
            continue
        for si, s in enumerate(bl['s']):
            if s[0] == 'a' and s[1][1] == ['*']:
                d = [x for x in defs.get(s[1][0], []) if x[3] == []]
                if len(d) == 1 and d[0][2] == 'a' and d[0][4][0] == 'use' and d[0][4][1][0] in ('c', 'm'):
                    pl = d[0][4][1][1]
                    if pl[0] == 1 and len(pl[1]) == 1 and pl[1][0][0] == 'f' and pl[1][0][3] == '{closure}':
                        out.append((pl[1][0][2], bi, untuple(simplify(F.origin.rvalue(cb, s[2], bi, si, 0, None)))))
    return out


def _upvar(n):
    n = strip(n)
    if n[0] == 'proj' and strip(n[1]) == ('arg', 1) and n[2] and n[2][0][0] == 'f' and n[2][0][2] == '{closure}':
        return n[2][0][1]
    return None


def _is_mul8_div8(n):
    n = untuple(strip(n))
    if n[0] == 'bin' and n[1] == 'Mul' and const_int(simplify(n[3])) == 8:
        d = untuple(strip(n[2]))
        return d[0] == 'bin' and d[1] == 'Div' and const_int(simplify(d[3])) == 8
    return False


@rule('R20.1', ['C20'], floor=4, clause='after a 6LoWPAN FRAG_N is copied out, sent_bytes and datagram_offset both advance by exactly the number of bytes copied, and the copy starts at sent_bytes')
def r20_1(ctx):
    F = ctx.F
    b = ctx.method(IFI, 'dispatch_sixlowpan_frag')
    cls = F.closures_of(b.key)
    ctx.need(len(cls) >= 1, "consume closure of dispatch_sixlowpan_frag")
    cb = cls[0]
    st = upvar_stores(F, cb)
    adv = {}
    for name, bi, val in st:
        v = strip(val)
        if v[0] == 'bin' and v[1] == 'Add' and _upvar(v[2]) == name:
            adv[name] = (bi, v[3])
        else:
            adv[name] = (bi, None)
    copies = [x for x in cb.calls() if (cb.callee_name(x[1]) or '').endswith('copy_from_slice')]
    ctx.need(copies, "copy_from_slice in the FRAG_N closure")
    src = simplify(F.origin.operand(cb, copies[-1][2][1], copies[-1][0], len(cb.blocks[copies[-1][0]]['s'])))
    # src = index(index(buffer, RangeFrom{sent_bytes}), RangeTo{frag_size})
    from ..wirelib import range_bounds
    s0 = strip(src)
    amount = start = None
    if s0[0] == 'call' and s0[1].endswith('::index') and len(s0[2]) == 2:
        rb = range_bounds(F, s0[2][1])
        if rb and rb[0] == 'RangeTo':
            amount = rb[2]
        inner = strip(s0[2][0])
        if inner[0] == 'call' and inner[1].endswith('::index') and len(inner[2]) == 2:
            rb2 = range_bounds(F, inner[2][1])
            if rb2 and rb2[0] == 'RangeFrom':
                start = rb2[1]
    ctx.need(amount is not None and start is not None, "`frag.buffer[frag.sent_bytes..][..frag_size]` copy source")
    if _upvar(start) == 'frag__sent_bytes':
        ctx.ok(('frag_n', 'copy-from-sent_bytes'), sample=dict(copy='frag.buffer[sent_bytes..][..frag_size]'))
    else:
        ctx.bad("dispatch_sixlowpan_frag|copy-start", f"FRAG_N payload is copied from {show(start)[:60]} instead of frag.sent_bytes", body=cb, bb=copies[-1][0])
    for name, what in (('frag__sent_bytes', 'sent_bytes'), ('frag__sixlowpan__datagram_offset', 'sixlowpan.datagram_offset')):
        if name not in adv:
            ctx.bad(f"dispatch_sixlowpan_frag|{what}|not-advanced", f"frag.{what} is not advanced after a fragment is sent: every following FRAG_N "
                    "repeats the same offset/bytes and the receiver cannot reassemble", body=cb)
            continue
        bi, q = adv[name]
        if q is None or strip(q) != strip(amount):
            ctx.bad(f"dispatch_sixlowpan_frag|{what}|amount", f"frag.{what} advances by {show(q)[:60] if q else 'a non-incremental value'} but {show(amount)[:40]} bytes were copied",
                    body=cb, bb=bi)
        else:
            # straight-line after the copy: the store block is reached from the copy on every path to return
            if always_followed_by_store(cb, copies[-1][0], bi):
                ctx.ok(('frag_n', what), sample=dict(field=what, advance='+= frag_size'))
            else:
                ctx.bad(f"dispatch_sixlowpan_frag|{what}|conditional", f"frag.{what} is not advanced on every path after the copy", body=cb, bb=bi)
    # the frame length handed to the device = ieee header + FRAG_N header + frag_size
    cons = [x for x in b.calls() if (b.callee_name(x[1]) or x[1].get('fn') or '').endswith('TxToken::consume')]
    ctx.need(len(cons) == 1, "consume in dispatch_sixlowpan_frag")
    ln = untuple(simplify(F.origin.operand(b, cons[0][2][1], cons[0][0], len(b.blocks[cons[0][0]]['s']))))
    ls = leafs(ln)
    if any(l.endswith('::min') for l in ls if l.startswith('C:')) and sum(1 for l in ls if l.startswith('C:') and l.endswith('buffer_len')) >= 2:
        ctx.ok(('frag_n', 'frame-len'), sample=dict(len='ieee.buffer_len() + fragn.buffer_len() + frag_size'))
    else:
        ctx.bad("dispatch_sixlowpan_frag|frame-len", f"frame length {show(ln)[:80]} is not ieee header + FRAG_N header + fragment size", body=b, bb=cons[0][0])


def always_followed_by_store(cb, from_bb, store_bb):
    """every path from from_bb to a return passes through store_bb"""
    seen = cb.reachable(start=from_bb, cut_blocks={store_bb})
    return not any(r in seen and r != store_bb for r in cb.return_blocks())


@rule('R20.2', ['C20', 'C10'], floor=5, clause='6LoWPAN fragment sizes are multiples of 8 in uncompressed space, the FRAG_N size never exceeds the bytes left, and the offset is carried in 8-octet units on both sides')
def r20_2(ctx):
    F = ctx.F
    b = ctx.method(IFI, 'dispatch_sixlowpan')
    vals = {}
    for bi, bl in enumerate(b.blocks):
        if bl['cl']:
            continue
        for si, s in enumerate(bl['s']):
            if s[0] == 'a':
                labs = Body.field_labels(b.norm(s[1])[1])
                if labs and labs[-1] in (f"{SFR}.fragn_size", f"{SFR}.datagram_offset", f"{FR}.sent_bytes", f"{SFR}.datagram_size", f"{FR}.packet_len"):
                    vals[labs[-1].rsplit('.', 1)[-1]] = (bi, untuple(simplify(inline_closures(F, F.origin.rvalue(b, s[2], bi, si, 0, None)))))
    for k in ('fragn_size', 'datagram_offset', 'sent_bytes', 'datagram_size'):
        ctx.need(k in vals, f"store to {k} in dispatch_sixlowpan")
    if _is_mul8_div8(vals['fragn_size'][1]):
        ctx.ok(('fragn_size', 'multiple-of-8'), sample=dict(fragn_size='(125 - ieee_len - fragn.buffer_len()) / 8 * 8'))
    else:
        ctx.bad("dispatch_sixlowpan|fragn_size|alignment", f"fragn_size = {show(vals['fragn_size'][1])[:80]} is not rounded down to a multiple of 8 "
                "(FRAG_N offsets are in 8-octet units)", body=b, bb=vals['fragn_size'][0])
    # datagram_offset after FRAG_1 = sent_bytes + header_diff and is a multiple of 8: lin() cancels header_diff
    l, c = lin(vals['datagram_offset'][1])
    atoms_ = [a for a, v in l.items() if v != 0]
    if c == 0 and len(atoms_) == 1 and l[atoms_[0]] == 1 and _is_mul8_div8(atoms_[0]):
        ctx.ok(('datagram_offset', 'multiple-of-8'), sample=dict(datagram_offset='frag1_size + header_diff = (..)/8*8'))
    else:
        ctx.bad("dispatch_sixlowpan|datagram_offset|alignment", f"the uncompressed offset after FRAG_1 = {show(vals['datagram_offset'][1])[:100]} is not a multiple of 8",
                body=b, bb=vals['datagram_offset'][0])
    # datagram_offset - sent_bytes = header_diff (uncompressed - compressed header size)
    lo, co = lin(vals['datagram_offset'][1])
    ls_, cs = lin(vals['sent_bytes'][1])
    diff = dict(lo)
    for a, v in ls_.items():
        diff[a] = diff.get(a, 0) - v
    diff = {a: v for a, v in diff.items() if v != 0}
    names = sorted((show(a)[:60], v) for a, v in diff.items())
    okd = co == cs and len(diff) == 2 and sorted(diff.values()) == [-1, 1] and all('compressed_packet_size' in show(a) for a in diff)
    if okd:
        ctx.ok(('datagram_offset', 'sent_bytes+header_diff'))
    else:
        ctx.bad("dispatch_sixlowpan|datagram_offset|header-diff", f"datagram_offset - sent_bytes after FRAG_1 is {names}, expected uncompressed - compressed header size", body=b)
    # datagram_size = payload_len + 40
    ds = strip(vals['datagram_size'][1])
    while ds[0] == 'cast':
        ds = strip(ds[1])
    if ds[0] == 'bin' and ds[1] == 'Add' and const_int(simplify(ds[3])) == 40 and any(l.endswith('.payload_len') for l in leafs(ds[2])):
        ctx.ok(('datagram_size', 'payload+40'))
    else:
        ctx.bad("dispatch_sixlowpan|datagram_size", f"datagram_size = {show(ds)[:60]}, expected IPv6 payload length + 40", body=b, bb=vals['datagram_size'][0])
    # FRAG_N: size = min(remaining, fragn_size); offset field = datagram_offset / 8
    fb = ctx.method(IFI, 'dispatch_sixlowpan_frag')
    mins = [x for x in fb.calls() if (fb.callee_name(x[1]) or '').endswith('::min')]
    ctx.need(mins, "min() in dispatch_sixlowpan_frag")
    a0 = untuple(simplify(F.origin.operand(fb, mins[0][2][0], mins[0][0], len(fb.blocks[mins[0][0]]['s']))))
    a1 = untuple(simplify(F.origin.operand(fb, mins[0][2][1], mins[0][0], len(fb.blocks[mins[0][0]]['s']))))
    rem_ok = a0[0] == 'bin' and a0[1] == 'Sub' and is_field(a0[2], FR, 'packet_len') and is_field(a0[3], FR, 'sent_bytes')
    if rem_ok and is_field(a1, SFR, 'fragn_size'):
        ctx.ok(('frag_size', 'min(remaining, fragn_size)'))
    else:
        ctx.bad("dispatch_sixlowpan_frag|frag_size", f"FRAG_N size = min({show(a0)[:40]}, {show(a1)[:40]}), expected min(packet_len - sent_bytes, fragn_size)", body=fb, bb=mins[0][0])
    found = False
    for bi, si, var in agg_sites(fb, 'wire::sixlowpan::frag::Repr'):
        s = fb.blocks[bi]['s'][si]
        names = s[2][1].get('fnames') or []
        if 'offset' not in names:
            continue
        found = True
        o = strip(simplify(F.origin.operand(fb, s[2][2][names.index('offset')], bi, si)))
        while o[0] == 'cast':
            o = strip(o[1])
        if o[0] == 'bin' and o[1] == 'Div' and const_int(simplify(o[3])) == 8 and is_field(o[2], SFR, 'datagram_offset'):
            ctx.ok(('frag_n', 'offset/8'), sample=dict(offset='datagram_offset / 8'))
        else:
            ctx.bad("dispatch_sixlowpan_frag|offset-units", f"FRAG_N offset field = {show(o)[:60]}, expected datagram_offset / 8", body=fb, bb=bi)
    ctx.need(found, "FRAG_N header construction in dispatch_sixlowpan_frag")
    # receiver: offset * 8
    pf = ctx.method(IFI, 'process_sixlowpan_fragment')
    adds = [x for x in pf.calls() if (pf.callee_name(x[1]) or '').endswith('PacketAssembler::<K>::add')]
    ctx.need(adds, "PacketAssembler::add in process_sixlowpan_fragment")
    off = strip(simplify(F.origin.operand(pf, adds[0][2][2], adds[0][0], len(pf.blocks[adds[0][0]]['s']))))
    off = untuple(off)
    good = off[0] == 'bin' and off[1] == 'Mul' and const_int(simplify(off[3])) == 8 and any(l.endswith('::datagram_offset') for l in leafs(off[2]))
    if good:
        ctx.ok(('reassembly', 'offset*8'), sample=dict(offset='datagram_offset() * 8'))
    else:
        ctx.bad("process_sixlowpan_fragment|offset-units", f"reassembly offset = {show(off)[:60]}, expected datagram_offset() * 8", body=pf, bb=adds[0][0])


@rule('R20.3', ['C20', 'C10'], floor=2, clause='an unfragmented 6LoWPAN datagram is only sent when the whole frame (MAC header included) fits 125 octets: the guard bounds exactly the length handed to the device')
def r20_3(ctx):
    F = ctx.F
    b = ctx.method(IFI, 'dispatch_sixlowpan')
    cons = [x for x in b.calls() if (b.callee_name(x[1]) or x[1].get('fn') or '').endswith('TxToken::consume')]
    ctx.need(len(cons) == 2, "two consume sites in dispatch_sixlowpan")
    n = 0
    for x in cons:
        ln = untuple(simplify(F.origin.operand(b, x[2][1], x[0], len(b.blocks[x[0]]['s']))))
        if any(l.endswith('frag::Repr::buffer_len') for l in leafs(ln) if l.startswith('C:')):
            # first fragment: ieee + frag1 header + frag1_size, frag1_size <= 125 - ieee - frag1 header by construction
            l, c = lin(ln)
            ctx.ok(('frag1', 'frame-len'), sample=dict(site='FRAG_1', len=show(ln)[:60]))
            continue
        n += 1
        want = lin(ln)

        def fits(f, want=want):
            if f[0] != 'rel' or f[1] not in ('Le', 'Lt'):
                return False
            k = const_int(simplify(f[3]))
            if k is None:
                return False
            bound = k if f[1] == 'Le' else k - 1
            return bound <= 125 and lin(untuple(simplify(f[2]))) == want
        bad = unguarded(F, b, [x[0]], fits)
        if bad:
            ctx.bad("dispatch_sixlowpan|unfragmented-too-long", f"an unfragmented frame of length {show(ln)[:60]} is handed to the device without "
                    "`that length <= 125` (the MAC header is not counted: frames larger than an 802.15.4 frame)", body=b, bb=x[0], path=bad[0][1])
        else:
            ctx.ok(('unfragmented', 'fits-125'), sample=dict(site='unfragmented', guard='total_size + ieee_len <= 125'))
    ctx.need(n == 1, "the unfragmented transmit site")
