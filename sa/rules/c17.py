"""C17 - TCP sockets follow the RFC 9293 state diagram (structural clauses)."""
from ..framework import rule
from ..core import *
from ..fdai import FDAI
from ..lib import *

SOCK = 'socket::tcp::Socket'
STATE = 'socket::tcp::State'
CTRL = 'wire::tcp::Control'
REPR = 'wire::tcp::Repr'
FN = "socket::tcp::Socket::<'a>::"

# (function, from, control-label or None, to) allowed by RFC 9293 3.3.2 / 3.10 (+ the additions the
# property names).  '*' = any.
SEGMENT = {
    ('Listen', 'Syn', 'SynReceived'),
    ('SynSent', 'Syn', 'Established'), ('SynSent', 'Syn', 'SynReceived'),
    ('SynReceived', 'None', 'Established'), ('SynReceived', 'Fin', 'CloseWait'),
    ('SynReceived', 'Rst', 'Listen'), ('SynReceived', 'Rst', 'Closed'),
    ('Established', 'Fin', 'CloseWait'),
    ('FinWait1', 'None', 'FinWait2'), ('FinWait1', 'Fin', 'TimeWait'), ('FinWait1', 'Fin', 'Closing'),
    ('FinWait2', 'Fin', 'TimeWait'),
    ('Closing', 'None', 'TimeWait'),
    ('LastAck', 'None', 'Closed'),
}
API = {
    'close': {('Listen', 'Closed'), ('SynSent', 'Closed'), ('SynReceived', 'FinWait1'),
              ('Established', 'FinWait1'), ('CloseWait', 'LastAck')},
    'listen': {('Closed', 'Listen'), ('TimeWait', 'Closed'), ('Closed', 'Closed')},
    'connect': {('Closed', 'SynSent'), ('TimeWait', 'Closed'), ('Closed', 'Closed')},
}
ANY_TO_CLOSED = {'abort', 'dispatch', 'reset'}   # abort / timeouts / address loss / TIME-WAIT expiry


def state_key():
    return (('d', 1), (('f', 'state', SOCK, '-'),))


def extract_relation(ctx, fns):
    """run fdai once per initial state; collect (entry fn, from, label, to, site line)"""
    F = ctx.F
    states = F.variants(STATE)
    ctx.need(states and len(states) == 11, "enum socket::tcp::State with 11 variants")
    rel = {}
    an_box = []

    def obs(kind, frame, info):
        if kind != 'store':
            return
        si, s = info
        np_ = frame.body.norm(s[1])
        if not (np_[1] and np_[1][-1][0] == 'f' and np_[1][-1][1] == 'state' and np_[1][-1][2] == SOCK):
            return
        st = frame.state
        frm = st.get(np_)
        to = an_box[0].eval_operand(frame.body, st, s[2][1]) if s[2][0] == 'use' else None
        # outermost frame = entry function; label from its tuple (state, control) local if present
        f = frame
        chain = []
        while f is not None:
            chain.append(f)
            f = f.parent
        top = chain[-1]
        label = None
        tl = tuple_local(top.body, f"({STATE}, {CTRL})")
        if tl is not None:
            label = top.state.get((('l', tl), (('f', '1', '{tuple}', '-'),)))
        site = (top.body.key, top.body.block_line(top.bb))
        key = (top.body.key.split('::')[-1], frm, label, to)
        rel.setdefault(key, set()).add(site)
    an = FDAI(F, observer=obs)
    an_box.append(an)
    for fn in fns:
        b = ctx.body(FN + fn)
        for S in states:
            an.run(b, {state_key(): frozenset([S])})
    return rel


@rule('R17.1', ['C17'], floor=30, clause='static transition relation of tcp::Socket.state is a subset of the RFC 9293 relation')
def r17_1(ctx):
    """T4: (function, from-state, control, to-state) at every store to Socket.state, extracted by
    finite-domain abstract interpretation per initial state, must be in the allowed table."""
    fns = ['process', 'close', 'abort', 'listen', 'connect', 'dispatch', 'reset']
    rel = extract_relation(ctx, fns)
    seen_edges = set()
    for (fn, frm, label, to), sites in sorted(rel.items(), key=str):
        line = sorted(sites)[0][1]
        body = ctx.F.body(sorted(sites)[0][0])
        if frm is None or to is None:
            ctx.bad(f"{fn}|unknown", f"store to Socket.state in {fn} with unknown from/to set (from={frm}, to={to})",
                    body=body, line=line)
            continue
        labels = sorted(label) if label is not None else [None]
        for a in sorted(frm):
            for b_ in sorted(to):
                for l in labels:
                    if a == b_:
                        ctx.ok((fn, a, l, b_))
                        continue
                    allowed = False
                    if fn == 'process':
                        if l is None:
                            allowed = False
                        elif (a, l, b_) in SEGMENT:
                            allowed = True
                        elif l == 'Rst' and b_ == 'Closed' and a != 'Listen':
                            allowed = True
                    elif fn in API:
                        allowed = (a, b_) in API[fn]
                    elif fn in ANY_TO_CLOSED:
                        allowed = (b_ == 'Closed')
                    if allowed:
                        ctx.ok((fn, a, l, b_), sample=dict(fn=fn, frm=a, control=l, to=b_, line=line))
                        seen_edges.add((fn, a, l, b_))
                    else:
                        ctx.bad(f"{fn}|{a}->{b_}|{l}",
                                f"state transition {a} -> {b_} on control={l} in tcp::Socket::{fn} is not in the RFC 9293 relation",
                                body=body, line=line)
    # anti-vacuity: the core diagram must have been found
    must = {('process', a, l, b_) for (a, l, b_) in SEGMENT} | {('close', a, None, b_) for (a, b_) in API['close']}
    missing = sorted(m for m in must if m not in seen_edges)
    if missing:
        ctx.note(f"expected transitions not found: {missing}")
        ctx.bad("relation-incomplete", f"expected RFC transitions not found by the extraction (analysis went blind): {missing[:6]}")


@rule('R17.2', ['C17'], floor=2, clause='Socket.state is stored only in set_state and reset')
def r17_2(ctx):
    """T3 who-may-write: stores to / &mut borrows of tcp::Socket.state only in set_state and reset."""
    allowed = {FN + 'set_state', FN + 'reset'}
    ws = ctx.F.writers_of(SOCK, 'state')
    ctx.need(ws, "no store to socket::tcp::Socket.state found")
    for w in ws:
        if w['fn'] in allowed:
            ctx.ok((w['fn'], 'state'), sample=dict(writer=w['fn'], line=w['line']))
        else:
            ctx.bad(f"{w['fn']}|state", f"Socket.state written ({w['kind']}) outside set_state/reset in {w['fn']}",
                    body=ctx.F.body(w['fn']), line=w['line'])
    # set_state: the stored value is its argument
    b = ctx.body(FN + 'set_state')
    for w in ws:
        if w['fn'] == FN + 'set_state' and w['kind'] == 'store':
            s = b.blocks[w['bb']]['s'][w['si']]
            o = ctx.F.origin.rvalue(b, s[2], w['bb'], w['si'], 0, None)
            if strip(o) == ('arg', 2):
                ctx.ok(('set_state', 'arg'))
            else:
                ctx.bad('set_state|value', f"set_state stores {show(o)} instead of its argument", body=b, line=w['line'])
