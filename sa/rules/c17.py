"""C17 - TCP sockets follow the RFC 9293 state diagram (structural clauses)."""
from ..framework import rule
from ..core import *
from ..fdai import FDAI
from ..lib import *
from .c14 import store_origin

SOCK = 'socket::tcp::Socket'
STATE = 'socket::tcp::State'
CTRL = 'wire::tcp::Control'
REPR = 'wire::tcp::Repr'
FN = "socket::tcp::Socket::<'a>::"

# (function, from, control-label or None, to) allowed by RFC 9293 3.3.2 / 3.10 (+ the additions the
# property names).  '*' = any.
SEGMENT = {
    ('Listen', 'Syn', 'SynReceived'),
    ('SynSent', 'Syn', 'Established'), ('SynSent', 'Syn', 'SynReceived'),
    ('SynReceived', 'None', 'Established'), ('SynReceived', 'Fin', 'CloseWait'),
    ('SynReceived', 'Rst', 'Listen'), ('SynReceived', 'Rst', 'Closed'),
    ('Established', 'Fin', 'CloseWait'),
    ('FinWait1', 'None', 'FinWait2'), ('FinWait1', 'Fin', 'TimeWait'), ('FinWait1', 'Fin', 'Closing'),
    ('FinWait2', 'Fin', 'TimeWait'),
    ('Closing', 'None', 'TimeWait'),
    ('LastAck', 'None', 'Closed'),
}
API = {
    'close': {('Listen', 'Closed'), ('SynSent', 'Closed'), ('SynReceived', 'FinWait1'),
              ('Established', 'FinWait1'), ('CloseWait', 'LastAck')},
    'listen': {('Closed', 'Listen'), ('TimeWait', 'Closed'), ('Closed', 'Closed')},
    'connect': {('Closed', 'SynSent'), ('TimeWait', 'Closed'), ('Closed', 'Closed')},
}
ANY_TO_CLOSED = {'abort', 'dispatch', 'reset'}   # abort / timeouts / address loss / TIME-WAIT expiry


def state_key():
    return (('d', 1), (('f', 'state', SOCK, '-'),))


def extract_relation(ctx, fns):
    """run fdai once per initial state; collect (entry fn, from, label, to, site line)"""
    F = ctx.F
    states = F.variants(STATE)
    ctx.need(states and len(states) == 11, "enum socket::tcp::State with 11 variants")
    rel = {}
    an_box = []

    def obs(kind, frame, info):
        if kind != 'store':
            return
        si, s = info
        np_ = frame.body.norm(s[1])
        if not (np_[1] and np_[1][-1][0] == 'f' and np_[1][-1][1] == 'state' and np_[1][-1][2] == SOCK):
            return
        st = frame.state
        frm = st.get(np_)
        to = an_box[0].eval_operand(frame.body, st, s[2][1]) if s[2][0] == 'use' else None
        # outermost frame = entry function; label from its tuple (state, control) local if present
        f = frame
        chain = []
        while f is not None:
            chain.append(f)
            f = f.parent
        top = chain[-1]
        label = None
        matched = None
        tl = tuple_local(top.body, f"({STATE}, {CTRL})")
        if tl is not None:
            label = top.state.get((('l', tl), (('f', '1', '{tuple}', '-'),)))
            matched = top.state.get((('l', tl), (('f', '0', '{tuple}', '-'),)))
        # a transition made of reset() (-> Closed) followed by set_state(X) inside one arm of `match (state, control)`
        # leaves from the state that arm matched, not from the transient Closed
        if frm == frozenset(['Closed']) and matched is not None and len(matched) == 1 and matched != frm and len(chain) == 2 \
                and chain[0].body.key.endswith('::set_state'):
            frm = matched
        site = (top.body.key, top.body.block_line(top.bb))
        key = (top.body.key.split('::')[-1], frm, label, to)
        rel.setdefault(key, set()).add(site)
    an = FDAI(F, observer=obs)
    an_box.append(an)
    for fn in fns:
        b = ctx.method(SOCK, fn)
        for S in states:
            an.run(b, {state_key(): frozenset([S])})
    return rel


@rule('R17.1', ['C17'], floor=30, clause='static transition relation of tcp::Socket.state is a subset of the RFC 9293 relation')
def r17_1(ctx):
    """T4: (function, from-state, control, to-state) at every store to Socket.state, extracted by
    finite-domain abstract interpretation per initial state, must be in the allowed table."""
    fns = ['process', 'close', 'abort', 'listen', 'connect', 'dispatch', 'reset']
    rel = extract_relation(ctx, fns)
    seen_edges = set()
    for (fn, frm, label, to), sites in sorted(rel.items(), key=str):
        line = sorted(sites)[0][1]
        body = ctx.F.body(sorted(sites)[0][0])
        if frm is None or to is None:
            ctx.bad(f"{fn}|unknown", f"store to Socket.state in {fn} with unknown from/to set (from={frm}, to={to})",
                    body=body, line=line)
            continue
        labels = sorted(label) if label is not None else [None]
        for a in sorted(frm):
            for b_ in sorted(to):
                for l in labels:
                    if a == b_:
                        ctx.ok((fn, a, l, b_))
                        continue
                    allowed = False
                    if fn == 'process':
                        if l is None:
                            allowed = False
                        elif (a, l, b_) in SEGMENT:
                            allowed = True
                        elif l == 'Rst' and b_ == 'Closed' and a != 'Listen':
                            allowed = True
                    elif fn in API:
                        allowed = (a, b_) in API[fn]
                    elif fn in ANY_TO_CLOSED:
                        allowed = (b_ == 'Closed')
                    if allowed:
                        ctx.ok((fn, a, l, b_), sample=dict(fn=fn, frm=a, control=l, to=b_, line=line))
                        seen_edges.add((fn, a, l, b_))
                    else:
                        ctx.bad(f"{fn}|{a}->{b_}|{l}",
                                f"state transition {a} -> {b_} on control={l} in tcp::Socket::{fn} is not in the RFC 9293 relation",
                                body=body, line=line)
    # anti-vacuity: the core diagram must have been found
    must = {('process', a, l, b_) for (a, l, b_) in SEGMENT} | {('close', a, None, b_) for (a, b_) in API['close']}
    missing = sorted(m for m in must if m not in seen_edges)
    if missing:
        ctx.note(f"expected transitions not found: {missing}")
        ctx.bad("relation-incomplete", f"expected RFC transitions not found by the extraction (analysis went blind): {missing[:6]}")


@rule('R17.2', ['C17'], floor=2, clause='Socket.state is stored only in set_state and reset')
def r17_2(ctx):
    """T3 who-may-write: stores to / &mut borrows of tcp::Socket.state only in set_state and reset."""
    allowed = {FN + 'set_state', FN + 'reset'}
    ws = ctx.F.writers_of(SOCK, 'state')
    ctx.need(ws, "no store to socket::tcp::Socket.state found")
    for w in ws:
        if w['fn'] in allowed:
            ctx.ok((w['fn'], 'state'), sample=dict(writer=w['fn'], line=w['line']))
        else:
            ctx.bad(f"{w['fn']}|state", f"Socket.state written ({w['kind']}) outside set_state/reset in {w['fn']}",
                    body=ctx.F.body(w['fn']), line=w['line'])
    # set_state: the stored value is its argument
    b = ctx.method(SOCK, 'set_state')
    for w in ws:
        if w['fn'] == FN + 'set_state' and w['kind'] == 'store':
            s = b.blocks[w['bb']]['s'][w['si']]
            o = ctx.F.origin.rvalue(b, s[2], w['bb'], w['si'], 0, None)
            if strip(o) == ('arg', 2):
                ctx.ok(('set_state', 'arg'))
            else:
                ctx.bad('set_state|value', f"set_state stores {show(o)} instead of its argument", body=b, line=w['line'])


def set_state_sites(body, variant):
    out = []
    for bi, c, args, dest, tgt, ln in call_sites(body, FN + 'set_state'):
        if const_variant_arg(body, args[1]) == variant:
            out.append(bi)
    return out


def partition_run(ctx, body, state=None, control=None, ack=None):
    cache = ctx.run.__dict__.setdefault('_prt', {})
    key = (ctx.cfg, body.key, state, control, ack)
    if key in cache:
        return cache[key]
    an = FDAI(ctx.F)
    init = {}
    if state is not None:
        init[fkey(SOCK, 'state', 1)] = frozenset([state])
    if control is not None:
        init[fkey(REPR, 'control', 4)] = frozenset([control])
    if ack is not None:
        init[fkey(REPR, 'ack_number', 4)] = frozenset([ack])
    r = an.run(body, init)
    cache[key] = r
    return r


ACK_LEAFS = [f"F:{REPR}.ack_number"]
ISS_LEAFS = [f"F:{SOCK}.local_seq_no", "K:1"]


@rule('R17.3', ['C17'], floor=8, clause='ESTABLISHED only behind ack == ISS+1; FIN-WAIT-2 / TIME-WAIT / CLOSED-from-LAST-ACK only behind the ack-of-own-FIN flag, itself only set behind the FIN-acknowledged comparison')
def r17_3(ctx):
    """T1 under fdai partitions (state x control): every feasible path to a set_state(Established)
    site passes an edge where `repr.ack_number == self.local_seq_no + 1` holds; the sites entering
    FinWait2 / TimeWait(from Closing or FinWait1 with the ack-of-fin branch) / Closed(from LastAck)
    pass the true edge of a bool whose only `true` store is behind `tx_buffer.len()+1 == ack_len`."""
    F = ctx.F
    b = ctx.method(SOCK, 'process')
    est = set_state_sites(b, 'Established')
    ctx.need(len(est) >= 2, "two set_state(Established) sites in tcp::process")
    eq_edges = rel_edges(F, b, 'eq', ACK_LEAFS, ISS_LEAFS)
    ctx.need(eq_edges, "a comparison ack_number == local_seq_no + 1 in tcp::process")
    controls = F.variants(CTRL)
    for S in F.variants(STATE):
        r0 = partition_run(ctx, b, S)
        if not feasible_sites(b, est, r0.edge_ok()):
            ctx.ok(('est-infeasible', S))
            continue
        for C in controls:
            for A in ('Some', 'None'):
                r = partition_run(ctx, b, S, C, A)
                ok = r.edge_ok()
                feas = feasible_sites(b, est, ok)
                for s in feas:
                    badp = cut_sites(b, [s], eq_edges, ok)
                    if badp:
                        ctx.bad(f"process|Established|{S}|{C}|{A}",
                                f"ESTABLISHED can be entered from {S} on control={C} (ack {A}) without passing "
                                f"`ack_number == local_seq_no + 1`", body=b, bb=s, path=badp[0][1])
                    else:
                        ctx.ok(('est', S, C, A), sample=dict(site_line=b.block_line(s), state=S, control=C, ack=A,
                                                             guard='ack==ISS+1'))
    # ack-of-FIN flag
    fin_edges = rel_edges(F, b, 'eq', ["C:storage::ring_buffer::RingBuffer::<'a, T>::len", f"F:{SOCK}.tx_buffer", "K:1"],
                          ACK_LEAFS + [f"F:{SOCK}.local_seq_no"])
    ctx.need(fin_edges, "comparison tx_buffer.len() + 1 == ack_len in tcp::process")
    table = [('FinWait1', 'None', 'FinWait2'), ('FinWait1', 'Fin', 'TimeWait'), ('Closing', 'None', 'TimeWait'),
             ('LastAck', 'None', 'Closed')]
    for (S, C, T) in table:
        r = partition_run(ctx, b, S, C)
        ok = r.edge_ok()
        sites = feasible_sites(b, set_state_sites(b, T), ok)
        if not sites:
            ctx.bad(f"process|{S}|{C}|{T}|nosite", f"no feasible set_state({T}) site for ({S},{C}) - table row vanished", body=b)
            continue
        dg = derived_guard_edges(b, fin_edges, ok)
        for s in sites:
            badp = cut_sites(b, [s], dg, ok)
            if badp:
                ctx.bad(f"process|{S}|{C}|{T}|ackfin",
                        f"{S} -> {T} on control={C} reachable without the acknowledgment-of-own-FIN condition "
                        f"(tx_buffer.len()+1 == acked length)", body=b, bb=s, path=badp[0][1])
            else:
                ctx.ok(('ackfin', S, C, T), sample=dict(frm=S, control=C, to=T, guard='ack_of_fin'))
    # the flag can only become true when a FIN was sent: in states that have not sent a FIN the
    # FIN-acknowledged edge itself must be infeasible
    sent_fin_states = {'FinWait1', 'LastAck', 'Closing'}
    for S in F.variants(STATE):
        if S in sent_fin_states:
            continue
        r = partition_run(ctx, b, S)
        feas = [e for e in fin_edges if e in r.feasible]
        if feas:
            ctx.bad(f"process|ackfin-feasible|{S}", f"`ack of FIN` comparison is reachable in state {S} which has not sent a FIN",
                    body=b, bb=feas[0][0])
        else:
            ctx.ok(('nofin', S))


@rule('R17.4', ['C17'], floor=9, clause='RST resets a connection only via the in-window edge (or ack == ISS+1 in SYN-SENT)')
def r17_4(ctx):
    """T1 under fdai partitions (state, control=Rst): every feasible path to a state store passes
    (SYN-SENT) the ack==ISS+1 edge or (synchronised states) the true edge of the segment-in-window
    flag, whose `true` stores are all behind comparisons of RCV.NXT with the segment's sequence."""
    F = ctx.F
    b = ctx.method(SOCK, 'process')
    ss = [bi for bi, *_ in call_sites(b, FN + 'set_state')]
    eq_edges = rel_edges(F, b, 'eq', ACK_LEAFS, ISS_LEAFS)
    WS = [f"F:{SOCK}.remote_seq_no"]
    SEG = [f"F:{REPR}.seq_number"]
    win = rel_edges(F, b, 'le_or_eq', WS, SEG, either_order=True)
    ctx.need(win, "window-start vs segment sequence comparisons in tcp::process")
    for S in F.variants(STATE):
        r = partition_run(ctx, b, S, 'Rst')
        ok = r.edge_ok()
        sites = feasible_sites(b, ss, ok)
        if S in ('Listen', 'Closed'):
            if S == 'Listen' and sites:
                ctx.bad("process|Listen|Rst", "a RST changes the state of a LISTEN socket", body=b, bb=sites[0])
            else:
                ctx.ok(('rst', S))
            continue
        if not sites:
            ctx.bad(f"process|{S}|Rst|nosite", f"no state store reachable for RST in {S} (analysis blind)", body=b)
            continue
        if S == 'SynSent':
            g = set(eq_edges)
            what = 'ack_number == local_seq_no + 1'
        else:
            g = derived_guard_edges(b, win, ok)
            what = 'segment in receive window'
        for s in sites:
            badp = cut_sites(b, [s], g, ok)
            if badp:
                ctx.bad(f"process|{S}|Rst|unguarded", f"RST in {S} reaches a state change without `{what}`",
                        body=b, bb=s, path=badp[0][1])
            else:
                ctx.ok(('rst', S), sample=dict(state=S, control='Rst', guard=what, site_line=b.block_line(s)))


@rule('R17.5', ['C17'], floor=5, clause='TIME-WAIT delay is the 10 s constant; Timer::Close armed only by set_for_close at TIME-WAIT entry/refresh; expiry closes')
def r17_5(ctx):
    F = ctx.F
    cd = F.const_value('socket::tcp::CLOSE_DELAY')
    ctx.need(cd is not None, "const socket::tcp::CLOSE_DELAY")
    if cd.get('fields') == [10_000_000]:
        ctx.ok(('CLOSE_DELAY',), sample=dict(const='CLOSE_DELAY', micros=cd['fields'][0]))
    else:
        ctx.bad('CLOSE_DELAY', f"CLOSE_DELAY is {cd} (expected 10 s = 10000000 us)")
    # Timer::Close constructed only in set_for_close, with expires_at = arg + CLOSE_DELAY
    T = 'socket::tcp::Timer'
    sfc = ctx.method('socket::tcp::Timer', 'set_for_close')
    n = 0
    for k, b in F.bodies.items():
        for bi, bl in enumerate(b.blocks):
            if bl['cl']:
                continue
            for si, s in enumerate(bl['s']):
                if s[0] == 'a' and s[2][0] == 'agg' and s[2][1]['k'] == 'adt' and s[2][1]['adt'] == T \
                        and s[2][1]['variant'] == 'Close':
                    n += 1
                    if k != 'socket::tcp::Timer::set_for_close':
                        ctx.bad(f"{k}|Timer::Close", f"Timer::Close constructed outside set_for_close in {k}", body=b, bb=bi)
                        continue
                    o = F.origin.operand(b, s[2][2][0], bi, si)
                    ls = leafs(o)
                    if 'A:2' in ls and 'N:socket::tcp::CLOSE_DELAY' in ls and any('Add' in x for x in ls if x.startswith('C:')):
                        ctx.ok(('set_for_close', 'expires_at'), sample=dict(expires_at=show(o)))
                    else:
                        ctx.bad('set_for_close|expires_at', f"Timer::Close.expires_at = {show(o)} is not `timestamp + CLOSE_DELAY`",
                                body=b, bb=bi)
    ctx.need(n >= 1, "construction of Timer::Close")
    # callers of set_for_close: only tcp::process, and each call site is in a partition whose state
    # is TimeWait after/at the call
    callers = F.callers('socket::tcp::Timer::set_for_close')
    for c in sorted(callers):
        if c == FN + 'process':
            ctx.ok(('caller', c))
        else:
            ctx.bad(f"{c}|set_for_close", f"set_for_close called from {c} (only tcp::process may arm the TIME-WAIT timer)",
                    body=F.body(c))
    p = ctx.method(SOCK, 'process')
    for S in F.variants(STATE):
        r = partition_run(ctx, p, S)
        for bi, c, args, dest, tgt, ln in call_sites(p, 'socket::tcp::Timer::set_for_close'):
            st = r.instate[bi]
            if st is None:
                continue
            v = st.get(fkey(SOCK, 'state', 1))
            if v is not None and v == frozenset(['TimeWait']):
                ctx.ok(('close-armed', S, ln if False else bi))
            else:
                ctx.bad(f"process|set_for_close|{S}", f"TIME-WAIT timer armed while state may be {sorted(v) if v else 'unknown'} (from {S})",
                        body=p, bb=bi)
    # should_close: true only for Timer::Close behind timestamp >= expires_at ; dispatch: reset behind should_close
    sc = ctx.method('socket::tcp::Timer', 'should_close')
    ge = rel_edges(F, sc, 'gt', ['A:2'], [f"F:{T}.expires_at"], either_order=True)
    if not ge:
        ge = [(bi, f) for bi, f in returned_comparisons(F, sc)
              if rel_matches(f, 'gt', ['A:2'], [f"F:{T}.expires_at"], True)]
    ctx.need(ge, "comparison timestamp >= expires_at in Timer::should_close")
    ctx.ok(('should_close', 'cmp'))
    d = ctx.method(SOCK, 'dispatch')
    sce = bool_call_edges(F, d, lambda n: n == 'socket::tcp::Timer::should_close', True)
    ctx.need(sce, "dispatch tests Timer::should_close")
    ctx.ok(('dispatch', 'should_close'))


@rule('R17.5b', ['C17'], floor=3, clause='every entry into TIME-WAIT arms the 10 s close timer before returning')
def r17_5b(ctx):
    """T2 pairing: after each set_state(TimeWait) in tcp::process every path to a return passes
    Timer::set_for_close."""
    p = ctx.method(SOCK, 'process')
    sites = set_state_sites(p, 'TimeWait')
    ctx.need(len(sites) >= 3, "three TIME-WAIT entry sites in tcp::process")
    for s in sites:
        bad = always_followed_by(p, s, {'socket::tcp::Timer::set_for_close'})
        if bad:
            ctx.bad(f"process|TimeWait-entry|no-close-timer|{entry_label(ctx, p, s)}",
                    "TIME-WAIT entered without arming the close timer on some path to return "
                    "(TIME-WAIT would not end by itself after 10 s)", body=p, bb=s, path=bad[0])
        else:
            ctx.ok(('tw-arm', entry_label(ctx, p, s)), sample=dict(site_line=p.block_line(s), then='set_for_close'))


def entry_label(ctx, p, site):
    """stable label of a set_state site: the (from-state, control) pairs under which it is feasible"""
    labs = []
    for S in ctx.F.variants(STATE):
        r = partition_run(ctx, p, S)
        if r.instate[site] is not None:
            labs.append(S)
    return '+'.join(labs)


RESET_TABLE = {
    # field -> required origin (None = any value, must just be written)
    'state': ('variant', f'{STATE}::Closed'),
    'listen_endpoint': None,
    'tuple': ('variant', 'std::option::Option::None'),
    'timer': None,
    'rx_fin_received': ('const', 'false'),
    'local_seq_no': None, 'remote_seq_no': None, 'remote_last_seq': None,
    'remote_last_ack': ('variant', 'std::option::Option::None'),
    'remote_last_win': None, 'remote_win_len': None, 'remote_win_scale': None, 'remote_win_shift': None,
    'remote_mss': None, 'remote_last_ts': None, 'assembler': None,
}


@rule('R17.6', ['C17', 'C01', 'C04', 'C05', 'C11'], floor=10, clause='reset() re-initialises every connection-scoped field on every path (state=Closed, tuple=None, listen_endpoint default, timer, sequence variables)')
def r17_6(ctx):
    """T3 must-write: tcp::Socket::reset stores every field of the reviewed table on all paths.
    (`listen_endpoint` left stale lets a RST turn an actively opened SYN-RECEIVED socket into LISTEN.)"""
    b = ctx.method(SOCK, 'reset')
    mw = must_write_fields(ctx.F, b, SOCK)
    for f, want in RESET_TABLE.items():
        if f not in mw:
            ctx.bad(f"reset|{f}", f"tcp::Socket::reset does not (on every path) re-initialise `{f}`", body=b)
            continue
        if want is not None:
            bi, si = mw[f][0]
            if si == 'T':
                ctx.bad(f"reset|{f}|value", f"reset stores a call result into `{f}`, expected {want}", body=b, bb=bi)
                continue
            o = strip(ctx.F.origin.rvalue(b, b.blocks[bi]['s'][si][2], bi, si, 0, None))
            if o == want:
                ctx.ok(('reset', f), sample=dict(field=f, value=show(o)))
            else:
                ctx.bad(f"reset|{f}|value", f"reset stores {show(o)} into `{f}`, expected {want[1]}", body=b, bb=bi)
        else:
            ctx.ok(('reset', f))
    # listen_endpoint default: IpListenEndpoint::default() -> port 0
    bi, si = mw.get('listen_endpoint', [(None, None)])[0]
    if bi is not None:
        if si == 'T':
            t = b.blocks[bi]['t']
            nm = b.callee_name(t[1])
            if nm and 'IpListenEndpoint' in nm and nm.endswith('default'):
                ctx.ok(('reset', 'listen_endpoint', 'default'))
            else:
                ctx.bad('reset|listen_endpoint|value', f"reset stores {nm}() into listen_endpoint, expected IpListenEndpoint::default()", body=b, bb=bi)


@rule('R17.11', ['C17', 'C11'], floor=8, clause='a RST is judged by its own sequence number: in the synchronised states a RST reaches a state change only behind `RCV.NXT <= SEG.SEQ` on the bare sequence number (text carried by the RST does not bring a sequence number left of the window into it)')
def r17_11(ctx):
    F = ctx.F
    b = ctx.method(SOCK, 'process')
    ss = [bi for bi, *_ in call_sites(b, FN + 'set_state')]
    WS = f"F:{SOCK}.remote_seq_no"
    SEQ = f"F:{REPR}.seq_number"

    def bare(f):
        if f[0] != 'rel':
            return False
        for lo, hi, ops in ((f[2], f[3], ('Le', 'Lt', 'Eq')), (f[3], f[2], ('Ge', 'Gt', 'Eq'))):
            # RCV.NXT = remote_seq_no + rx_buffer.len(): the first octet still unread alone is left of it while data is queued
            if f[1] in ops and WS in leafs(lo) and f"F:{SOCK}.rx_buffer" in leafs(lo) and SEQ not in leafs(lo) and SEQ in leafs(hi) and WS not in leafs(hi) \
                    and not any('payload' in l for l in leafs(hi)):
                return True
        return False
    g0 = guard_edges(F, b, bare)
    ctx.need(g0, "comparison of RCV.NXT with the bare segment sequence number in tcp::process")
    for S in F.variants(STATE):
        if S in ('Listen', 'Closed', 'SynSent'):
            continue
        r = partition_run(ctx, b, S, 'Rst')
        ok = r.edge_ok()
        sites = feasible_sites(b, ss, ok)
        if not sites:
            continue
        g = derived_guard_edges(b, g0, ok, pred=bare)
        badp = cut_sites(b, sites, g, ok)
        if badp:
            ctx.bad(f"process|{S}|Rst|sequence-left-of-window", f"in {S} a RST whose sequence number lies left of the receive window but whose text reaches into it changes the state: "
                    "a blind attacker needs to hit a much larger range of sequence numbers to reset the connection", body=b, bb=badp[0][0], path=badp[0][1])
        else:
            ctx.ok(('rst bare seq', S), sample=dict(state=S, control='Rst', guard='RCV.NXT <= SEG.SEQ'))


@rule('R17.12', ['C17', 'C01'], floor=6, clause='SND.UNA never moves backwards: process() stores the acknowledgement number into local_seq_no only behind `ack >= SND.UNA` (or the exact ISS+1 tests of the opening states), whatever else the segment carries')
def r17_12(ctx):
    F = ctx.F
    b = ctx.method(SOCK, 'process')
    ACK, UNA = f"F:{REPR}.ack_number", f"F:{SOCK}.local_seq_no"
    ws = [w['bb'] for w in F.field_writes() if w['fn'] == b.key and w['kind'] == 'store' and w['adt'] == SOCK and w['field'] == 'local_seq_no'
          and ACK in leafs(store_origin(F, b, w))]
    ctx.need(ws, "local_seq_no = ack_number in tcp::process")

    def notold(f):
        if f[0] != 'rel':
            return False
        for lo, hi, ops in ((f[3], f[2], ('Ge', 'Gt', 'Eq')), (f[2], f[3], ('Le', 'Lt', 'Eq'))):
            if f[1] in ops and UNA in leafs(lo) and ACK not in leafs(lo) and ACK in leafs(hi) and UNA not in leafs(hi):
                return True
        return False
    g0 = guard_edges(F, b, notold)
    ctx.need(g0, "comparison of the acknowledgement number with SND.UNA in tcp::process")
    for S in F.variants(STATE):
        if S in ('Listen', 'Closed'):
            continue
        for C_ in ('None', 'Psh', 'Syn', 'Fin'):
            r = partition_run(ctx, b, S, C_, 'Some')
            ok = r.edge_ok()
            sites = feasible_sites(b, ws, ok)
            if not sites:
                continue
            badp = cut_sites(b, sites, g0, ok)
            if badp:
                ctx.bad(f"process|{S}|{C_}|una-backwards", f"in {S} a {C_} segment can reach `local_seq_no = ack_number` without `ack_number >= SND.UNA` on the way: an old acknowledgement "
                        "(with text) rewinds SND.UNA, after which an ACK that does not cover the FIN is taken for the ACK of the FIN", body=b, bb=badp[0][0], path=badp[0][1])
            else:
                ctx.ok(('una monotone', S, C_), sample=dict(state=S, control=C_, guard='ack_number >= SND.UNA'))
