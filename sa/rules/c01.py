"""C01 - TCP stream integrity: structural clauses (FIN ordering, tx addressing, modular comparison)."""
from ..framework import rule
from ..core import *
from ..lib import *
from ..fdai import FDAI
from .c04 import is_rcv_nxt, is_seg_start, is_seg_end, is_window_end, const_int, S, R

SEQ = 'wire::tcp::SeqNumber'


def fin_sites(F, b):
    """blocks storing rx_fin_received = true"""
    out = []
    for bi, bl in enumerate(b.blocks):
        if bl['cl']:
            continue
        for si, s in enumerate(bl['s']):
            if s[0] == 'a':
                np_ = b.norm(s[1])
                if np_[1] and np_[1][-1][0] == 'f' and np_[1][-1][1] == 'rx_fin_received' and np_[1][-1][2] == S \
                        and s[2][0] == 'use' and s[2][1][0] == 'k' and s[2][1][2] is True:
                    out.append(bi)
    return out


@rule('R01.1', ['C01', 'C04', 'C17'], floor=8, clause='a FIN is consumed only when no hole precedes the segment (RCV.NXT >= SEG.SEQ) and nothing of the segment was cut off at the right window edge (SEG.END <= window_end)')
def r01_1(ctx):
    """T1 under fdai partition control=Fin: every feasible path to `rx_fin_received = true` in
    tcp::process passes (a) an edge on which !(RCV.NXT < SEG.SEQ) holds and (b) an edge on which
    !(window_end < SEG.END) holds - the FIN is in sequence only if every byte before it was accepted."""
    F = ctx.F
    b = ctx.method(S, 'process')
    sites = fin_sites(F, b)
    ctx.need(len(sites) >= 4, "four FIN-consuming arms in tcp::process")

    def no_hole(f):
        if f[0] != 'rel':
            return False
        _, op, x, y = f
        x, y = simplify(x), simplify(y)
        # RCV.NXT >= SEG.SEQ   (in any orientation)
        if is_rcv_nxt(x) and is_seg_start(y) and op in ('Ge', 'Eq'):
            return True
        if is_seg_start(x) and is_rcv_nxt(y) and op in ('Le', 'Eq'):
            return True
        return False

    def not_cut(f):
        if f[0] != 'rel':
            return False
        _, op, x, y = f
        x, y = simplify(x), simplify(y)
        if is_window_end(x) and is_seg_end(y) and op in ('Ge', 'Eq'):
            return True
        if is_seg_end(x) and is_window_end(y) and op in ('Le', 'Eq'):
            return True
        return False
    from ..fdai import run_split
    from .c17 import REPR, SOCK
    # the (quashed) control variable: the user local of type wire::tcp::Control that is switched on
    # together with the state; the analysis keeps one abstract state per value of it
    cl = [i for i, l in enumerate(b.locals) if l['ty'] == 'wire::tcp::Control' and l['name'] is not None and i > b.nargs]
    ctx.need(len(cl) >= 1, "a local of type wire::tcp::Control in tcp::process")
    g_hole = pass_edges(F, b, no_hole)
    g_cut = pass_edges(F, b, not_cut)
    for St in F.variants('socket::tcp::State'):
        worst = None
        for c_local in cl:
            an = FDAI(F)
            init = {fkey(SOCK, 'state', 1): frozenset([St]), fkey(REPR, 'control', 4): frozenset(['Fin'])}
            r = run_split(an, b, init, (('l', c_local), ()))
            feas = r.sites_reached(set(sites))
            if not feas:
                continue
            h = r.sites_reached(set(sites), g_hole)
            c_ = r.sites_reached(set(sites), g_cut) if g_cut else feas
            cand = (len(h) + len(c_), h, c_, feas)
            if worst is None or cand[0] < worst[0]:
                worst = cand
        if worst is None:
            ctx.ok(('fin', 'infeasible', St))
            continue
        _, h, c_, feas = worst
        for s in sorted({x[0] for x in feas}):
            hb = [x for x in h if x[0] == s]
            if hb:
                ctx.bad(f"process|fin|hole|{St}", f"in {St} a FIN can be consumed although a hole precedes the segment "
                        "(no RCV.NXT >= SEG.SEQ edge on the path)", body=b, bb=s, path=hb[0][2])
            else:
                ctx.ok(('fin', 'no-hole', St, s), sample=dict(state=St, site_line=b.block_line(s), guard='!(RCV.NXT < SEG.SEQ)'))
            cb = [x for x in c_ if x[0] == s]
            if cb:
                ctx.bad(f"process|fin|right-edge|{St}", f"in {St} a FIN can be consumed although the segment's payload was truncated at the "
                        "right edge of the receive window (no SEG.END <= window_end edge on the path): bytes before the FIN were never received",
                        body=b, bb=s, path=cb[0][2])
            else:
                ctx.ok(('fin', 'not-cut', St, s), sample=dict(state=St, site_line=b.block_line(s), guard='!(window_end < SEG.END)'))


@rule('R01.3', ['C01', 'C05'], floor=3, clause='transmitted payload is addressed by sequence number: tx_buffer offset = SEG.SEQ - SND.UNA on the normal path (flight_size) and 0 with SEG.SEQ = SND.UNA on fast retransmit')
def r01_3(ctx):
    """T5 in tcp::Socket::dispatch: at every tx_buffer.get_allocated(offset, size) site the reaching
    value of repr.seq_number and the offset argument are one of the two consistent pairs; flight_size()
    returns remote_last_seq - local_seq_no."""
    F = ctx.F
    d = ctx.method(S, 'dispatch')
    fs = ctx.method(S, 'flight_size')
    from ..wirelib import ret_origin
    r = simplify(ret_origin(F, fs))
    if is_call(r, '::sub', nargs=2) and is_field(call_args(r)[0], S, 'remote_last_seq') and is_field(call_args(r)[1], S, 'local_seq_no'):
        ctx.ok(('flight_size',), sample=dict(flight_size='remote_last_seq - local_seq_no'))
    else:
        ctx.bad("flight_size|value", f"flight_size() returns {show(r)[:80]} (expected remote_last_seq - local_seq_no)", body=fs)
    reprs = struct_local(d, 'wire::tcp::Repr')
    ctx.need(len(reprs) >= 1, "TcpRepr local in dispatch")
    sites = [x for x in d.calls() if (d.callee_name(x[1]) or '').endswith('::get_allocated')]
    ctx.need(len(sites) >= 2, "tx_buffer.get_allocated sites in tcp::dispatch (normal path, retransmission from SND.UNA)")
    for x in sites:
        bi = x[0]
        si = len(d.blocks[bi]['s'])
        off = simplify(F.origin.operand(d, x[2][1], bi, si))
        recv = simplify(F.origin.operand(d, x[2][0], bi, si))
        if not is_field(recv, S, 'tx_buffer'):
            ctx.bad("dispatch|payload-source", f"get_allocated on {show(recv)[:60]} (expected self.tx_buffer)", body=d, bb=bi)
            continue
        seqs = [simplify(F.origin.place(d, field_place(rl, R, 'seq_number'), bi, si)) for rl in reprs]
        seq = seqs[0]
        if const_int(off) == 0:
            good = all(is_field(a, S, 'local_seq_no') for a in alts(seq))
            kind = 'from SND.UNA (fast retransmit / probe with data in flight)'
        elif is_call(off, 'flight_size'):
            good = all(is_field(a, S, 'remote_last_seq') or is_field(a, S, 'local_seq_no') for a in alts(seq)) and \
                any(is_field(a, S, 'remote_last_seq') for a in alts(seq))
            kind = 'normal'
        else:
            good = False
            kind = 'unknown'
        if good:
            ctx.ok(('dispatch', 'seq-offset', kind), sample=dict(path=kind, offset=show(off)[:40], seq_number=show(seq)[:80]))
        else:
            ctx.bad(f"dispatch|seq-offset|{kind}", f"segment payload taken at tx offset {show(off)[:50]} but seq_number is {show(seq)[:80]} "
                    "(payload bytes would not correspond to their sequence numbers)", body=d, bb=bi)


@rule('R01.4', ['C01', 'C04', 'C05'], floor=4, clause='sequence numbers are ordered only through the wrapping (modular) comparison')
def r01_4(ctx):
    """T3+T5: PartialOrd for SeqNumber is hand written, compares `self.0.wrapping_sub(other.0)` with 0;
    SeqNumber::{min,max} use that comparison; no derived Ord/PartialOrd impl exists."""
    F = ctx.F
    po = [imp for imp in F.impls if imp.get('self_adt') == SEQ and (imp.get('trait') or '').startswith('std::cmp::PartialOrd')]
    ordi = [imp for imp in F.impls if imp.get('self_adt') == SEQ and (imp.get('trait') or '') == 'std::cmp::Ord']
    ctx.need(len(po) == 1, "exactly one PartialOrd impl for wire::tcp::SeqNumber")
    if po[0]['derived'] or ordi:
        ctx.bad("SeqNumber|derived-order", "SeqNumber ordering is derived (plain integer comparison breaks at wrap-around)")
    else:
        ctx.ok(('SeqNumber', 'manual-partialord'))
    b = F.method(SEQ, 'partial_cmp', trait='std::cmp::PartialOrd')
    ctx.need(b is not None, "SeqNumber::partial_cmp")
    from ..wirelib import ret_origin
    r = simplify(ret_origin(F, b))
    ls = leafs(r)
    ws = [l for l in ls if l.startswith('C:') and l.endswith('wrapping_sub')]
    if ws and 'K:0' in ls and {'A:1', 'A:2'} <= ls:
        ctx.ok(('SeqNumber', 'wrapping_sub'), sample=dict(partial_cmp=show(r)[:100]))
    else:
        ctx.bad("SeqNumber|partial_cmp", f"SeqNumber::partial_cmp = {show(r)[:100]} is not wrapping_sub(self, other) vs 0", body=b)
    for m in ('min', 'max'):
        mb = ctx.method(SEQ, m)
        calls = {mb.callee_name(c) for _, c, *_ in mb.calls()}
        if any(c and 'PartialOrd' in c for c in calls) or any(c and c.endswith(('::lt', '::gt', '::le', '::ge')) for c in calls):
            ctx.ok(('SeqNumber', m))
        else:
            ctx.bad(f"SeqNumber|{m}", f"SeqNumber::{m} does not go through the modular PartialOrd", body=mb)
    # raw reads of SeqNumber.0 outside the type's own impls / packet accessors
    n = 0
    allowed_files = ('src/wire/tcp.rs',)
    for k, bd in F.bodies.items():
        if (bd.file or '') in allowed_files:
            continue
        for bl in bd.blocks:
            if bl['cl']:
                continue
            for s in bl['s']:
                if s[0] != 'a':
                    continue
                for pl in _places_in(s[2]):
                    if any(isinstance(p, list) and p[0] == 'f' and p[3] == SEQ for p in pl[1]):
                        n += 1
                        fnm = (bd.meta.get('root') or k).rsplit('::', 1)[-1]
                        if fnm in RAW_SEQ_READERS:
                            ctx.ok(('raw-seq', fnm))
                        else:
                            ctx.bad(f"{fnm}|raw-seq", f"{k} reads the raw integer of a SeqNumber (bypasses modular arithmetic)", body=bd, line=s[3])


RAW_SEQ_READERS = {
    'ack_reply': "SACK blocks are emitted as raw u32 pairs",
    'process': "SACK / timestamp bookkeeping uses raw values for display only",
}


def _places_in(rv):
    out = []
    def op(o):
        if isinstance(o, list) and o and o[0] in ('c', 'm'):
            out.append(o[1])
    k = rv[0]
    if k == 'use':
        op(rv[1])
    elif k in ('ref', 'rawptr', 'discr'):
        out.append(rv[2] if k != 'discr' else rv[1])
    elif k == 'bin':
        op(rv[2]); op(rv[3])
    elif k in ('un',):
        op(rv[2])
    elif k == 'cast':
        op(rv[2])
    elif k == 'agg':
        for o in rv[2]:
            op(o)
    return out
