"""C05 - TCP sender stays inside window and MSS, never alters data (structural clauses)."""
from ..framework import rule
from ..core import *
from ..lib import *
from .c04 import S, R, const_int

MINS = ('::min',)


def min_chain_args(node):
    """leaves of a chain of min(a, min(b, ...)) calls"""
    n = simplify(node)
    if is_call(n, '::min', nargs=2):
        a, b = call_args(n)
        return min_chain_args(a) + min_chain_args(b)
    return [n]


def has(node, *labels):
    ls = leafs(node)
    return all(l in ls for l in labels)


F_WIN = f"F:{S}.remote_win_len"
F_MSS = f"F:{S}.remote_mss"


def is_eff_mss(n):
    """min(ip_mtu - hdrs, remote_mss).saturating_sub(options)"""
    n = simplify(n)
    ls = leafs(n)
    return any(l.endswith('::ip_mtu') for l in ls if l.startswith('C:')) and F_MSS in ls and \
        any(l.endswith('::min') for l in ls if l.startswith('C:'))


@rule('R05.1', ['C05'], floor=3, clause='every data size taken from the tx buffer is clamped by the peer window, by the effective MSS (local MTU and peer MSS) and, outside probes/fast retransmit, by the congestion window')
def r05_1(ctx):
    """T5: the `size` operand of each tx_buffer.get_allocated in tcp::dispatch is a min-chain; per path:
    normal = {window limit, effective MSS, cwnd_remaining}, zero-window probe = {window limit (forced
    1), effective MSS}, fast retransmit = {effective MSS, tx_buffer.len()} + the peer window."""
    F = ctx.F
    d = ctx.method(S, 'dispatch')
    sites = [x for x in d.calls() if (d.callee_name(x[1]) or '').endswith('::get_allocated')]
    ctx.need(len(sites) >= 2, "get_allocated sites in dispatch")
    for x in sites:
        bi = x[0]
        si = len(d.blocks[bi]['s'])
        off = simplify(F.origin.operand(d, x[2][1], bi, si))
        size = simplify(F.origin.operand(d, x[2][2], bi, si))
        fast = const_int(off) == 0
        for alt in alts(size):
            args = min_chain_args(alt)
            has_mss = any(is_eff_mss(a) for a in args)
            has_win = any(F_WIN in leafs(a) and not is_eff_mss(a) for a in args)
            has_cwnd = any(any(l.endswith('cwnd_remaining') for l in leafs(a) if l.startswith('C:')) for a in args)
            kind = 'fast-retransmit' if fast else ('normal' if has_cwnd else 'probe')
            if not has_mss:
                ctx.bad(f"dispatch|size|{kind}|mss", f"{kind} segment size {show(alt)[:100]} is not clamped by the effective MSS "
                        "(min(local MTU - headers, peer MSS) - options)", body=d, bb=bi)
            else:
                ctx.ok(('size', kind, 'mss'), sample=dict(path=kind, clamp='effective MSS'))
            if not has_win:
                ctx.bad(f"dispatch|size|{kind}|window", f"{kind} segment size {show(alt)[:100]} is not clamped by the peer's receive window",
                        body=d, bb=bi)
            else:
                ctx.ok(('size', kind, 'window'), sample=dict(path=kind, clamp='remote window'))
        if not fast:
            kinds = set()
            for alt in alts(size):
                args = min_chain_args(alt)
                kinds.add(any(any(l.endswith('cwnd_remaining') for l in leafs(a) if l.startswith('C:')) for a in args))
            if True in kinds:
                ctx.ok(('size', 'normal', 'cwnd'), sample=dict(path='normal', clamp='cwnd_remaining'))
            else:
                ctx.bad("dispatch|size|normal|cwnd", "normal-path segment size is not clamped by the congestion window", body=d, bb=bi)


@rule('R05.2', ['C05'], floor=3, clause='remote_mss is only ever stored through the lower clamp max(x, MIN_REMOTE_MSS) or as DEFAULT_MSS')
def r05_2(ctx):
    F = ctx.F
    ws = F.writers_of(S, 'remote_mss', kinds=('store',))
    ctx.need(len(ws) >= 3, "stores to Socket.remote_mss")
    for w in ws:
        b = F.body(w['fn'])
        fnm = w['fn'].rsplit('::', 1)[-1]
        if w['si'] == 'T':
            o = F.origin.call_node(b, b.blocks[w['bb']]['t'], w['bb'], 0, None)
        else:
            o = F.origin.rvalue(b, b.blocks[w['bb']]['s'][w['si']][2], w['bb'], w['si'], 0, None)
        ls = leafs(o)
        n = strip(o)
        if 'N:socket::tcp::DEFAULT_MSS' in ls and n[0] in ('named', 'const'):
            ctx.ok((fnm, 'default', w['bb']))
        elif is_call(simplify(o), '::max', nargs=2) and 'N:socket::tcp::MIN_REMOTE_MSS' in ls:
            ctx.ok((fnm, 'clamped', w['bb']), sample=dict(fn=fnm, remote_mss=show(o)[:80]))
        elif const_int(simplify(o)) is not None and const_int(simplify(o)) >= 48:
            ctx.ok((fnm, 'const', w['bb']))
        else:
            ctx.bad(f"{fnm}|remote_mss|unclamped", f"remote_mss = {show(o)[:80]} in {fnm} without the MIN_REMOTE_MSS lower clamp "
                    "(a tiny or zero peer MSS would stall or divide the stream into absurd segments)", body=b, bb=w['bb'])


@rule('R05.3', ['C05'], floor=2, clause='SYN segments carry an unscaled window, all other segments the scaled window')
def r05_3(ctx):
    F = ctx.F
    d = ctx.method(S, 'dispatch')
    reprs = struct_local(d, 'wire::tcp::Repr')
    ctx.need(reprs, "TcpRepr local in dispatch")
    rl = reprs[0]
    n_syn = n_def = 0
    for bi, bl in enumerate(d.blocks):
        if bl['cl']:
            continue
        for si, s in enumerate(bl['s']):
            if s[0] != 'a' or s[1][0] != rl:
                continue
            if s[2][0] == 'agg' and s[2][1]['k'] == 'adt' and s[2][1]['adt'] == R:
                idx = s[2][1]['fnames'].index('window_len')
                o = simplify(F.origin.operand(d, s[2][2][idx], bi, si))
                n_def += 1
                if is_call(o, 'scaled_window'):
                    ctx.ok(('window', 'default-scaled'), sample=dict(window_len='scaled_window()'))
                else:
                    ctx.bad("dispatch|window|default", f"default window_len = {show(o)[:80]} (expected scaled_window())", body=d, bb=bi)
            else:
                np_ = d.norm(s[1])
                if np_[1] and np_[1][-1][0] == 'f' and np_[1][-1][1] == 'window_len':
                    o = simplify(F.origin.rvalue(d, s[2], bi, si, 0, None))
                    ls = leafs(o)
                    n_syn += 1
                    # must be behind state in {SynSent, SynReceived}
                    scaled = f"F:{S}.remote_win_shift" in ls or any(l.endswith('scaled_window') for l in ls if l.startswith('C:'))
                    if scaled:
                        ctx.bad("dispatch|window|syn-scaled", f"SYN window_len = {show(o)[:80]} is scaled (must be unscaled in SYN segments)", body=d, bb=bi)
                    elif any(l.endswith('::window') for l in ls if l.startswith('C:')):
                        ctx.ok(('window', 'syn-unscaled'), sample=dict(window_len=show(o)[:80]))
                    else:
                        ctx.bad("dispatch|window|syn-origin", f"SYN window_len = {show(o)[:80]} does not come from rx_buffer.window()", body=d, bb=bi)
    ctx.need(n_syn >= 1 and n_def >= 1, "window_len default and SYN override in dispatch")
    # the SYN override must be behind control = Syn arm: same block region stores control = Syn
    # scaled_window(): window >> remote_win_shift
    sw = ctx.method(S, 'scaled_window')
    from ..wirelib import ret_origin
    r = simplify(ret_origin(F, sw))
    if f"F:{S}.remote_win_shift" in leafs(r) and any(l.endswith('::window') for l in leafs(r) if l.startswith('C:')):
        ctx.ok(('scaled_window',))
    else:
        ctx.bad("scaled_window|value", f"scaled_window() = {show(r)[:100]} does not shift rx_buffer.window() by remote_win_shift", body=sw)


@rule('R05.4', ['C05', 'C01'], floor=1, clause='FIN is attached only when the segment ends exactly at the end of the queued data')
def r05_4(ctx):
    F = ctx.F
    d = ctx.method(S, 'dispatch')
    reprs = struct_local(d, 'wire::tcp::Repr')
    rl = reprs[0]
    sites = []
    for bi, bl in enumerate(d.blocks):
        if bl['cl']:
            continue
        for si, s in enumerate(bl['s']):
            if s[0] == 'a' and s[1][0] == rl:
                np_ = d.norm(s[1])
                if np_[1] and np_[1][-1][0] == 'f' and np_[1][-1][1] == 'control':
                    o = strip(F.origin.rvalue(d, s[2], bi, si, 0, None))
                    if o == ('variant', 'wire::tcp::Control::Fin'):
                        sites.append(bi)
    ctx.need(sites, "repr.control = Fin in dispatch")

    def all_sent(f):
        if f[0] != 'rel' or f[1] != 'Eq':
            return False
        a, b = simplify(f[2]), simplify(f[3])
        for x, y in ((a, b), (b, a)):
            lx, ly = leafs(x), leafs(y)
            pay = lambda ls: f"F:{R}.payload" in ls or any(l.endswith('::get_allocated') for l in ls if l.startswith('C:'))
            if pay(lx) and not pay(ly) and is_call(y, '::len', nargs=1) and is_field(call_args(y)[0], S, 'tx_buffer'):
                return True
        return False
    for s in sites:
        bad = unguarded(F, d, [s], all_sent)
        if bad:
            ctx.bad("dispatch|fin|not-all-sent", "FIN can be attached to a segment that does not end at the end of the transmit queue "
                    "(data queued after the FIN's sequence number)", body=d, bb=s, path=bad[0][1])
        else:
            ctx.ok(('fin', 'all-sent'), sample=dict(guard='offset + payload.len() == tx_buffer.len()'))


@rule('R05.5', ['C05', 'C01'], floor=3, clause='segment payload is always a view of the transmit ring (or the keep-alive byte / empty); the transmit ring is only consumed by acknowledged data')
def r05_5(ctx):
    F = ctx.F
    d = ctx.method(S, 'dispatch')
    reprs = struct_local(d, 'wire::tcp::Repr')
    rl = reprs[0]
    n = 0
    for bi, bl in enumerate(d.blocks):
        if bl['cl']:
            continue
        for si, s in enumerate(bl['s']):
            if s[0] != 'a' or s[1][0] != rl:
                continue
            vals = []
            if s[2][0] == 'agg' and s[2][1]['k'] == 'adt' and s[2][1]['adt'] == R:
                vals.append(F.origin.operand(d, s[2][2][s[2][1]['fnames'].index('payload')], bi, si))
            else:
                np_ = d.norm(s[1])
                if np_[1] and np_[1][-1][0] == 'f' and np_[1][-1][1] == 'payload':
                    vals.append(F.origin.rvalue(d, s[2], bi, si, 0, None))
            for v in vals:
                n += 1
                vs = simplify(v)
                ls = leafs(v)
                if is_call(vs, '::get_allocated') and f"F:{S}.tx_buffer" in ls:
                    ctx.ok(('payload', 'tx-ring', bi), sample=dict(payload='tx_buffer.get_allocated(..)'))
                elif not [l for l in ls if l.startswith('F:') or l.startswith('A:')]:
                    ctx.ok(('payload', 'const', bi))
                else:
                    ctx.bad("dispatch|payload-source", f"repr.payload = {show(v)[:80]} is not a view of tx_buffer", body=d, bb=bi)
    ctx.need(n >= 3, "payload stores in dispatch")
    # tx ring consumers
    RBm = 'storage::ring_buffer::RingBuffer'
    consumers = {F.method(RBm, m).key for m in ('dequeue_allocated', 'dequeue_many', 'dequeue_many_with', 'dequeue_one', 'dequeue_one_with',
                                                 'dequeue_slice', 'clear') if F.method(RBm, m)}
    for k, b in F.bodies.items():
        if b.meta.get('impl_self') != S and not (b.meta.get('root') or '').startswith('socket::tcp::Socket'):
            continue
        for bi, c, args, dest, tgt, ln in b.calls():
            if b.callee_name(c) in consumers and args and is_place_op(args[0]):
                o = F.origin.operand(b, args[0], bi, len(b.blocks[bi]['s']))
                if f"F:{S}.tx_buffer" in leafs(o):
                    fnm = (b.meta.get('root') or k).rsplit('::', 1)[-1]
                    if fnm in ('process', 'reset'):
                        ctx.ok(('tx-consume', fnm), sample=dict(fn=fnm, call=b.callee_name(c).rsplit('::', 1)[-1]))
                    else:
                        ctx.bad(f"{fnm}|tx-consume", f"{fnm} removes data from the transmit ring ({b.callee_name(c).rsplit('::',1)[-1]})", body=b, bb=bi)
