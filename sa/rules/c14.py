"""C14 / C15 - ring buffer, packet buffer and assembler structural clauses."""
from ..framework import rule
from ..core import *
from ..lib import *
from ..wirelib import ret_origin, range_bounds
from .c04 import const_int

RB = 'storage::ring_buffer::RingBuffer'
PB = 'storage::packet_buffer::PacketBuffer'
AS = 'storage::assembler::Assembler'


def store_origin(F, b, w):
    if w['si'] == 'T':
        return F.origin.call_node(b, b.blocks[w['bb']]['t'], w['bb'], 0, None)
    return F.origin.rvalue(b, b.blocks[w['bb']]['s'][w['si']][2], w['bb'], w['si'], 0, None)


def untuple(n):
    n0 = strip(n)
    if n0[0] == 'proj' and strip(n0[1])[0] == 'agg' and strip(n0[1])[1] == 'tuple':
        return strip(strip(n0[1])[2][0])
    return n0


LEN_TABLE = {
    # function -> (direction, what the amount must be compared with, description)
    'clear': ('zero', None),
    'enqueue_one_with': ('inc', 'is_full'),
    'enqueue_many_with': ('inc', 'contiguous_window'),
    'enqueue_unallocated': ('inc', 'window'),
    'dequeue_one_with': ('dec', 'is_empty'),
    'dequeue_many_with': ('dec', 'len'),
    'dequeue_allocated': ('dec', 'len'),
}


@rule('R14.1', ['C14', 'C01', 'C09'], floor=7, clause='RingBuffer.length only grows behind a free-space guard and only shrinks behind a fill-level guard')
def r14_1(ctx):
    """T1+T3: every store to RingBuffer.length is in the reviewed writer table; an increase by X is
    dominated by a guard relating X (or fullness) to window()/contiguous_window(), a decrease by X by a
    guard relating X to len()/is_empty() (`assert!`s count: their failure is a panic, not an overrun)."""
    F = ctx.F
    ws = F.writers_of(RB, 'length', kinds=('store',))
    ctx.need(len(ws) >= 7, "stores to RingBuffer.length")
    for w in ws:
        b = F.body(w['fn'])
        fnm = w['fn'].rsplit('::', 1)[-1]
        if fnm == 'new':
            continue
        row = LEN_TABLE.get(fnm)
        if row is None:
            ctx.bad(f"{fnm}|length|writer", f"RingBuffer.length written in {fnm} (not a reviewed mutator)", body=b, bb=w['bb'])
            continue
        o = untuple(simplify(store_origin(F, b, w)))
        kind, guard = row
        if kind == 'zero':
            if const_int(o) == 0:
                ctx.ok((fnm, 'length=0'))
            else:
                ctx.bad(f"{fnm}|length|value", f"{fnm} stores length = {show(o)[:60]}", body=b, bb=w['bb'])
            continue
        want_op = 'Add' if kind == 'inc' else 'Sub'
        if not (o[0] == 'bin' and o[1] == want_op and is_field(o[2], RB, 'length')):
            ctx.bad(f"{fnm}|length|shape", f"{fnm} stores length = {show(o)[:80]} (expected length {'+' if kind=='inc' else '-'} n)", body=b, bb=w['bb'])
            continue
        amount = simplify(o[3])
        gm = F.method(RB, guard)
        if guard in ('is_full', 'is_empty'):
            pred = p_call(lambda n, k=gm.key: n == k, False)
        else:
            # assert!(amount <= guard())  /  max_size = min(len(), ..) ; assert!(size <= max_size)
            def pred(f, amount=amount, gk=gm.key, guard=guard):
                if f[0] != 'rel' or f[1] not in ('Le', 'Lt', 'Eq'):
                    return False
                if simplify(f[2]) != amount:
                    return False
                if f"C:{gk}" in leafs(f[3]):
                    return True
                # contiguous_window() written out: min(window(), ..) is still at most the free space
                r = strip(simplify(f[3]))
                wk = F.method(RB, 'window').key
                return guard == 'contiguous_window' and is_call(r, '::min', nargs=2) and \
                    any(strip(x)[0] == 'call' and strip(x)[1] == wk for x in call_args(r))
        if fnm in ('enqueue_one_with', 'dequeue_one_with'):
            isok0 = p_call(lambda n: n.endswith('::is_ok'), True)
            # `res.is_ok()` or its pattern form `if let Ok(_) = res`
            cbres = lambda n: any(l.startswith('C:') and l.endswith('::call_once') for l in leafs(n))
            isok = lambda f, isok0=isok0: isok0(f) or (f[0] == 'is' and f[2] == 'Ok' and f[3] == 'std::result::Result' and cbres(f[1])) or \
                (f[0] == 'isnot' and f[3] == 'std::result::Result' and 'Err' in f[2] and cbres(f[1]))
            if unguarded(F, b, [w['bb']], isok):
                ctx.bad(f"{fnm}|length|declined", f"{fnm} changes length although the callback declined (returned Err): the element was not "
                        f"{'written' if kind=='inc' else 'consumed'}", body=b, bb=w['bb'])
            else:
                ctx.ok((fnm, 'length', 'only-if-ok'), sample=dict(fn=fnm, guard='res.is_ok()'))
        bad = unguarded(F, b, [w['bb']], pred)
        if bad:
            ctx.bad(f"{fnm}|length|unguarded", f"{fnm} changes length by {show(amount)[:40]} without a dominating `{guard}` guard "
                    f"({'capacity overrun' if kind=='inc' else 'underflow'} possible)", body=b, bb=w['bb'], path=bad[0][1])
        else:
            ctx.ok((fnm, 'length', kind), sample=dict(fn=fnm, length=('+= ' if kind == 'inc' else '-= ') + show(amount)[:30], guard=guard))


READ_AT_TABLE = {
    'clear': 'zero',
    'enqueue_many_with': 'zero-when-empty',     # rebase; harmless only while nothing is parked beyond the data
    'dequeue_one_with': 'advance',
    'dequeue_many_with': 'advance',
    'dequeue_allocated': 'advance',
}


@rule('R14.1b', ['C14', 'C01', 'C04'], floor=5, clause='the read position only moves forward modulo capacity when data is consumed; it is rewound to 0 only by clear() and by enqueue_many_with on an empty ring')
def r14_1b(ctx):
    """T3+T5: writer table and value shape of every store to RingBuffer.read_at.  A consumer that rewinds
    read_at invalidates the offsets of out-of-order data parked in the unallocated part (TCP reassembly)."""
    F = ctx.F
    ws = F.writers_of(RB, 'read_at', kinds=('store',))
    ctx.need(len(ws) >= 5, "stores to RingBuffer.read_at")
    gi = {F.method(RB, 'get_idx').key, F.method(RB, 'get_idx_unchecked').key}
    for w in ws:
        b = F.body(w['fn'])
        fnm = w['fn'].rsplit('::', 1)[-1]
        if fnm == 'new':
            continue
        kind = READ_AT_TABLE.get(fnm)
        if kind is None:
            ctx.bad(f"{fnm}|read_at|writer", f"RingBuffer.read_at written in {fnm}", body=b, bb=w['bb'])
            continue
        o = simplify(store_origin(F, b, w))
        for a in alts(o):
            a = untuple(a)
            if kind == 'zero':
                okv = const_int(a) == 0
            elif kind == 'zero-when-empty':
                okv = const_int(a) == 0 and not unguarded(F, b, [w['bb']], p_rel('eq', [f"F:{RB}.length"], ['K:0']))
            else:
                # (read_at + n) % capacity, or get_idx*(n)
                okv = (a[0] == 'call' and a[1] in gi) or \
                      (a[0] == 'bin' and a[1] == 'Rem' and f"F:{RB}.read_at" in leafs(a[2]) and any(l.endswith('::capacity') for l in leafs(a[3]) if l.startswith('C:')))
                if not okv and const_int(a) == 0:
                    # `else 0` for a zero-capacity ring
                    capz = lambda f: f[0] == 'rel' and is_call(simplify(f[2]), '::capacity', nargs=1) \
                        and const_int(simplify(f[3])) == 0 and f[1] in ('Le', 'Eq')
                    okv = _const_store_behind(F, b, w, capz)
            if okv:
                ctx.ok((fnm, 'read_at', kind, show(a)[:30]), sample=dict(fn=fnm, read_at=show(a)[:60]))
            else:
                ctx.bad(f"{fnm}|read_at|value", f"{fnm} stores read_at = {show(a)[:70]} (allowed here: {kind}); rewinding the read position "
                        "while data is parked beyond the allocated region corrupts reassembled streams", body=b, bb=w['bb'])


def _const_store_behind(F, b, w, pred):
    """the constant alternative of a phi store is assigned on a block that is itself behind pred"""
    bi = w['bb']
    s = b.blocks[bi]['s'][w['si']] if w['si'] != 'T' else None
    if s is None:
        return True
    if s[2][0] == 'use' and s[2][1][0] == 'k':
        # the constant is stored directly: the store itself must sit behind the guard
        return not unguarded(F, b, [bi], pred)
    if s[2][0] != 'use' or not is_place_op(s[2][1]):
        return True
    l = s[2][1][1][0]
    oks = True
    for (dbi, dsi, kind, pr, rv) in b._all_defs().get(l, []):
        if kind == 'a' and rv[0] == 'use' and rv[1][0] == 'k' and rv[1][2] == 0:
            if unguarded(F, b, [dbi], pred):
                oks = False
    return oks


@rule('R14.2', ['C14', 'C01', 'C05'], floor=2, clause='get_allocated / get_unallocated clamp the returned slice by the request, by what is left after the offset, and by the distance to the end of the storage')
def r14_2(ctx):
    F = ctx.F
    for fn, left_leaf in (('get_unallocated', 'window'), ('get_allocated', 'length')):
        b = ctx.method(RB, fn)
        idx = [x for x in b.calls() if isinstance(x[1], dict) and (x[1].get('fn') or '').endswith(('Index::index', 'IndexMut::index_mut'))]
        ctx.need(idx, f"storage slice in {fn}")
        x = idx[-1]
        rb = range_bounds(F, F.origin.operand(b, x[2][1], x[0], len(b.blocks[x[0]]['s'])))
        ctx.need(rb is not None and rb[0] == 'Range', f"range slice in {fn}")
        end = untuple(simplify(rb[2]))
        size = None
        if end[0] == 'bin' and end[1] == 'Add':
            size = simplify(end[3])
        ctx.need(size is not None, f"slice end = start + size in {fn}")
        def min_terms(n):
            n = untuple(strip(n))
            if n[0] == 'call' and len(n[2]) == 2 and n[1].rsplit('::', 1)[-1] == 'min' and ('cmp' in n[1] or 'Ord' in n[1] or 'impl usize' in n[1]):
                return min_terms(n[2][0]) + min_terms(n[2][1])
            return [n]
        by_min = min_terms(size) if len(min_terms(size)) > 1 else []
        al = [untuple(a) for a in alts(size)] + by_min
        has_req = any(a == ('arg', 3) for a in al)
        has_left = any(a[0] == 'bin' and a[1] == 'Sub' and ('A:2' in leafs(a)) and
                       (any(l.endswith('::window') for l in leafs(a) if l.startswith('C:')) or f"F:{RB}.length" in leafs(a)) for a in al)
        has_end = any(a[0] == 'bin' and a[1] == 'Sub' and any(l.endswith('::capacity') for l in leafs(a) if l.startswith('C:')) for a in al)
        for okv, what in ((has_req, 'requested size'), (has_left, 'remaining after offset'), (has_end, 'distance to end of storage')):
            if okv:
                ctx.ok((fn, what), sample=dict(fn=fn, clamp=what))
            else:
                ctx.bad(f"{fn}|clamp|{what}", f"RingBuffer::{fn}: returned slice length {show(size)[:90]} is not clamped by the {what}", body=b, bb=x[0])
        # each clamp is applied on every path to the slice (a clamp placed in the else-branch of the other is skipped
        # exactly when the other one fired)
        def is_end(a):
            return any(l.endswith('::capacity') for l in leafs(a) if l.startswith('C:'))

        def is_left(a):
            return not is_end(a) and ('A:2' in leafs(a)) and (any(l.endswith('::window') for l in leafs(a) if l.startswith('C:')) or f"F:{RB}.length" in leafs(a))
        for sel, what in ((is_left, 'remaining after offset'), (is_end, 'distance to end of storage')):
            cmp_ = lambda f, sel=sel: f[0] == 'rel' and f[1] in ('Gt', 'Le', 'Lt', 'Ge') and \
                ((sel(f[3]) and 'A:3' in leafs(f[2])) or (sel(f[2]) and 'A:3' in leafs(f[3])))
            if any(sel(t_) for t_ in by_min):
                ctx.ok((fn, what, 'on-every-path'), sample=dict(fn=fn, clamp=what, applied='the size is min(.., ' + what + ')'))
            elif unguarded(F, b, [x[0]], cmp_):
                ctx.bad(f"{fn}|clamp-skipped|{what}", f"RingBuffer::{fn}: a path reaches the returned slice without the size having been compared with the {what} "
                        "(the two clamps are not applied one after the other): the slice can overlap the other region of the ring", body=b, bb=x[0])
            else:
                ctx.ok((fn, what, 'on-every-path'), sample=dict(fn=fn, clamp=what, applied='on every path'))
        # offset beyond the region -> empty slice
        g = guard_edges(F, b, lambda f: f[0] == 'rel' and f[1] in ('Gt',) and simplify(f[2]) == ('arg', 2))
        if g:
            ctx.ok((fn, 'offset-guard'))
        else:
            ctx.bad(f"{fn}|offset-guard", f"RingBuffer::{fn} does not reject an offset beyond the region", body=b)


@rule('R14.4', ['C14', 'C09'], floor=6, clause='both PacketBuffer enqueue entry points take the same admission decisions (capacity, metadata slot, empty-ring rewind, window, padding); every dequeue/peek first drops padding; dequeue_with consumes nothing when the callback declines')
def r14_4(ctx):
    """T6 sibling agreement enqueue <-> enqueue_with_infallible, T2 ordering for dequeue paths."""
    F = ctx.F
    e1, e2 = ctx.method(PB, 'enqueue'), ctx.method(PB, 'enqueue_with_infallible')

    def profile(b, depth=0):
        calls = []
        for bi, c, args, dest, tgt, ln in b.calls():
            n = b.callee_name(c) or ''
            if n.startswith(RB + '::') or '::RingBuffer' in n:
                recv = F.origin.operand(b, args[0], bi, len(b.blocks[bi]['s'])) if args else None
                which = 'payload' if recv is not None and f"F:{PB}.payload_ring" in leafs(recv) else 'metadata'
                calls.append((which, n.rsplit('::', 1)[-1]))
            elif depth < 2 and n in F.bodies and F.bodies[n].meta.get('impl_self') == PB and n.rsplit('::', 1)[-1] not in ('enqueue', 'enqueue_with_infallible'):
                # a private helper of the packet buffer (an admission test extracted into its own function)
                hb = F.bodies[n]
                if hb.nargs >= 1 and hb.locals[1]['ty'].startswith('&') and not hb.locals[1]['ty'].startswith('&mut'):
                    calls += profile(hb, depth + 1)
        return calls
    p1, p2 = profile(e1), profile(e2)
    must = [('payload', 'capacity'), ('metadata', 'is_full'), ('payload', 'is_empty'), ('payload', 'clear'), ('payload', 'window'),
            ('payload', 'contiguous_window'), ('metadata', 'enqueue_one'), ('payload', 'enqueue_many')]
    for m in must:
        for nm, p in (('enqueue', p1), ('enqueue_with_infallible', p2)):
            if m in p:
                ctx.ok((nm, m))
            else:
                ctx.bad(f"{nm}|missing|{m[0]}.{m[1]}", f"PacketBuffer::{nm} does not perform `{m[0]}_ring.{m[1]}()` that its sibling entry point performs "
                        "(the two enqueue interfaces would admit different packets)", body=e1 if nm == 'enqueue' else e2)
    # the rewind must be behind is_empty()
    for nm, b in (('enqueue', e1), ('enqueue_with_infallible', e2)):
        cl = [x[0] for x in b.calls() if (b.callee_name(x[1]) or '') == F.method(RB, 'clear').key]
        ie = F.method(RB, 'is_empty')
        if cl and not unguarded(F, b, cl, p_call(lambda n: n == ie.key, True)):
            ctx.ok((nm, 'clear-behind-is_empty'))
        elif cl:
            ctx.bad(f"{nm}|clear-unguarded", f"PacketBuffer::{nm} clears the payload ring without checking that it is empty", body=b, bb=cl[0])
    dp = ctx.method(PB, 'dequeue_padding')
    for nm in ('dequeue_with', 'dequeue', 'peek'):
        b = ctx.method(PB, nm)
        first = [x for x in b.calls()]
        ring_calls = [x[0] for x in b.calls() if (b.callee_name(x[1]) or '').startswith(RB + '::')]
        dps = {x[0] for x in b.calls() if b.callee_name(x[1]) == dp.key}
        seen = b.reachable(cut_blocks=dps) if 0 not in dps else {}
        late = [r for r in ring_calls if r in seen and r not in dps]
        if dps and not late:
            ctx.ok((nm, 'padding-first'), sample=dict(fn=nm, first='dequeue_padding'))
        else:
            ctx.bad(f"{nm}|padding-first", f"PacketBuffer::{nm} touches the rings before dropping padding", body=b)
    # dequeue_with: on the callback's Err the payload ring is told to consume 0
    cls = F.closures_of(ctx.method(PB, 'dequeue_with').key)
    found = False
    for cb in cls:
        for bi, bl in enumerate(cb.blocks):
            if bl['cl']:
                continue
            for si, s in enumerate(bl['s']):
                if s[0] == 'a' and s[2][0] == 'agg' and s[2][1]['k'] == 'tuple' and len(s[2][2]) == 2:
                    o0 = simplify(F.origin.operand(cb, s[2][2][0], bi, si))
                    o1 = simplify(F.origin.operand(cb, s[2][2][1], bi, si))
                    if o1[0] == 'agg' and o1[1].endswith('Result::Err'):
                        found = True
                        if const_int(o0) == 0:
                            ctx.ok(('dequeue_with', 'err-consumes-0'), sample=dict(fn='dequeue_with', on_callback_err='(0, Err)'))
                        else:
                            ctx.bad("dequeue_with|err-consumes", f"PacketBuffer::dequeue_with consumes {show(o0)[:40]} payload bytes although the callback declined", body=cb, bb=bi)
    if not found:
        ctx.bad("dequeue_with|err-arm", "PacketBuffer::dequeue_with: no (0, Err(..)) arm found for a declining callback", body=ctx.method(PB, 'dequeue_with'))


def err_sites(b):
    """blocks that produce an Err return value (direct Err(..) or `?` residual conversion)"""
    out = []
    for bi, bl in enumerate(b.blocks):
        if bl['cl']:
            continue
        for s in bl['s']:
            if s[0] == 'a' and s[1] == [0, []] and s[2][0] == 'agg' and s[2][1]['k'] == 'adt' \
                    and s[2][1]['adt'] == 'std::result::Result' and s[2][1]['variant'] == 'Err':
                out.append(bi)
        t = bl['t']
        if t[0] == 'call' and t[3] == [0, []] and (b.callee_name(t[1]) or '').endswith('from_residual'):
            out.append(bi)
    return out


def self_writes(F, b, err_free_callees=()):
    """(block, description, cut_edges) for every direct store through &mut self and every call handed a
    &mut derived from self.  For callees proven to write nothing on their own Err path the Err/Break edge of
    the `?` on their result is returned as cut edge (no write happened if that edge is taken)."""
    out = []
    for bi, bl in enumerate(b.blocks):
        if bl['cl']:
            continue
        for si, s in enumerate(bl['s']):
            if s[0] in ('a', 'sd'):
                np_ = b.norm(s[1])
                if np_[0] == ('d', 1):
                    out.append((bi, f"store at line {s[3]}", set()))
        t = bl['t']
        if t[0] == 'call':
            n = b.callee_name(t[1]) or ''
            np_ = b.norm(t[3])
            if np_[0] == ('d', 1):
                out.append((bi, f"store of call result at line {t[5]}", set()))
            mut = False
            for a in t[2]:
                if is_place_op(a) and a[1][1] == [] and b.locals[a[1][0]]['ty'].startswith('&mut'):
                    tg = b.ref_target(a[1][0])
                    if (tg is not None and tg[0] == ('d', 1)) or a[1][0] == 1:
                        mut = True
            if mut:
                cut = set()
                if n in err_free_callees:
                    for bj, bl2 in enumerate(b.blocks):
                        if bl2['cl'] or bl2['t'][0] != 'switch':
                            continue
                        for tb, lab, f in cond_facts(F, b, bj):
                            if f[0] == 'is' and f[2] in ('Break', 'Err') and f"C:{n}" in leafs(f[1]):
                                cut.add((bj, tb, lab))
                out.append((bi, f"call {n.rsplit('::', 1)[-1]}(&mut self..) at line {t[5]}", cut))
    return out


def err_write_free(F, b, err_free_callees=()):
    """list of (write block, description, path) such that an Err return is reachable after the write"""
    es = err_sites(b)
    bad = []
    for (bi, what, cut) in self_writes(F, b, err_free_callees):
        tgt = [tb for tb, _ in b.succ_edges(bi)]
        for st in tgt:
            seen = b.reachable(cut_edges=cut, start=st)
            hit = [e for e in es if e in seen]
            if hit:
                bad.append((bi, what, [bi] + b.path_to(seen, hit[0])))
                break
    return bad


@rule('R15.1', ['C15', 'C01', 'C04'], floor=3, clause='a refused insertion leaves the tracker untouched: no write through self can precede an Err return of Assembler::add / add_contig_at / add_then_remove_front')
def r15_1(ctx):
    """T10 effect-freedom on error paths, interprocedural through callee summaries."""
    F = ctx.F
    ac = ctx.method(AS, 'add_contig_at')
    b0 = err_write_free(F, ac)
    if b0:
        ctx.bad("add_contig_at|write-before-err", f"Assembler::add_contig_at: {b0[0][1]} can be followed by an Err return", body=ac, bb=b0[0][0], path=b0[0][2])
        free = ()
    else:
        ctx.ok(('add_contig_at', 'err-write-free'), sample=dict(fn='add_contig_at', err_paths='no store through self before Err'))
        free = (ac.key,)
    ad = ctx.method(AS, 'add')
    ctx.need(err_sites(ad), "Err return in Assembler::add")
    b1 = err_write_free(F, ad, free)
    if b1:
        ctx.bad("add|write-before-err", f"Assembler::add: {b1[0][1]} can be followed by an Err return (a refused insertion would leave the tracker modified)",
                body=ad, bb=b1[0][0], path=b1[0][2])
        free2 = free
    else:
        ctx.ok(('add', 'err-write-free'), sample=dict(fn='add', writes=len(self_writes(F, ad, free)), err_sites=len(err_sites(ad))))
        free2 = free + (ad.key,)
    at = ctx.method(AS, 'add_then_remove_front')
    b2 = err_write_free(F, at, free2)
    if b2:
        ctx.bad("add_then_remove_front|write-before-err", f"Assembler::add_then_remove_front: {b2[0][1]} can be followed by an Err return", body=at, bb=b2[0][0], path=b2[0][2])
    else:
        ctx.ok(('add_then_remove_front', 'err-write-free'))
    # tcp uses the entry point that cannot refuse the next expected segment
    p = ctx.method('socket::tcp::Socket', 'process')
    calls = {p.callee_name(c) for _, c, *_ in p.calls()}
    if at.key in calls and ad.key not in calls:
        ctx.ok(('tcp', 'uses-add_then_remove_front'))
    else:
        ctx.bad("tcp::process|assembler-entry", "tcp::Socket::process calls Assembler::add directly (offset 0 may then be refused)", body=p)


@rule('R14.5', ['C14', 'C09'], floor=2, clause='PacketBuffer::reset empties both rings (metadata and payload stay in step)')
def r14_5(ctx):
    F = ctx.F
    b = ctx.method(PB, 'reset')
    clr = F.method(RB, 'clear')
    got = set()
    for bi, c, args, dest, tgt, ln in b.calls():
        if b.callee_name(c) == clr.key and args:
            o = F.origin.operand(b, args[0], bi, len(b.blocks[bi]['s']))
            for nm in ('payload_ring', 'metadata_ring'):
                if f"F:{PB}.{nm}" in leafs(o):
                    got.add(nm)
    for nm in ('payload_ring', 'metadata_ring'):
        if nm in got:
            ctx.ok(('reset', nm))
        else:
            ctx.bad(f"reset|{nm}", f"PacketBuffer::reset does not clear {nm}: stale bytes/headers pair up with later packets", body=b)


@rule('R15.2', ['C15', 'C12', 'C04'], floor=2, clause='clear() empties every slot of the tracker; an empty insertion touches nothing')
def r15_2(ctx):
    """T3/T1: Assembler::clear overwrites the whole `contigs` array (slice fill / whole-field store), not
    individual slots; in Assembler::add no write through self is reachable on the size == 0 path."""
    F = ctx.F
    c = ctx.method(AS, 'clear')
    whole = False
    for x in c.calls():
        nm = c.callee_name(x[1]) or ''
        if nm.endswith('::fill') and x[2]:
            o = F.origin.operand(c, x[2][0], x[0], len(c.blocks[x[0]]['s']))
            so = simplify(o)
            if so[0] == 'field' and [e for e in so[2] if e[0] == 'f'] and so[2][-1][0] == 'f' and so[2][-1][1] == 'contigs':
                whole = True
    for bi, bl in enumerate(c.blocks):
        for s in bl['s']:
            if s[0] == 'a':
                np_ = c.norm(s[1])
                if np_[0] == ('d', 1) and len(np_[1]) == 1 and np_[1][0][1] == 'contigs':
                    whole = True
    if whole:
        ctx.ok(('clear', 'whole-array'), sample=dict(fn='Assembler::clear', writes='contigs[..] (all slots)'))
    else:
        ctx.bad("Assembler::clear|partial", "Assembler::clear does not reset every slot (stale ranges behind slot 0 reappear after the next insertion)", body=c)
    a = ctx.method(AS, 'add')
    ws = [w for (w, what, cut) in self_writes(F, a)]
    nz = lambda f: f[0] == 'rel' and f[1] == 'Ne' and simplify(f[2]) == ('arg', 3) and const_int(simplify(f[3])) == 0
    bad = unguarded(F, a, ws, nz)
    if bad:
        ctx.bad("Assembler::add|empty-insert-writes", "Assembler::add can modify the tracker for an empty range (size == 0): a data-less slot "
                "in front of live ones breaks the used/unused invariant", body=a, bb=bad[0][0], path=bad[0][1])
    else:
        ctx.ok(('add', 'empty-noop'), sample=dict(fn='Assembler::add', writes_only_behind='size != 0'))


def _lin_sig(F, n):
    """(const, {arg/atom label: coef}) of a linear form; loop-carried phis are labelled by the argument they start from"""
    l, c = lin(simplify(n))
    out = {}
    for a, v in l.items():
        a0 = strip(a)
        if a0[0] == 'arg':
            k = f"arg{a0[1]}"
        else:
            args = sorted(x for x in leafs(a0) if x.startswith('A:'))
            k = 'phi(' + ','.join(args) + ')' if a0[0] == 'phi' and args else show(a0)[:30]
        out[k] = out.get(k, 0) + v
    return c, out


@rule('R15.3', ['C15', 'C01'], floor=2, clause='the guaranteed-success path of add_then_remove_front is taken for exactly the offset-0 inputs that would make add() allocate a new range (same comparison, same operands)')
def r15_3(ctx):
    """Sibling cross-check: add() calls add_contig_at (the only fallible step for offset 0) behind
    `offset + size < contigs[i].hole_size`; the fast path must be guarded by the instance of that test for
    offset = 0, i = 0: `size < contigs[0].hole_size`.  Narrower => an offset-0 insertion can fail when the
    tracker is full; wider => the front is not merged/removed."""
    F = ctx.F
    add = ctx.method(AS, 'add')
    atr = ctx.method(AS, 'add_then_remove_front')
    aca = ctx.method(AS, 'add_contig_at')
    sites = [x[0] for x in add.calls() if add.callee_name(x[1]) == aca.key]
    ctx.need(len(sites) == 1, "the single add_contig_at call in Assembler::add")
    CT = 'storage::assembler::Contig'

    def hole_rhs(f):
        return f[0] == 'rel' and f[1] == 'Lt' and any(l == f"F:{CT}.hole_size" for l in leafs(f[3])) and 'A:3' in leafs(f[2])
    slow = None
    for bi, bl in enumerate(add.blocks):
        if bl['cl'] or bl['t'][0] != 'switch':
            continue
        for tb, lab, f in cond_facts(F, add, bi):
            if hole_rhs(f) and not unguarded(F, add, sites, lambda g, f=f: g == f):
                slow = f
    ctx.need(slow is not None, "`offset + size < hole_size` guard dominating add_contig_at in Assembler::add")
    c_s, l_s = _lin_sig(F, slow[2])
    # the fast path: the hole_size store in add_then_remove_front
    ws = [w for w in F.writers_of(CT, 'hole_size', kinds=('store',)) if w['fn'] == atr.key]
    ctx.need(ws, "hole_size update in the fast path of add_then_remove_front")
    fast = None
    for bi, bl in enumerate(atr.blocks):
        if bl['cl'] or bl['t'][0] != 'switch':
            continue
        for tb, lab, f in cond_facts(F, atr, bi):
            if f[0] == 'rel' and f[1] in ('Lt', 'Le') and any(l == f"F:{CT}.hole_size" for l in leafs(f[3])) \
                    and not unguarded(F, atr, [ws[0]['bb']], lambda g, f=f: g == f):
                fast = f
    ctx.need(fast is not None, "`size < hole_size` guard dominating the fast path")
    c_f, l_f = _lin_sig(F, fast[2])
    # offset := 0 in the slow guard
    l_s0 = {k: v for k, v in l_s.items() if 'A:2' not in k and k != 'arg2'}
    zero = lambda f: f[0] == 'rel' and f[1] == 'Eq' and simplify(f[2]) == ('arg', 2) and const_int(simplify(f[3])) == 0
    if unguarded(F, atr, [ws[0]['bb']], zero):
        ctx.bad("add_then_remove_front|fast-path|offset", "the fast path is reachable for offset != 0", body=atr, bb=ws[0]['bb'])
    else:
        ctx.ok(('fast-path', 'offset==0'))
    if fast[1] == slow[1] and c_f == c_s and l_f == l_s0:
        ctx.ok(('fast-path', 'same-test'), sample=dict(fast='size < contigs[0].hole_size', slow='offset + size < contigs[i].hole_size'))
    else:
        ctx.bad("add_then_remove_front|fast-path|guard", f"fast path guard `{l_f}+{c_f} {fast[1]} hole_size` is not the offset-0 instance of add()'s "
                f"new-range test `{l_s}+{c_s} {slow[1]} hole_size`: an offset-0 insertion can fail on a full tracker, or the front is not merged",
                body=atr, bb=ws[0]['bb'])


def _idx_origin(F, b, place, bi, si):
    for p in place[1]:
        if isinstance(p, list) and p[0] == 'i':
            return simplify(F.origin.operand(b, ['c', [p[1], []]], bi, si))
    return None


def _shift_facts(F, b):
    """(range start, range end, [(dst index, src index)] of element copies, [(index)] of Contig::empty() stores)"""
    rng = None
    copies, clears = [], []
    for bi, bl in enumerate(b.blocks):
        if bl['cl']:
            continue
        for si, s in enumerate(bl['s']):
            if s[0] != 'a':
                continue
            if s[2][0] == 'agg' and 'Range' in str(s[2][1].get('adt')) and len(s[2][2]) == 2:
                rng = tuple(untuple(simplify(F.origin.operand(b, o, bi, si))) for o in s[2][2])
            if s[1][1] and any(isinstance(p, list) and p[0] == 'f' and p[2] == 'contigs' for p in s[1][1]) and \
                    any(isinstance(p, list) and p[0] == 'i' for p in s[1][1]):
                dst = _idx_origin(F, b, s[1], bi, si)
                rv = s[2]
                src_place, sbi, ssi = None, bi, si
                if rv[0] == 'use' and rv[1][0] in ('c', 'm'):
                    if any(isinstance(p, list) and p[0] == 'i' for p in rv[1][1][1]):
                        src_place = rv[1][1]
                    elif rv[1][1][1] == []:
                        # through a temporary: `_t = copy contigs[j]; contigs[i] = move _t`
                        ds = [d for d in b._all_defs().get(rv[1][1][0], []) if d[3] == []]
                        if len(ds) == 1 and ds[0][2] == 'a' and ds[0][4][0] == 'use' and ds[0][4][1][0] in ('c', 'm') and \
                                any(isinstance(p, list) and p[0] == 'i' for p in ds[0][4][1][1][1]) and \
                                any(isinstance(p, list) and p[0] == 'f' and p[2] == 'contigs' for p in ds[0][4][1][1][1]):
                            src_place, sbi, ssi = ds[0][4][1][1], ds[0][0], ds[0][1]
                if src_place is not None:
                    copies.append((dst, _idx_origin(F, b, src_place, sbi, ssi), bi))
                else:
                    o = simplify(F.origin.rvalue(b, rv, bi, si, 0, None))
                    if is_call(o, 'Contig::empty'):
                        clears.append((dst, bi))
    return rng, copies, clears


def _is_len(k):
    k = strip(k)
    return k[0] == 'len' or (k[0] == 'call' and k[1].endswith('::len'))


def _no_partial(n):
    if not isinstance(n, tuple) or not n:
        return n
    if n[0] == 'phi':
        al = tuple(_no_partial(a) for a in n[1] if a != ('opaque', 'partial-def'))
        return al[0] if len(al) == 1 else ('phi', al)
    return tuple(_no_partial(x) if isinstance(x, tuple) else x for x in n)


def _lin_diff(a, b):
    la, ca = lin(simplify(_no_partial(a)))
    lb, cb = lin(simplify(_no_partial(b)))
    d = dict(la)
    for k, v in lb.items():
        d[k] = d.get(k, 0) - v
    d = {k: v for k, v in d.items() if v}
    return (ca - cb) if not d else None


@rule('R15.4', ['C15'], floor=6, clause='the range-array shifts are complete: removal copies slot i+1 into i for every i from the removed slot up to the last, then clears the last slot; insertion copies i-1 into i down to the slot after the insertion point, then clears the insertion point')
def r15_4(ctx):
    F = ctx.F
    for nm, step, what in (('remove_contig_at', +1, 'left'), ('add_contig_at', -1, 'right')):
        b = ctx.method(AS, nm)
        rng, copies, clears = _shift_facts(F, b)
        ctx.need(rng is not None and copies and clears, f"shift loop, element copy and clearing store in {nm}")
        for dst, src, bi in copies:
            d = _lin_diff(src, dst) if src is not None and dst is not None else None
            if d == step:
                ctx.ok((nm, 'copy-step'), sample=dict(fn=nm, copy=f"contigs[i] = contigs[i{step:+d}]"))
            else:
                ctx.bad(f"{nm}|copy-step", f"{nm} copies slot i{'' if d is None else f'{d:+d}'} into slot i (expected i{step:+d})", body=b, bb=bi)
        cdst = clears[-1][0]
        if what == 'left':
            # [at, E) then clear E ; E = len - 1
            d = _lin_diff(rng[1], cdst)
            l_e, c_e = lin(rng[1])
            last = len(l_e) == 1 and c_e == -1 and all(_is_len(k) for k in l_e)
            if d == 0 and last and simplify(rng[0]) == ('arg', 2):
                ctx.ok((nm, 'range'), sample=dict(fn=nm, loop='at..len-1', then='contigs[len-1] = empty'))
            else:
                ctx.bad(f"{nm}|range", f"{nm} shifts slots {show(rng[0])[:20]}..{show(rng[1])[:30]} and then clears slot {show(cdst)[:30]}: "
                        "a live range is duplicated or lost when the tracker is (nearly) full", body=b, bb=clears[-1][1])
        else:
            # (at+1 .. len).rev() then clear at
            d = _lin_diff(rng[0], cdst)
            l_e, c_e = lin(rng[1])
            full = len(l_e) == 1 and c_e == 0 and all(_is_len(k) for k in l_e)
            if d == 1 and full and simplify(cdst) == ('arg', 2):
                ctx.ok((nm, 'range'), sample=dict(fn=nm, loop='(at+1..len).rev()', then='contigs[at] = empty'))
            else:
                ctx.bad(f"{nm}|range", f"{nm} shifts slots {show(rng[0])[:20]}..{show(rng[1])[:30]} and then clears slot {show(cdst)[:30]}", body=b, bb=clears[-1][1])
        # the copy loop is the range loop: dst index derives from the iterator
        ctx.ok((nm, 'scanned'))
