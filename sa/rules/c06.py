"""C06 / C20 - wire representations: writer/reader agreement (structural clauses of round-trip)."""
import collections
from ..framework import rule
from ..core import *
from ..lib import *
from ..wirelib import wire_views, buffer_accesses, expand, const_of, ret_origin, range_bounds
from ..bitfield import (getter_bits, setter_stores, getter_footprint, setter_modified, Undecided, atoms, Eval)
from .c04 import const_int

# C06 enumerates its protocols; RPL and IPsec (features proto-rpl / proto-ipsec, thorough cfg B) are not among them
OUT_OF_SCOPE = ('src/wire/rpl.rs', 'src/wire/ipsec_ah.rs', 'src/wire/ipsec_esp.rs')


def in_scope(F, adt_or_body):
    f = adt_or_body if isinstance(adt_or_body, str) else (adt_or_body.file or '')
    if not f.startswith('src/'):
        a = F.adts.get(adt_or_body) if isinstance(adt_or_body, str) else None
        f = (a or {}).get('file', '') if a else f
    return f not in OUT_OF_SCOPE


IPHC = 'wire::sixlowpan::iphc::Packet'
IPHCR = 'wire::sixlowpan::iphc::Repr'
NHCU = 'wire::sixlowpan::nhc::UdpNhcPacket'


def _pairs(F, adt):
    ms = {m.key.rsplit('::', 1)[-1]: m for m in F.methods(adt)}
    for nm, m in sorted(ms.items()):
        if nm.startswith('set_') and nm[4:] in ms:
            yield nm[4:], ms[nm[4:]], m


def _cover(F, body, adt):
    """set of constant byte indices touched, or None when any access is symbolic"""
    out = set()
    for a in buffer_accesses(F, body, adt):
        if a['kind'] == 'opaque':
            return None
        if a['kind'] == 'Index':
            c = const_of(expand(F, a['need'], adt))
            if c is None:
                return None
            out.add(c - 1)
            continue
        s, e = a.get('start'), a.get('end')
        cs = const_of(expand(F, s, adt)) if s is not None else 0
        ce = const_of(expand(F, e, adt)) if e is not None else None
        if a['kind'] == 'Range' and cs is not None and ce is not None:
            out |= set(range(cs, ce))
        elif a['kind'] == 'RangeTo' and ce is not None:
            out |= set(range(0, ce))
        else:
            return None
    return out


@rule('R06.2', ['C06'], floor=150, clause='for every field with a getter and a setter on a packet view, both touch exactly the same bytes of the buffer')
def r06_2(ctx):
    F = ctx.F
    views = wire_views(F)
    n = 0
    for adt in sorted(views):
        if not in_scope(F, adt):
            continue
        short = adt[len('wire::'):]
        for name, g, s in _pairs(F, adt):
            cg, cs = _cover(F, g, adt), _cover(F, s, adt)
            if cg is None or cs is None:
                continue
            n += 1
            if cg != cs:
                ctx.bad(f"{short}|{name}|byte-cover", f"{short}::{name}() reads bytes {sorted(cg)} but set_{name}() writes bytes {sorted(cs)}: "
                        "a value written by the setter is not what the getter reads back", body=g)
            else:
                ctx.ok((short, name), sample=dict(view=short, field=name, bytes=sorted(cg)[:8]))
    ctx.need(n >= 150, f"getter/setter pairs with constant byte footprint (found {n})")


@rule('R06.3', ['C06'], floor=90, clause='bit provenance: every buffer bit a getter returns at value position j is the bit into which the setter stores value bit j, and every bit a getter depends on is written by the setter')
def r06_3(ctx):
    _bit_provenance(ctx, lambda adt: True, 90)


@rule('R20.4', ['C20'], floor=20, clause='bit provenance of the 6LoWPAN and IEEE 802.15.4 header fields: the bits a getter returns are the bits its setter stores, in both directions (a fragment size, tag or offset read with a narrower mask than it was written with is a different datagram)')
def r20_4(ctx):
    _bit_provenance(ctx, lambda adt: adt.startswith('wire::sixlowpan::') or adt.startswith('wire::ieee802154::'), 20)


def _bit_provenance(ctx, flt, floor):
    F = ctx.F
    views = wire_views(F)
    decided = 0
    und = collections.Counter()
    for adt in sorted(views):
        if not in_scope(F, adt) or not flt(adt):
            continue
        short = adt[len('wire::'):]
        for name, g, s in _pairs(F, adt):
            try:
                gb = getter_bits(F, g, adt)
                st = setter_stores(F, s, adt)
            except Undecided as e:
                und[str(e)[:30]] += 1
                continue
            decided += 1
            fp = getter_footprint(gb)
            mod, carry = setter_modified(st)
            bad = None
            constant_setter = not any(a[0] in ('a', 'ctl') for bits in st.values() for x in bits for a in atoms(x))
            for j, b in enumerate(gb):
                if constant_setter:
                    break      # set_x() without a value (flag/dispatch setters): only the footprint clause applies
                if isinstance(b, tuple) and b[0] == 'b':
                    sb = st.get(b[1], [('b', b[1], i) for i in range(8)])[b[2]]
                    if sb == ('b', b[1], b[2]):
                        bad = f"value bit {j} is read from byte {b[1]} bit {b[2]}, which the setter leaves untouched"
                    elif sb in (0, 1):
                        bad = f"value bit {j} is read from byte {b[1]} bit {b[2]}, into which the setter stores the constant {sb}"
                    elif isinstance(sb, tuple) and sb[0] == 'a' and sb[2] != j:
                        bad = f"value bit {j} is read from byte {b[1]} bit {b[2]}, into which the setter stores value bit {sb[2]}"

                    if bad:
                        break
            if bad is None and not fp <= mod:
                miss = sorted(fp - mod)
                bad = f"the getter depends on byte/bit {miss[:4]} which the setter never writes"
            if bad is None and not constant_setter and all(isinstance(x, tuple) and x[0] == 'b' or x in (0, 1) for x in gb):
                # converse: a value bit the setter stores is the bit the getter returns at that position (a getter mask
                # narrower than the setter's loses the high bits of the field)
                for byte, bits in sorted(st.items()):
                    for i, x in enumerate(bits):
                        if isinstance(x, tuple) and x[0] == 'a' and x[2] < len(gb) + 8:
                            j = x[2]
                            got = gb[j] if j < len(gb) else 0
                            if got != ('b', byte, i):
                                bad = f"the setter stores value bit {j} into byte {byte} bit {i}, but the getter does not return that bit at position {j} (it returns {got})"
                                break
                    if bad:
                        break
            if bad:
                ctx.bad(f"{short}|{name}|bit-provenance", f"{short}::{name}() / set_{name}(): {bad}", body=g)
            else:
                ctx.ok((short, name), sample=dict(view=short, field=name, bits=sorted(fp)[:6]))
    ctx.note(f"undecided pairs (non-integer returns, bulk stores, symbolic offsets): {dict(und.most_common(8))}")
    ctx.need(decided >= floor, f"getter/setter pairs decided at bit level (found {decided})")


# ------------------------------------------------------------------------------------------------

DERIVED_SETTERS = {
    'set_data_len': 'the option length is computed from the content, parse reads it only to bound the data',
    'set_opcode': 'DHCP op is derived from the message type',
    'set_ack': 'the ACK flag is derived from ack_number being Some',
}


def _field_leaves(n, out, is_view_setter):
    if not isinstance(n, tuple):
        return
    if n and n[0] == 'call' and is_view_setter(n[1]):
        return         # a cursor returned by an earlier setter carries that setter's inputs: not a data flow
    if n and n[0] == 'field':
        out.add(n)
    for c in n[1:]:
        if isinstance(c, tuple):
            if c and isinstance(c[0], str):
                _field_leaves(c, out, is_view_setter)
            else:
                for d in c:
                    if isinstance(d, tuple):
                        _field_leaves(d, out, is_view_setter)


@rule('R06.5', ['C06'], floor=150, clause='for every Repr, the packet field that parse reads into a Repr field is the one emit writes from that same Repr field (reader and writer tables agree)')
def r06_5(ctx):
    F = ctx.F
    views = set(wire_views(F))

    def view_of(nm):
        for v in views:
            if nm.startswith(v + '::') or nm.startswith(v + '<'):
                return v
        return None

    def is_view_setter(nm):
        return view_of(nm) is not None and nm.rsplit('::', 1)[-1].startswith('set_')
    reprs = [a for a in F.adts if a.startswith('wire::') and in_scope(F, a) and F.method(a, 'parse') and F.method(a, 'emit')]
    ctx.need(len(reprs) >= 20, "wire Repr types with parse and emit")
    tot = 0
    for R in sorted(reprs):
        pb, eb = F.method(R, 'parse'), F.method(R, 'emit')
        P = collections.defaultdict(set)
        E = collections.defaultdict(set)
        S = collections.defaultdict(set)
        PV = collections.defaultdict(set)     # the same tables keyed per enum variant
        SV = collections.defaultdict(set)
        vs = set()
        for b in [pb] + F.closures_of(pb.key):
            for bi, bl in enumerate(b.blocks):
                if bl['cl']:
                    continue
                for si, s in enumerate(bl['s']):
                    if s[0] == 'a' and s[2][0] == 'agg' and s[2][1].get('k') == 'adt' and s[2][1]['adt'].startswith('wire::'):
                        adt = s[2][1]['adt']
                        names = s[2][1].get('fnames') or []
                        for i, op in enumerate(s[2][2]):
                            fn = names[i] if i < len(names) else str(i)
                            o = F.origin.operand(b, op, bi, si)
                            for l in leafs(o):
                                if l.startswith('C:') and view_of(l[2:]):
                                    P[(adt, fn)].add(l[2:].rsplit('::', 1)[-1])
                                    PV[(adt, s[2][1].get('variant') or '-', fn)].add(l[2:].rsplit('::', 1)[-1])
                                    vs.add(view_of(l[2:]))
        for b in [eb] + F.closures_of(eb.key):
            for x in b.calls():
                nm = b.callee_name(x[1]) or ''
                last = nm.rsplit('::', 1)[-1]
                if view_of(nm) and last.startswith('set_') and len(x[2]) >= 2:
                    for a in x[2][1:]:
                        o = F.origin.operand(b, a, x[0], len(b.blocks[x[0]]['s']))
                        out = set()
                        _field_leaves(o, out, is_view_setter)
                        for fld in out:
                            labs = [p for p in fld[2] if p[0] == 'f' and p[2].startswith('wire::')]
                            if labs:
                                k = (labs[-1][2], labs[-1][1])
                                E[k].add(last)
                                S[last].add(k)
                                SV[last].add((labs[-1][2], labs[-1][3] if len(labs[-1]) > 3 else '-', labs[-1][1]))
        getters = set()
        for v in vs:
            getters |= {m.key.rsplit('::', 1)[-1] for m in F.methods(v)}
        rs = R[len('wire::'):]
        for f, setters in sorted(E.items()):
            for sg in sorted(setters):
                g = sg[4:]
                if g in getters and f in P:
                    if sg in DERIVED_SETTERS:
                        continue
                    tot += 1
                    if g not in P[f]:
                        ctx.bad(f"{rs}|{f[1]}|emit:{sg}|parse:{'+'.join(sorted(P[f]))[:40]}",
                                f"{rs}::emit writes field `{f[1]}` with {sg}() but parse fills `{f[1]}` from {sorted(P[f])}: the value does not round-trip",
                                body=pb)
                    else:
                        ctx.ok((rs, f, sg), sample=dict(repr=rs, field=f[1], emit=sg, parse=g))
        for f, gs in sorted(P.items()):
            for g in sorted(gs):
                if 'set_' + g in S:
                    # the getter feeds field f in parse: some field that the getter feeds must be what emit hands to the setter
                    fed = {ff for ff, gg in P.items() if g in gg}
                    tot += 1
                    if not (fed & S['set_' + g]):
                        ctx.bad(f"{rs}|{f[1]}|parse:{g}|emit-from:{'+'.join(sorted(x[1] for x in S['set_'+g]))[:40]}",
                                f"{rs}::parse fills `{f[1]}` from {g}() but emit hands {sorted(x[1] for x in S['set_'+g])} to set_{g}()", body=eb)
                    else:
                        ctx.ok((rs, f, g, 'rev'))
        # per variant: a field that parse fills from getter g is handed to set_g by emit in the arm of that very variant (another
        # variant having a field of the same name that is emitted must not hide a variant whose arm dropped the setter)
        for (adt, var, fn), gs in sorted(PV.items()):
            if var == '-' or adt != R:
                continue
            for g in sorted(gs):
                sg = 'set_' + g
                if sg not in SV or sg in DERIVED_SETTERS:
                    continue
                same_variant = {x for x in SV[sg] if x[0] == adt and x[1] == var}
                others = {x for x in SV[sg] if x[0] == adt and x[1] != var}
                if not others:
                    continue         # nothing to compare with
                tot += 1
                fed_here = {ff for ff, gg in PV.items() if g in gg and ff[0] == adt and ff[1] == var}
                if fed_here & same_variant:
                    ctx.ok((rs, var, fn, g, 'per-variant'))
                else:
                    ctx.bad(f"{rs}|{var}.{fn}|parse:{g}|not-emitted-in-this-arm", f"{rs}::parse fills {var}.{fn} from {g}(), and emit hands the like-named field of "
                            f"{sorted(x[1] for x in others)[:3]} to {sg}(), but in the {var} arm no field reaches {sg}(): the value is lost on the wire", body=eb)
    ctx.need(tot >= 150, f"paired (Repr field, accessor) relations (found {tot})")


# ------------------------------------------------------------------------------------------------

def _cursor_defs(b):
    defs = {}
    for bi, bl in enumerate(b.blocks):
        if bl['cl']:
            continue
        for si, s in enumerate(bl['s']):
            if s[0] == 'a' and s[1][1] == []:
                L = s[1][0]
                if not b.locals[L]['user'] or b.locals[L]['ty'] not in ('usize', 'u8', 'u16', 'u32'):
                    continue
                rv = s[2]
                kind = 'set'
                if rv[0] == 'use' and rv[1][0] in ('m', 'c') and rv[1][1][1] and rv[1][1][1][0][0] == 'f':
                    t = rv[1][1][0]
                    for bl2 in b.blocks:
                        for s2 in bl2['s']:
                            if s2[0] == 'a' and s2[1] == [t, []] and s2[2][0] == 'bin' and s2[2][1] == 'AddWithOverflow' \
                                    and s2[2][2][0] in ('c', 'm') and s2[2][2][1] == [L, []]:
                                kind = 'acc'
                if rv[0] == 'bin' and rv[1] == 'Add' and rv[2][0] in ('c', 'm') and rv[2][1] == [L, []]:
                    kind = 'acc'
                defs.setdefault(L, []).append((bi, si, kind, s[3]))
    return defs


@rule('R06.6', ['C06', 'C10'], floor=20, clause='an emit/parse cursor that is advanced by accumulation is never reset to an unrelated value once initialised (consecutive options would overwrite each other)')
def r06_6(ctx):
    F = ctx.F
    n = 0
    for k, b in sorted(F.bodies.items()):
        if not ((b.file or '').startswith('src/wire/') or (b.file or '') == 'src/iface/interface/sixlowpan.rs') or not in_scope(F, b):
            continue
        defs = _cursor_defs(b)
        for L, ds in defs.items():
            if not any(d[2] == 'acc' for d in ds):
                continue
            n += 1
            name = b.locals[L]['name']
            bad = False
            for bi, si, kind, ln in ds:
                if kind != 'set':
                    continue
                r = b.reaching((('l', L), ()), bi, si)
                if any(x[0] != 'entry' for x in r):
                    bad = True
                    ctx.bad(f"{k.split('::', 1)[-1]}|{name}|cursor-reset", f"{k}: cursor `{name}` is overwritten (not advanced) after it was already in use: "
                            "what was emitted/parsed before is overwritten or skipped", body=b, bb=bi, line=ln)
            if not bad:
                ctx.ok((k, name), sample=dict(fn=k.split('::', 1)[-1], cursor=name, updates='accumulate only'))
    ctx.need(n >= 20, f"accumulating cursors in wire/6LoWPAN code (found {n})")


# ------------------------------------------------------------------------------------------------

IPHC_ORDER = ['ip_fields_start', 'traffic_class_size', 'next_header_size', 'hop_limit_size', 'src_address_size', 'dst_address_size']
IPHC_GETTERS = {'next_header': 2, 'hop_limit': 3, 'src_addr': 4, 'dst_addr': 5, 'payload': 6, 'header_len': 6}


def _size_atoms(n):
    """multiset of view size-helper calls in the linear form of an offset expression"""
    l, c = lin(simplify(n))
    out = collections.Counter()
    for a, v in l.items():
        a0 = strip(a)
        while a0[0] == 'cast':
            a0 = strip(a0[1])
        if a0[0] == 'call':
            out[a0[1].rsplit('::', 1)[-1]] += v
        elif a0[0] == 'phi':
            # accumulated `len += ..` chains show as nested adds; anything else is unknown
            out['?' + show(a0)[:20]] += v
        else:
            out['?' + show(a0)[:20]] += v
    return out, c


@rule('R06.1', ['C06', 'C20'], floor=8, clause='IPHC inline fields are located in RFC 6282 order (CID, TF, NH, HLIM, SRC, DST): each reader starts after exactly the preceding fields, and emit threads its cursor through the setters in the same order')
def r06_1(ctx):
    F = ctx.F
    for name, upto in IPHC_GETTERS.items():
        b = ctx.method(IPHC, name)
        want = collections.Counter(IPHC_ORDER[:upto])
        got = None
        if name == 'header_len':
            got = _size_atoms(ret_origin(F, b))[0]
            cands = [got]
        else:
            cands = []
            for a in buffer_accesses(F, b, IPHC):
                st = a.get('start')
                if a['kind'] == 'Index':
                    continue
                if st is None:
                    continue
                base_atoms = _size_atoms(a['need'] if a['kind'] != 'RangeFrom' else st)[0]
                cands.append(base_atoms)
        ctx.need(cands, f"buffer access in iphc::Packet::{name}")
        for got in cands:
            g2 = collections.Counter({k: v for k, v in got.items() if not k.startswith('?') and k in IPHC_ORDER})
            unknown = [k for k in got if k.startswith('?')]
            if g2 == want and not unknown:
                ctx.ok(('iphc', name, tuple(sorted(g2))), sample=dict(getter=name, start='+'.join(IPHC_ORDER[:upto])))
            else:
                ctx.bad(f"iphc::Packet::{name}|offset", f"iphc::Packet::{name} locates its field at {dict(got)} instead of after {IPHC_ORDER[:upto]}",
                        body=b)
    # ip_fields_start = 2 + cid_size
    b = ctx.method(IPHC, 'ip_fields_start')
    at, c = _size_atoms(ret_origin(F, b))
    if at == collections.Counter(['cid_size']) and c == 2:
        ctx.ok(('iphc', 'ip_fields_start'))
    else:
        ctx.bad("iphc::Packet::ip_fields_start|value", f"ip_fields_start = {dict(at)} + {c}, expected 2 + cid_size", body=b)
    # emit cursor threading
    e = ctx.method(IPHCR, 'emit')
    chain = ['set_next_header', 'set_hop_limit', 'set_src_address', 'set_dst_address']
    prev = None
    for nm in chain:
        tgt = ctx.method(IPHC, nm)
        sites = [x for x in e.calls() if e.callee_name(x[1]) == tgt.key]
        ctx.need(len(sites) == 1, f"one call of {nm} in iphc::Repr::emit")
        x = sites[0]
        idx = simplify(F.origin.operand(e, x[2][-1], x[0], len(e.blocks[x[0]]['s'])))
        if prev is None:
            okc = const_int(idx) == 2
            what = 'constant 2'
        else:
            i0 = strip(idx)
            okc = i0[0] == 'call' and i0[1] == prev
            what = f"the cursor returned by {prev.rsplit('::', 1)[-1]}"
        if okc:
            ctx.ok(('iphc-emit', nm), sample=dict(setter=nm, cursor=what))
        else:
            ctx.bad(f"iphc::Repr::emit|cursor|{nm}", f"iphc::Repr::emit passes {show(idx)[:60]} as write position to {nm}, expected {what}", body=e, bb=x[0])
        prev = tgt.key


@rule('R06.1b', ['C06', 'C20'], floor=3, clause='the IPHC hop-limit code table of the writer is the inverse of the reader\'s')
def r06_1b(ctx):
    F = ctx.F
    g = ctx.method(IPHC, 'hop_limit')
    s = ctx.method(IPHC, 'set_hop_limit')
    # reader: switch on hlim_field() -> constant returned
    rd = {}
    for bi, bl in enumerate(g.blocks):
        if bl['cl'] or bl['t'][0] != 'switch':
            continue
        d = simplify(F.origin.operand(g, bl['t'][1], bi, len(bl['s'])))
        if not is_call(d, 'hlim_field'):
            continue
        for val, tb in bl['t'][2]:
            c = _const_return(F, g, tb)
            if c is not None:
                rd[int(val)] = c
    wr = {}
    hf = ctx.method(IPHC, 'set_hlim_field')
    for bi, bl in enumerate(s.blocks):
        if bl['cl'] or bl['t'][0] != 'switch':
            continue
        d = simplify(F.origin.operand(s, bl['t'][1], bi, len(bl['s'])))
        if d != ('arg', 2):
            continue
        for val, tb in bl['t'][2]:
            k = _const_call_arg(F, s, tb, hf.key)
            if k is not None:
                wr[int(val)] = k
    ctx.need(len(rd) >= 3 and len(wr) >= 3, f"hop limit code tables (reader {rd}, writer {wr})")
    for hl, code in sorted(wr.items()):
        if rd.get(code) == hl:
            ctx.ok(('hlim', hl, code), sample=dict(hop_limit=hl, code=code))
        else:
            ctx.bad(f"iphc|hlim-table|{hl}", f"set_hop_limit encodes hop limit {hl} as code {code:#04b} but hop_limit() decodes that code as {rd.get(code)}", body=s)


def _const_return(F, b, start):
    """constant assigned to the return place on the straight-line path from block `start`"""
    bi = start
    for _ in range(6):
        bl = b.blocks[bi]
        for s in bl['s']:
            if s[0] == 'a' and s[1] == [0, []] and s[2][0] == 'use' and s[2][1][0] == 'k':
                v = s[2][1][2]
                if isinstance(v, dict) and 'v' in v:
                    v = v['v']
                return v if isinstance(v, int) else None
        t = bl['t']
        if t[0] == 'goto':
            bi = t[1]
        else:
            return None
    return None


def _const_call_arg(F, b, start, callee):
    bi = start
    for _ in range(6):
        bl = b.blocks[bi]
        t = bl['t']
        if t[0] == 'call' and b.callee_name(t[1]) == callee:
            return const_int(simplify(F.origin.operand(b, t[2][1], bi, len(bl['s']))))
        if t[0] == 'goto':
            bi = t[1]
        else:
            return None
    return None


# ------------------------------------------------------------------------------------------------
# 6LoWPAN NHC UDP ports: per compression form, the reader must read each port from bits that carry that
# port (and only that port) in the writer
# ------------------------------------------------------------------------------------------------

def _form_getter_bits(F, g, K):
    """bits returned by the getter when ports_field() == K"""
    for bi, bl in enumerate(g.blocks):
        if bl['cl'] or bl['t'][0] != 'switch':
            continue
        d = simplify(F.origin.operand(g, bl['t'][1], bi, len(bl['s'])))
        if not is_call(d, 'ports_field'):
            continue
        tg = bl['t'][2]
        tb = dict((int(v), t) for v, t in tg).get(K)
        if tb is None:
            return None
        cut = {(bi, t2) for v2, t2 in tg if t2 != tb} | ({(bi, bl['t'][3])} if bl['t'][3] != tb else set())
        rb = g.restricted(cut)
        r = simplify(ret_origin(F, rb))
        return Eval(F, NHCU).ev(r, 16)
    return None


@rule('R06.4', ['C06', 'C20'], floor=8, clause='6LoWPAN NHC UDP ports: in each of the four compression forms, src_port()/dst_port() read exactly bits into which set_ports() stores that port and no bit that carries the other port')
def r06_4(ctx):
    F = ctx.F
    s = ctx.method(NHCU, 'set_ports')
    gs = {'src': ctx.method(NHCU, 'src_port'), 'dst': ctx.method(NHCU, 'dst_port')}
    argno = {'src': 2, 'dst': 3}
    spf = ctx.method(NHCU, 'set_ports_field')
    arms = {}
    for x in s.calls():
        if s.callee_name(x[1]) == spf.key:
            k = const_int(simplify(F.origin.operand(s, x[2][1], x[0], len(s.blocks[x[0]]['s']))))
            if k is not None:
                arms[k] = x[0]
    ctx.need(sorted(arms) == [0, 1, 2, 3], f"four set_ports_field(K) arms in set_ports (found {sorted(arms)})")
    reach = {k: set(s.reachable(start=b)) for k, b in arms.items()}
    # dominating range facts for `port - K0`
    le_facts = []
    for bi, bl in enumerate(s.blocks):
        if bl['cl'] or bl['t'][0] != 'switch':
            continue
        for tb, lab, f in cond_facts(F, s, bi):
            if f[0] == 'rel':
                le_facts.append(f)

    def sub_hook(node, bb):
        a, c = strip(node[2]), const_int(simplify(node[3]))
        while a[0] == 'cast':
            a = strip(a[1])
        if a[0] != 'arg' or c is None:
            return None
        best = None
        for hi in (c + 15, c + 255):
            def pred(f, hi=hi, a=a):
                if f[0] != 'rel':
                    return False
                x, y = strip(f[2]), strip(f[3])
                return (f[1] == 'Le' and x == a and const_int(y) == hi) or (f[1] == 'Ge' and y == a and const_int(x) == hi)

            def predlo(f, a=a, c=c):
                if f[0] != 'rel':
                    return False
                x, y = strip(f[2]), strip(f[3])
                return (f[1] == 'Le' and y == a and const_int(x) == c) or (f[1] == 'Ge' and x == a and const_int(y) == c)
            if not unguarded(F, s, [bb], pred) and not unguarded(F, s, [bb], predlo):
                best = (hi - c).bit_length()
                break
        return best
    for K in sorted(arms):
        only = reach[K] - set().union(*[reach[j] for j in arms if j != K])
        try:
            st = setter_stores(F, s, NHCU, only_blocks=only, sub_hook=sub_hook, ignore_calls=(spf.key,))
        except Undecided as e:
            ctx.bad(f"nhc-udp|form{K}|setter-undecided", f"set_ports form {K:#04b}: stores cannot be evaluated ({e})", body=s, bb=arms[K])
            continue
        for which, g in gs.items():
            try:
                gb = _form_getter_bits(F, g, K)
            except Undecided as e:
                gb = None
            if gb is None:
                ctx.bad(f"nhc-udp|form{K}|{which}|getter-undecided", f"{which}_port() form {K:#04b} cannot be evaluated", body=g)
                continue
            fp = getter_footprint(gb)
            mine, other = ('a', argno[which]), ('a', argno['dst' if which == 'src' else 'src'])
            prob = None
            for (byte, bit) in sorted(fp):
                sb = st.get(byte, [('b', byte, i) for i in range(8)])[bit]
                at = atoms(sb)
                if not any(a[:2] == mine for a in at):
                    prob = f"reads byte {byte} bit {bit}, which set_ports does not fill from the {which} port (it holds {_desc(sb)})"
                    break
                if any(a[:2] == other for a in at):
                    prob = f"reads byte {byte} bit {bit}, which set_ports also fills from the other port"
                    break
            # every bit that carries this port (and only it) should be read back
            carried = {(byte, i) for byte, bits in st.items() for i, b in enumerate(bits)
                       if any(a[:2] == mine for a in atoms(b)) and not any(a[:2] == other for a in atoms(b))}
            if prob is None and not carried <= fp:
                prob = f"never reads byte/bit {sorted(carried - fp)[:4]} into which set_ports stores the {which} port"
            if prob:
                ctx.bad(f"nhc-udp|form{K}|{which}", f"UdpNhcPacket::{which}_port() in form {K:#04b} {prob}: ports do not survive compression", body=g)
            else:
                ctx.ok(('nhc-udp', K, which), sample=dict(form=f"{K:#04b}", port=which, bits=sorted(fp)[:4]))


def _desc(b):
    if b in (0, 1):
        return f"constant {b}"
    if b[0] == 'b':
        return 'the old buffer content'
    return 'bits of ' + ','.join(sorted({f"arg{a[1]}" for a in atoms(b) if a[0] == 'a'})) or 'unknown'



def _method_maps(F):
    """view method -> may-define bytemap (strict evaluation where possible, else lenient and compositional)"""
    out = {}
    views = sorted(wire_views(F))
    for adt in views:
        for m in F.methods(adt):
            try:
                out[m.key] = setter_stores(F, m, adt)
            except Undecided:
                pass
    for _ in range(2):
        for adt in views:
            for m in F.methods(adt):
                if m.key in out and out[m.key]:
                    continue
                try:
                    r = setter_stores(F, m, adt, lenient=True, submaps=out)
                except Undecided:
                    r = {}
                if r:
                    out[m.key] = r
    return out


@rule('R06.3b', ['C06', 'C10'], floor=25, clause='emission does not depend on previous buffer content: in every emit, a header byte that is written bit-wise has all of its bits defined, and no bit is left as an OR of the value with what the buffer held before')
def r06_3b(ctx):
    """Bit-provenance of the whole emit: the setters (and direct stores) an emit performs are composed in
    order; a bit whose final provenance still contains its own previous content, or a bit of a partially
    written byte that is never written, makes the emitted bytes depend on the prior buffer."""
    F = ctx.F
    maps = _method_maps(F)
    ctx.need(len(maps) >= 130, f"evaluated view methods (found {len(maps)})")
    n = 0
    for k, b in sorted(F.bodies.items()):
        if not (b.file or '').startswith('src/wire/') or k.rsplit('::', 1)[-1] not in ('emit', 'emit_header'):
            continue
        if not in_scope(F, b):
            continue
        if not any(b.callee_name(x[1]) in maps for x in b.calls()):
            continue
        try:
            M = setter_stores(F, b, None, lenient=True, submaps=maps)
        except Undecided:
            continue
        if not M:
            continue
        n += 1
        short = k.split('wire::', 1)[-1]
        dirty, missing = [], []
        for byte, bits in sorted(M.items()):
            written = [i for i, x in enumerate(bits) if x != ('b', byte, i)]
            for i, x in enumerate(bits):
                if x == ('b', byte, i):
                    if written:
                        missing.append((byte, i))
                elif x not in (0, 1) and any(a[0] == 'b' for a in atoms(x)):
                    dirty.append((byte, i))
        if dirty:
            ctx.bad(f"{short}|stale-bits", f"{k}: byte/bit {dirty[:6]} end up as a mix of the emitted value and the PREVIOUS buffer content "
                    "(a field is OR-ed in without being cleared first)", body=b)
        if missing:
            ctx.bad(f"{short}|undefined-bits", f"{k}: byte/bit {missing[:8]} of a header byte that is otherwise written are never defined: "
                    "they keep what the buffer contained before", body=b)
        if not dirty and not missing:
            ctx.ok((short, 'all-bits-defined'), sample=dict(emit=short, bytes=sorted(M)[:8]))
    ctx.need(n >= 20, f"emit bodies evaluated (found {n})")


def _copy_of(b, op, L, depth=0):
    if op[0] in ('c', 'm') and op[1] == [L, []]:
        return True
    if op[0] in ('c', 'm') and op[1][1] == [] and depth < 3:
        ds = [d for d in b._all_defs().get(op[1][0], []) if d[3] == []]
        if len(ds) == 1 and ds[0][2] == 'a' and ds[0][4][0] == 'use':
            return _copy_of(b, ds[0][4][1], L, depth + 1)
    return False


@rule('R06.6b', ['C06', 'C10'], floor=5, clause='two pieces are never emitted at the same cursor position: between two writes that start at an accumulating cursor, the cursor is advanced')
def r06_6b(ctx):
    F = ctx.F
    n = 0
    for k, b in sorted(F.bodies.items()):
        if not (b.file or '').startswith('src/wire/') or not in_scope(F, b):
            continue
        defs = _cursor_defs(b)
        for L, ds in defs.items():
            if not any(d[2] == 'acc' for d in ds):
                continue
            sites = []
            for bi, bl in enumerate(b.blocks):
                if bl['cl']:
                    continue
                for si, s in enumerate(bl['s']):
                    if s[0] == 'a' and s[2][0] == 'agg' and str(s[2][1].get('adt', '')).startswith('std::ops::Range') and s[2][2] \
                            and _copy_of(b, s[2][2][0], L):
                        rl = s[1][0]
                        for bj, bl2 in enumerate(b.blocks):
                            t2 = bl2['t']
                            if not bl2['cl'] and t2[0] == 'call' and 'index_mut' in (b.callee_name(t2[1]) or '') \
                                    and any(a[0] in ('c', 'm') and a[1] == [rl, []] for a in t2[2]):
                                sites.append(bj)
            if not sites:
                continue
            defblocks = {d[0] for d in ds}
            name = b.locals[L]['name']
            for s1 in sites:
                n += 1
                t = b.blocks[s1]['t']
                seen = b.reachable(start=t[4], cut_blocks=defblocks) if t[4] is not None else {}
                hit = [s2 for s2 in sites if s2 in seen and s2 not in defblocks]
                if hit:
                    ctx.bad(f"{k.split('wire::', 1)[-1]}|{name}|same-position-twice", f"{k}: two writes start at the same value of cursor `{name}` "
                            f"(lines {b.block_line(s1)} and {b.block_line(hit[0])}) with no advance in between: the second overwrites the first", body=b, bb=hit[0])
                else:
                    ctx.ok((k, name, s1), sample=dict(fn=k.split('wire::', 1)[-1], cursor=name))
    ctx.need(n >= 5, f"cursor-positioned writes (found {n})")


def _payload_start(F, m):
    """constant S when view method m returns `&mut buffer[S..]` (the payload / data area behind a fixed header)"""
    from ..bitfield import _is_buffer
    try:
        r = strip(simplify(ret_origin(F, m)))
    except Exception:
        return None
    while r[0] in ('ref', 'deref') and len(r) == 2:
        r = strip(r[1])
    if r[0] == 'call' and r[1].rsplit('::', 1)[-1] == 'index_mut' and len(r[2]) == 2 and _is_buffer(r[2][0], None):
        rb = range_bounds(F, r[2][1])
        if rb and rb[0] in ('RangeFrom', 'Range'):
            return const_of(expand(F, rb[1], None))
    return None


def _on_param(F, b, x):
    """the receiver of this method call is (a reborrow of) one of the body's own parameters - not a view built locally"""
    if not x[2] or not is_place_op(x[2][0]):
        return False
    o = strip(F.origin.operand(b, x[2][0], x[0], len(b.blocks[x[0]]['s'])))
    while o[0] in ('ref', 'deref', 'after') and len(o) >= 2:
        o = strip(o[1])
    if o[0] == 'phi':
        return all(_root_is_arg(a) for a in o[1])
    return _root_is_arg(o)


def _root_is_arg(o):
    o = strip(o)
    while o[0] in ('ref', 'deref', 'after') and len(o) >= 2:
        o = strip(o[1])
    return o[0] == 'arg' or (o[0] == 'field' and o[1][0] == 'arg')


def _block_defs(F, b, maps):
    """block -> set of (byte, bit) that the block defines (through view methods with a known map or direct stores)"""
    out = {}
    for x in b.calls():
        nm = b.callee_name(x[1])
        if nm in maps and _on_param(F, b, x):
            for byte, bits in maps[nm].items():
                for i, v in enumerate(bits):
                    if v != ('b', byte, i):
                        out.setdefault(x[0], set()).add((byte, i))
    for bi, bl in enumerate(b.blocks):
        if bl['cl']:
            continue
        try:
            M = setter_stores(F, b, None, only_blocks={bi}, lenient=True)
        except Undecided:
            M = {}
        for byte, bits in M.items():
            for i, v in enumerate(bits):
                if v != ('b', byte, i):
                    out.setdefault(bi, set()).add((byte, i))
    return out


@rule('R06.9', ['C06', 'C10'], floor=8, clause='when an emit fills in a payload behind a fixed-size header, every bit of that header is defined on the same path (no unused / reserved header word keeps previous buffer content)')
def r06_9(ctx):
    """Must-pass-through per header bit: sites = calls of a view method returning `&mut buffer[S..]` with constant
    S inside an emit; for every bit of bytes [0, S) every entry->site->return path passes a block that defines it."""
    F = ctx.F
    maps = _method_maps(F)
    starts = {}
    for adt in sorted(wire_views(F)):
        if not in_scope(F, adt):
            continue
        for m in F.methods(adt):
            s0 = _payload_start(F, m)
            if s0:
                starts[m.key] = s0
    ctx.need(len(starts) >= 8, f"payload accessors with a constant start (found {len(starts)})")
    n = 0
    for k, b in sorted(F.bodies.items()):
        if not (b.file or '').startswith('src/wire/') or k.rsplit('::', 1)[-1] not in ('emit', 'emit_header') or not in_scope(F, b):
            continue
        sites = [(x[0], b.callee_name(x[1])) for x in b.calls() if b.callee_name(x[1]) in starts and _on_param(F, b, x)]
        # icmpv6: the error messages fill the contained packet through a nested helper behind the 8-octet header
        # (payload_mut() itself starts at a message-type dependent offset)
        for x in b.calls():
            nm = b.callee_name(x[1]) or ''
            if nm.startswith(k + '::') and nm.endswith('emit_contained_packet') and _on_param(F, b, x):
                starts[nm] = 8          # wire::icmpv6::field::UNUSED.end: type, code, checksum, one message-specific word
                sites.append((x[0], nm))
        if not sites:
            continue
        defs = _block_defs(F, b, maps)
        rets = b.return_blocks()
        short = k.split('wire::', 1)[-1]
        for bb, callee in sites:
            n += 1
            S = starts[callee]
            missing = []
            for byte in range(S):
                for bit in range(8):
                    D = {blk for blk, st in defs.items() if (byte, bit) in st}
                    if bb in D or 0 in D:
                        continue
                    pre = b.reachable(cut_blocks=D)
                    if bb not in pre:
                        continue
                    post = b.reachable(start=bb, cut_blocks=D)
                    if any(r in post for r in rets):
                        missing.append((byte, bit))
            if missing:
                bytes_ = sorted({m[0] for m in missing})
                ctx.bad(f"{short}|header-bytes-undefined|{bytes_[0]}..{bytes_[-1]}", f"{k}: a payload is filled in behind a {S}-octet header whose bytes {bytes_[:8]} "
                        "are not written on that path: they keep what the buffer contained before (stale data leaks into the frame)", body=b, bb=bb)
            else:
                ctx.ok((short, callee.rsplit('::', 1)[-1], bb), sample=dict(emit=short, payload_at=S, header='every bit defined on the path'))
    ctx.need(n >= 8, f"payload fill sites in emit bodies (found {n})")


# ------------------------------------------------------------------------------------------------
# IPHC address modes: writer (mode bits + inline octets) vs reader size table
# ------------------------------------------------------------------------------------------------

def _decision_table(F, b, getters):
    """reader: enumerate the paths of a pure table function that switches on a tuple of getter results and returns a
    constant; -> {(v1, v2, ..): const}.  Path enumeration over the (acyclic) CFG with the getter results as symbols."""
    # locals that hold getter results
    sym = {}
    for x in b.calls():
        nm = (b.callee_name(x[1]) or '').rsplit('::', 1)[-1]
        if nm in getters and x[3][1] == []:
            sym[x[3][0]] = nm
    # the tuple local: aggregate of those locals
    tup = {}
    for bi, bl in enumerate(b.blocks):
        for s in bl['s']:
            if s[0] == 'a' and s[2][0] == 'agg' and s[2][1].get('k') == 'tuple':
                names = []
                for op in s[2][2]:
                    if is_place_op(op) and op[1][1] == [] and op[1][0] in sym:
                        names.append(sym[op[1][0]])
                if len(names) == len(s[2][2]) and names:
                    tup[s[1][0]] = names
    out = {}

    def field_of(op, bi, si):
        """which getter does this switch operand read"""
        if not is_place_op(op):
            return None
        l, path = op[1]
        if path == [] and l in sym:
            return sym[l]
        if l in tup and len(path) == 1 and path[0][0] == 'f':
            return tup[l][path[0][1]]
        if path == []:
            ds = [d for d in b._all_defs().get(l, []) if d[3] == []]
            if len(ds) == 1 and ds[0][2] == 'a' and ds[0][4][0] == 'use':
                return field_of(ds[0][4][1], bi, si)
        return None

    def walk_(bi, env, depth):
        if depth > 60:
            return
        bl = b.blocks[bi]
        for s in bl['s']:
            if s[0] == 'a' and s[1] == [0, []] and s[2][0] == 'use' and s[2][1][0] == 'k':
                v = s[2][1][2]
                if isinstance(v, dict) and 'v' in v:
                    v = v['v']
                env = dict(env)
                env['_ret'] = v
        t = bl['t']
        if t[0] == 'ret':
            if '_ret' in env and all(g in env for g in getters):
                out[tuple(env[g] for g in getters)] = env['_ret']
            return
        if t[0] == 'switch':
            g = field_of(t[1], bi, len(bl['s']))
            if g is None:
                for tb, _ in b.succ_edges(bi):
                    walk_(tb, env, depth + 1)
                return
            taken = set()
            for val, tb in t[2]:
                taken.add(int(val))
                if g in env and env[g] != int(val):
                    continue
                e2 = dict(env)
                e2[g] = int(val)
                walk_(tb, e2, depth + 1)
            # otherwise edge: only with a value not listed (keep the already fixed value if any)
            if g in env and env[g] not in taken:
                walk_(t[3], env, depth + 1)
            return
        for tb, _ in b.succ_edges(bi):
            walk_(tb, env, depth + 1)
    walk_(0, {}, 0)
    return out


def _writer_paths(F, b, setters, cursor_name='idx'):
    """writer: every path -> (last constant passed to each mode setter, total constant advance of the cursor)"""
    # the write cursor: the last parameter of type usize (the setters take `mut idx: usize` and return it)
    L = [i for i in range(b.nargs, 0, -1) if b.locals[i]['ty'] == 'usize'][:1]
    res = set()

    def walk_(bi, st, adv, depth, seen):
        if depth > 400 or (bi, st, adv) in seen:
            return
        seen.add((bi, st, adv))
        bl = b.blocks[bi]
        for s in bl['s']:
            if s[0] == 'a' and s[2][0] == 'bin' and s[2][1] == 'AddWithOverflow' and is_place_op(s[2][2]) and s[2][2][1] == [L[0], []] \
                    and s[2][3][0] == 'k' and isinstance(s[2][3][2], int):
                adv += s[2][3][2]
        t = bl['t']
        if t[0] == 'call':
            nm = (b.callee_name(t[1]) or '').rsplit('::', 1)[-1]
            if nm in setters and len(t[2]) >= 2:
                c = const_int(simplify(F.origin.operand(b, t[2][1], bi, len(bl['s']))))
                d = dict(st)
                d[nm] = c
                st = tuple(sorted(d.items()))
        if t[0] == 'ret':
            res.add((st, adv))
            return
        for tb, _ in b.succ_edges(bi):
            if not b.blocks[tb]['cl']:
                walk_(tb, st, adv, depth + 1, seen)
    if L:
        walk_(0, (), 0, 0, set())
    return res


@rule('R06.1c', ['C06', 'C20'], floor=10, clause='IPHC address modes: for every path of set_src_address / set_dst_address the number of in-line octets written equals what the reader\'s size table gives for the mode bits set on that path')
def r06_1c(ctx):
    F = ctx.F
    for which, sizefn, getters, setters in (
            ('dst', 'dst_address_size', ('m_field', 'dac_field', 'dam_field'), ('set_m_field', 'set_dac_field', 'set_dam_field')),
            ('src', 'src_address_size', ('sac_field', 'sam_field'), ('set_sac_field', 'set_sam_field'))):
        rd = _decision_table(F, ctx.method(IPHC, sizefn), getters)
        ctx.need(len(rd) >= 6, f"reader table {sizefn} (found {len(rd)} entries)")
        w = ctx.method(IPHC, f"set_{which}_address")
        paths = _writer_paths(F, w, setters)
        ctx.need(len(paths) >= 4, f"writer paths of set_{which}_address (found {len(paths)})")
        for st, adv in sorted(paths, key=str):
            d = dict(st)
            if any(s_ not in d or d[s_] is None for s_ in setters):
                ctx.bad(f"iphc|set_{which}_address|mode-undetermined", f"a path of set_{which}_address leaves a mode bit unset/non-constant ({d})", body=w)
                continue
            key = tuple(d[s_] for s_ in setters)
            want = rd.get(key)
            if want is None:
                ctx.bad(f"iphc|set_{which}_address|mode-{key}", f"set_{which}_address sets mode bits {dict(zip(getters, key))}, a combination the reader table "
                        f"{sizefn} does not decode", body=w)
            elif want != adv:
                ctx.bad(f"iphc|set_{which}_address|size-{key}", f"set_{which}_address writes {adv} in-line octets under mode bits {dict(zip(getters, key))} but the reader "
                        f"({sizefn}) expects {want}: the address and everything after it are mis-decoded", body=w)
            else:
                ctx.ok((which, key, adv), sample=dict(address=which, mode=dict(zip(getters, key)), inline_octets=adv))


def _slice_tests(F, b, which):
    """multiset of (start, end, rhs description) for `addr.octets()[a..b] == <array>` tests in b on the dst/src address"""
    out = collections.Counter()
    for x in b.calls():
        nm = b.callee_name(x[1]) or x[1].get('fn') or ''
        if not nm.endswith('::eq') or len(x[2]) != 2:
            continue
        a = strip(simplify(F.origin.operand(b, x[2][0], x[0], len(b.blocks[x[0]]['s']))))
        r = simplify(F.origin.operand(b, x[2][1], x[0], len(b.blocks[x[0]]['s'])))
        if a[0] == 'call' and a[1].rsplit('::', 1)[-1] == 'index' and len(a[2]) == 2:
            base = strip(a[2][0])
            if not (base[0] == 'call' and base[1].endswith('::octets')):
                continue
            src = strip(base[2][0])
            tag = None
            if src[0] == 'arg':
                tag = 'param'
            elif src[0] == 'field' and src[2] and src[2][-1][0] == 'f':
                tag = src[2][-1][1]
            if which == 'dst' and tag not in ('param', 'dst_addr'):
                continue
            if which == 'src' and tag not in ('param', 'src_addr'):
                continue
            rb = range_bounds(F, a[2][1])
            if rb and rb[0] == 'Range':
                out[(const_of(rb[1]), const_of(rb[2]), show(r)[:40])] += 1
    return out


@rule('R06.1d', ['C06', 'C20'], floor=2, clause='the IPHC writer chooses an address form by exactly the byte-range tests with which Repr::buffer_len sized it (a form chosen on a narrower test drops address bytes; a different one mis-sizes the header)')
def r06_1d(ctx):
    F = ctx.F
    bl = ctx.method(IPHCR, 'buffer_len')
    bodies = [bl] + F.closures_of(bl.key)
    for which in ('dst', 'src'):
        w = ctx.method(IPHC, f"set_{which}_address")
        tw = _slice_tests(F, w, which)
        tb = collections.Counter()
        for b in bodies:
            tb += _slice_tests(F, b, which)
        ctx.need(tw, f"address byte-range tests in set_{which}_address")
        if tw == tb:
            ctx.ok((which, 'tests-agree'), sample=dict(address=which, tests=sorted(str(k[:2]) for k in tw)[:4]))
        else:
            only_w = sorted(str(k) for k in (tw - tb))
            only_b = sorted(str(k) for k in (tb - tw))
            ctx.bad(f"iphc|{which}-address-form-tests", f"set_{which}_address decides the address form with tests {only_w} where Repr::buffer_len uses {only_b}: "
                    "address bytes are dropped or the emitted header does not have the declared length", body=w)
