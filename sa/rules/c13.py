"""C13 - poll_at is a sufficient and non-spinning wake-up schedule (structural clauses)."""
import re
from ..framework import rule
from ..core import *
from ..lib import *
from ..fdai import FDAI
from ..wirelib import ret_origin
from ..loops import loops
from .c04 import const_int

IF = 'iface::interface::Interface'
IFI = 'iface::interface::InterfaceInner'
NOW_LEAVES = (f"C:{IFI}::now", f"F:{IFI}.now")


def time_fields_compared(F, body, adts, extra_now=()):
    """ADT fields (of the given ADTs) that a body compares against the current time"""
    out = set()
    bodies = [body] + F.closures_of(body.key)
    for b in bodies:
        for bi, bl in enumerate(b.blocks):
            if bl['cl'] or bl['t'][0] != 'switch':
                continue
            for tb, lab, f in cond_facts(F, b, bi):
                if f[0] != 'rel':
                    continue
                la, lb = leafs(f[2]), leafs(f[3])
                for x, y in ((la, lb), (lb, la)):
                    if any(n in y for n in NOW_LEAVES + tuple(extra_now)):
                        for l in x:
                            if l.startswith('F:') and l[2:].rsplit('.', 1)[0] in adts:
                                out.add(l)
    return out


def all_leafs(F, body):
    out = set()
    for b in [body] + F.closures_of(body.key):
        for bi, bl in enumerate(b.blocks):
            if bl['cl']:
                continue
            for si, s in enumerate(bl['s']):
                if s[0] == 'a':
                    out |= leafs(F.origin.rvalue(b, s[2], bi, si, 0, None))
            if bl['t'][0] == 'call':
                out |= leafs(F.origin.call_node(b, bl['t'], bi, 0, None))
    return out


def _min_loop(F, p):
    """the explicit form of a minimum: a loop driven by Iterator::next that is left only when the iterator is exhausted
    (every item is visited) and that orders two instants somewhere inside (in the body or in a closure of it)"""
    from ..loops import loops
    for h, nodes, _ in loops(p):
        nxt = [x for x in nodes if p.blocks[x]['t'][0] == 'call' and (p.callee_name(p.blocks[x]['t'][1]) or '').endswith('::next')]
        if len(nxt) != 1:
            continue
        after = p.blocks[nxt[0]]['t'][4]
        exits = {x for x in nodes for y in p.succ[x] if y not in nodes and not p.blocks[y]['cl']}
        if not exits or not exits <= {after}:
            continue
        bodies = [p] + [cb for k, cb in F.bodies.items() if k.startswith(p.key + '::{closure')]
        for cb in bodies:
            for bi, bl in enumerate(cb.blocks):
                if bl['cl'] or (cb is p and bi not in nodes):
                    continue
                for st in bl['s']:
                    if st[0] == 'a' and st[2][0] == 'bin' and st[2][1] in ('Lt', 'Le', 'Gt', 'Ge'):
                        return True
                t = bl['t']
                if t[0] == 'call' and re.search(r'PartialOrd(<[^>]*>)?>?::(lt|le|gt|ge)$|Ord>?::(min|max|cmp)$', cb.callee_name(t[1]) or ''):
                    return True
    return False


@rule('R13.1', ['C13', 'C19'], floor=4, clause='per-socket poll_at reads every deadline field its dispatch compares with the clock, and takes the minimum over all pending items')
def r13_1(ctx):
    """T6 sibling agreement dispatch <-> poll_at for the DNS and DHCPv4 sockets (time fields compared with
    cx.now() in dispatch must be leaves of poll_at), DNS: minimum over *all* queries."""
    F = ctx.F
    D = 'socket::dns::Socket'
    d, p = ctx.method(D, 'dispatch'), ctx.method(D, 'poll_at')
    need = time_fields_compared(F, d, {'socket::dns::PendingQuery'})
    ctx.need(len(need) >= 2, f"DNS dispatch compares retransmit_at and timeout_at with now (found {sorted(need)})")
    have = all_leafs(F, p)
    for l in sorted(need):
        if l in have:
            ctx.ok(('dns', l), sample=dict(socket='dns', deadline=l[2:], poll_at='reads it'))
        else:
            ctx.bad(f"dns::poll_at|ignores|{l.rsplit('.',1)[-1]}", f"dns::Socket::dispatch acts when `{l[2:]}` passes but poll_at never reads it "
                    "(the wake-up deadline can be later than the instant at which dispatch would transmit)", body=p)
    calls = {p.callee_name(c) or '' for _, c, *_ in p.calls()}
    if any(c.endswith('Iterator::min') or c.endswith('::min') for c in calls):
        ctx.ok(('dns', 'min-over-queries'), sample=dict(socket='dns', poll_at='Iterator::min over all pending queries'))
    elif _min_loop(F, p):
        ctx.ok(('dns', 'min-over-queries'), sample=dict(socket='dns', poll_at='loop over all queries keeping the earlier instant'))
    else:
        ctx.bad("dns::poll_at|not-min", "dns::Socket::poll_at does not take the minimum over all pending queries", body=p)
    # DHCPv4
    H = 'socket::dhcpv4::Socket'
    d, p = ctx.method(H, 'dispatch'), ctx.method(H, 'poll_at')
    adts = {'socket::dhcpv4::DiscoverState', 'socket::dhcpv4::RequestState', 'socket::dhcpv4::RenewState'}
    need = time_fields_compared(F, d, adts)
    ctx.need(len(need) >= 4, f"DHCP dispatch compares its retry/renew/rebind/expiry instants with now (found {sorted(need)})")
    have = all_leafs(F, p)
    for l in sorted(need):
        if l in have:
            ctx.ok(('dhcp', l), sample=dict(socket='dhcpv4', deadline=l[2:], poll_at='reads it'))
        else:
            ctx.bad(f"dhcpv4::poll_at|ignores|{l.rsplit('.',1)[-1]}", f"dhcpv4::Socket::dispatch acts when `{l[2:]}` passes but poll_at never reads it", body=p)
    # datagram sockets: poll_at == Now iff tx buffer non-empty
    for adt in ('socket::udp::Socket', 'socket::icmp::Socket', 'socket::raw::Socket'):
        p = ctx.method(adt, 'poll_at')
        if f"F:{adt}.tx_buffer" in all_leafs(F, p) and any((p.callee_name(c) or '').endswith('is_empty') for _, c, *_ in p.calls()):
            ctx.ok((adt, 'tx_buffer'))
        else:
            ctx.bad(f"{adt}::poll_at|tx_buffer", f"{adt}::poll_at does not depend on tx_buffer.is_empty()", body=p)


@rule('R13.2', ['C13', 'C16'], floor=4, clause='Meta::poll_at and Meta::egress_permitted take the same three-way decision (state, neighbor known, silence expired)')
def r13_2(ctx):
    F = ctx.F
    M = 'iface::socket_meta::Meta'
    NS = 'iface::socket_meta::NeighborState'
    pa, ep = ctx.method(M, 'poll_at'), ctx.method(M, 'egress_permitted')
    for b, nm in ((pa, 'poll_at'), (ep, 'egress_permitted')):
        ls = set()
        for bi, bl in enumerate(b.blocks):
            if bl['cl'] or bl['t'][0] != 'switch':
                continue
            for tb, lab, f in cond_facts(F, b, bi):
                for x in f[1:]:
                    if isinstance(x, tuple):
                        ls |= leafs(x)
        want = {f"F:{NS}.silent_until": 'silence deadline', f"F:{NS}.neighbor": 'neighbor lookup'}
        for l, what in want.items():
            if l in ls:
                ctx.ok((nm, l))
            else:
                ctx.bad(f"Meta::{nm}|ignores|{l.rsplit('.',1)[-1]}", f"Meta::{nm} does not branch on the {what} ({l[2:]})", body=b)
    # poll_at returns Time(silent_until) only; egress false only behind timestamp < silent_until
    r = ret_origin(F, pa)
    if f"F:{NS}.silent_until" in leafs(r):
        ctx.ok(('poll_at', 'returns-silent_until'))
    else:
        ctx.bad("Meta::poll_at|deadline", "Meta::poll_at never returns the silence deadline", body=pa)
    c = F.const_value('iface::socket_meta::Meta::DISCOVERY_SILENT_TIME')
    if c and c.get('fields') == [1_000_000]:
        ctx.ok(('DISCOVERY_SILENT_TIME',), sample=dict(const='Meta::DISCOVERY_SILENT_TIME', micros=1000000))
    else:
        ctx.bad("Meta|DISCOVERY_SILENT_TIME", f"Meta::DISCOVERY_SILENT_TIME = {c} (expected 1 s)")


@rule('R13.3', ['C13', 'C12'], floor=3, clause='Interface::poll_at: busy fragmenter => immediate deadline; every socket goes through Meta::poll_at; SLAAC deadline only when enabled')
def r13_3(ctx):
    F = ctx.F
    b = ctx.method(IF, 'poll_at')
    FR = 'iface::fragmentation::Fragmenter'
    ie = F.method(FR, 'is_empty')
    ctx.need(ie is not None, "Fragmenter::is_empty")
    # the false edge of fragmenter.is_empty() must lead to `return Some(0)`
    g = guard_edges(F, b, p_call(lambda n: n == ie.key, False))
    if not g:
        ctx.bad("Interface::poll_at|fragmenter", "Interface::poll_at does not test whether the fragmenter is busy "
                "(remaining fragments are only sent by the next poll)", body=b)
    else:
        e = g[0]
        seen = b.reachable(start=e[1])
        # from that edge the socket iteration must not be reachable (it returns immediately)
        it = [x[0] for x in b.calls() if (b.callee_name(x[1]) or '').endswith('::min')]
        if any(i in seen for i in it):
            ctx.bad("Interface::poll_at|fragmenter|no-return", "busy fragmenter does not short-circuit to an immediate deadline", body=b, bb=e[0])
        else:
            ctx.ok(('fragmenter', 'immediate'), sample=dict(fn='Interface::poll_at', busy_fragmenter='returns Some(0)'))
    cl = F.closures_of(b.key)
    M = F.method('iface::socket_meta::Meta', 'poll_at')
    if any(cb.callee_name(c) == M.key for cb in cl for _, c, *_ in cb.calls()):
        ctx.ok(('sockets', 'via-meta'))
    else:
        ctx.bad("Interface::poll_at|meta", "socket deadlines are not filtered through Meta::poll_at (neighbor back-off ignored)", body=b)
    sl = F.method('iface::slaac::Slaac', 'poll_at')
    sites = [x[0] for x in b.calls() if b.callee_name(x[1]) == sl.key]
    if sites:
        bad = unguarded(F, b, sites, lambda f: f[0] == 'bool' and f[2] is True and f"F:{IFI}.slaac_enabled" in leafs(f[1]))
        if bad:
            ctx.bad("Interface::poll_at|slaac-unguarded", "SLAAC deadline consulted although SLAAC is disabled", body=b, bb=sites[0])
        else:
            ctx.ok(('slaac', 'guarded'))


@rule('R13.4', ['C13'], floor=2, clause='Slaac::poll_at reports the solicitation deadline only while a solicitation can still be sent (mirror of rs_required)')
def r13_4(ctx):
    F = ctx.F
    SL = 'iface::slaac::Slaac'
    pa, rq = ctx.method(SL, 'poll_at'), ctx.method(SL, 'rs_required')
    need = set()
    for bi, bl in enumerate(rq.blocks):
        if bl['cl'] or bl['t'][0] != 'switch':
            continue
        for tb, lab, f in cond_facts(F, rq, bi):
            for x in f[1:]:
                if isinstance(x, tuple):
                    need |= {l for l in leafs(x) if l.startswith(f"F:{SL}.")}
    need |= {l for l in leafs(ret_origin(F, rq)) if l.startswith(f"F:{SL}.")}     # a conjunct that is returned directly
    ctx.need(f"F:{SL}.num_solicitations" in need and f"F:{SL}.retry_rs_at" in need, "rs_required tests retry_rs_at and num_solicitations")
    have = set()
    for bi, bl in enumerate(pa.blocks):
        if bl['cl'] or bl['t'][0] != 'switch':
            continue
        for tb, lab, f in cond_facts(F, pa, bi):
            for x in f[1:]:
                if isinstance(x, tuple):
                    have |= {l for l in leafs(x) if l.startswith(f"F:{SL}.")}
    have |= {l for l in leafs(ret_origin(F, pa)) if l.startswith(f"F:{SL}.")}
    for l in sorted(need):
        if l in have:
            ctx.ok(('slaac', l), sample=dict(fn='Slaac::poll_at', depends_on=l[2:]))
        else:
            ctx.bad(f"Slaac::poll_at|ignores|{l.rsplit('.',1)[-1]}", f"Slaac::rs_required depends on `{l[2:]}` but Slaac::poll_at does not: once the "
                    "condition is false the reported deadline stays in the past and an event loop built on poll_at spins", body=pa)


@rule('R13.5', ['C13', 'C16'], floor=1, clause='every failed socket dispatch silences the socket (neighbor back-off) before the egress loop continues')
def r13_5(ctx):
    """T2: in Interface::socket_egress, from the Err edge of the per-socket dispatch result every path
    back to the loop header passes Meta::neighbor_missing (or leaves the loop)."""
    F = ctx.F
    b = ctx.method(IF, 'socket_egress')
    nm = ctx.method('iface::socket_meta::Meta', 'neighbor_missing')
    blockers = {x[0] for x in b.calls() if b.callee_name(x[1]) == nm.key}
    ctx.need(blockers, "neighbor_missing call in socket_egress")
    ls = loops(b)
    ctx.need(ls, "socket loop in socket_egress")
    h, nodes, srcs = max(ls, key=lambda x: len(x[1]))
    errs = []
    for bi in sorted(nodes):
        bl = b.blocks[bi]
        if bl['cl'] or bl['t'][0] != 'switch':
            continue
        for tb, lab, f in cond_facts(F, b, bi):
            if f[0] == 'is' and f[2] == 'Err' and f[3] == 'std::result::Result':
                errs.append((bi, tb, lab))
    ctx.need(errs, "match on the dispatch result in socket_egress")
    n = 0
    for (bi, tb, lab) in errs:
        seen = b.reachable(cut_blocks=blockers, start=tb)
        inloop = [x for x in seen if x in nodes]
        if h in seen and tb in nodes:
            n += 1
            ctx.bad("socket_egress|err-without-backoff", "a socket whose dispatch failed can be polled again at once (no neighbor_missing on some "
                    "error path): poll_at keeps returning `now` and the event loop spins", body=b, bb=bi, path=b.path_to(seen, h))
        else:
            ctx.ok(('egress', 'err-backoff', bi), sample=dict(fn='socket_egress', on_error='neighbor_missing | leave loop'))
